"""High-precision reference for the complex helpers (C20): mpmath at PREC bits.

Conventions
  * a double is passed around as a Python float; `exact(fn, ...)` returns an `mpmath.mpc`/`mpf` that is the
    mathematical principal value at PREC bits (inputs are converted exactly).
  * sqrt / log / exp / real powers obey f(conj z) = conj f(z); the oracle computes with |Im z| and conjugates
    when the imaginary part is negative-*signed*, so that -0.0 selects the lower side of a branch cut exactly as
    C99 Annex G prescribes.  mpmath has no signed zeros; the sign of an exactly-zero result component is given
    separately by `zero_signs`.
  * `ulp(v)` is the spacing of doubles at magnitude |v| (2^-1074 below DBL_MIN), computed in mpmath.
"""
import math

import mpmath
from mpmath import mp, mpc, mpf

PREC = 320
mp.prec = PREC

DBL_MAX = mpf(2) ** 1024 - mpf(2) ** 971
DBL_MIN = mpf(2) ** -1022
TINY = mpf(2) ** -1074


def M(x):
    """exact conversion double -> mpf"""
    return mpf(float(x))


def ulp(v):
    v = abs(v)
    if v == 0:
        return TINY
    e = int(mpmath.frexp(v)[1]) - 1          # exact floor(log2 v), also for exponents of astronomical size
    return mpf(2) ** (max(e, -1022) - 52)


def representable(v):
    """both components inside the finite double range"""
    if isinstance(v, mpc):
        return abs(v.real) <= DBL_MAX and abs(v.imag) <= DBL_MAX
    return abs(v) <= DBL_MAX


def _neg_signed(y):
    return math.copysign(1.0, y) < 0


def csqrt(re, im):
    z = mpc(M(re), abs(M(im)))
    r = mpmath.sqrt(z)
    if M(im) == 0 and M(re) < 0:
        r = mpc(0, mpmath.sqrt(-M(re)))          # upper side of the cut
    return mpmath.conj(r) if _neg_signed(im) else r


def clog(re, im):
    z = mpc(M(re), abs(M(im)))
    if M(im) == 0 and M(re) < 0:
        r = mpc(mpmath.log(-M(re)), mpmath.pi)   # upper side of the cut
    else:
        r = mpmath.log(z)
    return mpmath.conj(r) if _neg_signed(im) else r


def cexp(re, im):
    x, y = M(re), M(im)
    m = mpmath.exp(x)
    return mpc(m * mpmath.cos(y), m * mpmath.sin(y))


def hypot(x, y):
    return mpmath.sqrt(M(x) ** 2 + M(y) ** 2)


def cpow_int(re, im, n):
    """a**n for integer n by exact rational arithmetic at PREC bits (no logarithm involved)."""
    a = mpc(M(re), M(im))
    if n == 0:
        return mpc(1, 0)
    r = a ** abs(int(n))      # mpmath integer power: repeated multiplication at working precision
    return 1 / r if n < 0 else r


def cpow_real(re, im, b):
    """principal a**b = exp(b Log a) for real b; branch cut side chosen by the sign of Im a (signed zero)."""
    if M(re) == 0 and M(im) == 0:
        return mpc(0, 0)
    return mpmath.exp(M(b) * clog(re, im))


def double_factorial(n):
    r = 1
    k = int(n)
    while k > 1:
        r *= k
        k -= 2
    return r


def err_ulps(got, exact):
    """(normwise, real-component, imag-component) error of the Python complex/float `got` in ulp of the
    corresponding exact magnitude.  Non-finite `got` for finite exact -> inf."""
    if isinstance(exact, mpc):
        gr, gi = float(got.real), float(got.imag)
        if not (math.isfinite(gr) and math.isfinite(gi)):
            return math.inf, (math.inf if not math.isfinite(gr) else float(abs(M(gr) - exact.real) / ulp(exact.real))), \
                (math.inf if not math.isfinite(gi) else float(abs(M(gi) - exact.imag) / ulp(exact.imag)))
        d = mpc(M(gr), M(gi)) - exact
        return (float(abs(d) / ulp(abs(exact))), float(abs(d.real) / ulp(exact.real)),
                float(abs(d.imag) / ulp(exact.imag)))
    g = float(got)
    if not math.isfinite(g):
        return math.inf, math.inf, 0.0
    e = float(abs(M(g) - exact) / ulp(exact))
    return e, e, 0.0


# ---- C99 Annex G tables (G.6.4.2 csqrt, G.6.3.2 clog) for arguments with a zero, infinite or NaN part --------

def _cls(v):
    if math.isnan(v):
        return 'nan'
    s = '-' if math.copysign(1.0, v) < 0 else '+'
    if math.isinf(v):
        return s + 'inf'
    if v == 0:
        return s + '0'
    return s + 'fin'


def classify(re, im):
    return '%s,%s' % (_cls(re), _cls(im))


def annexg_csqrt(re, im):
    """Expected (real, imag) for a *special* argument; entries are floats, or 'nan', or '+-inf' (sign
    unspecified).  Returns None when the table says nothing (finite non-zero both parts)."""
    neg = _neg_signed(im)
    y = abs(im) if not math.isnan(im) else im
    out = None
    if math.isinf(y):
        out = (math.inf, math.inf)                       # csqrt(x + i inf) = inf + i inf, also for x NaN
    elif math.isnan(re):
        out = ('nan', 'nan')
    elif math.isnan(y):
        if math.isinf(re):
            out = ('nan', '+-inf') if re < 0 else (math.inf, 'nan')
        else:
            out = ('nan', 'nan')
    elif math.isinf(re):
        out = (0.0, math.inf) if re < 0 else (math.inf, 0.0)
    elif y == 0:
        if re == 0:
            out = (0.0, 0.0)
        elif re > 0:
            out = (math.sqrt(re), 0.0)
        else:
            out = (0.0, math.sqrt(-re))
    elif re == 0:
        return None                                       # ordinary finite value, judged by the ulp clause
    else:
        return None
    if neg and not isinstance(out[1], str):
        out = (out[0], -out[1])
    return out


def annexg_clog(re, im):
    neg = _neg_signed(im)
    y = abs(im) if not math.isnan(im) else im
    pi = math.pi
    out = None
    if math.isnan(re):
        out = (math.inf, 'nan') if math.isinf(y) else ('nan', 'nan')
    elif math.isnan(y):
        out = (math.inf, 'nan') if math.isinf(re) else ('nan', 'nan')
    elif math.isinf(y):
        if math.isinf(re):
            out = (math.inf, 3 * pi / 4 if re < 0 else pi / 4)
        else:
            out = (math.inf, pi / 2)
    elif math.isinf(re):
        out = (math.inf, pi if re < 0 else 0.0)
    elif y == 0:
        if re == 0:
            out = (-math.inf, pi if _neg_signed(re) else 0.0)
        elif re > 0:
            out = (math.log(re), 0.0)
        else:
            out = (math.log(-re), pi)
    else:
        return None
    if neg and not isinstance(out[1], str):
        out = (out[0], -out[1])
    return out


def matches_special(got, want, rel=8 * 2.0 ** -52):
    """component-wise comparison against an Annex G entry (signed zeros and infinities exactly,
    finite non-zero values to `rel`)."""
    if want == 'nan':
        return math.isnan(got)
    if want == '+-inf':
        return math.isinf(got)
    if math.isnan(got):
        return False
    if want == 0 or math.isinf(want):
        return got == want and math.copysign(1.0, got) == math.copysign(1.0, want)
    return math.copysign(1.0, got) == math.copysign(1.0, want) and abs(got - want) <= rel * abs(want)


def selftest():
    import cmath
    assert mp.prec == PREC
    # textbook values
    assert abs(csqrt(-4.0, 0.0) - mpc(0, 2)) == 0 and abs(csqrt(-4.0, -0.0) - mpc(0, -2)) == 0
    assert abs(csqrt(3.0, 4.0) - mpc(2, 1)) < mpf(10) ** -80
    assert abs(clog(-1.0, 0.0) - mpc(0, mpmath.pi)) == 0 and abs(clog(-1.0, -0.0) + mpc(0, mpmath.pi)) == 0
    assert abs(cexp(0.0, math.pi) - mpc(-1, mpf('1.2246467991473531772e-16'))) < mpf(10) ** -30
    assert abs(cpow_int(1.0, 1.0, 8) - 16) == 0 and abs(cpow_int(0.0, 2.0, -2) + mpf(1) / 4) < mpf(10) ** -80
    assert abs(cpow_real(-4.0, 0.0, 0.5) - mpc(0, 2)) < mpf(10) ** -80
    assert abs(cpow_real(-4.0, -0.0, 0.5) - mpc(0, -2)) < mpf(10) ** -80
    assert hypot(3.0, 4.0) == 5
    # argument reduction of huge angles (sin(1e22) = -0.8522008497671888017727...)
    assert abs(mpmath.sin(mpf(1e22)) - mpf('-0.8522008497671888017727058937530293682618')) < mpf(10) ** -35
    assert double_factorial(9) == 945 and double_factorial(10) == 3840 and double_factorial(0) == 1
    assert ulp(mpf(1)) == mpf(2) ** -52 and ulp(mpf(2) ** -1030) == TINY and ulp(mpf('1.5')) == mpf(2) ** -52
    assert ulp(mpf(2) - mpf(2) ** -60) == mpf(2) ** -52 and ulp(mpf(2)) == mpf(2) ** -51
    # Annex G tables agree with the platform's cmath wherever cmath returns a value
    vals = [0.0, -0.0, 1.5, -1.5, math.inf, -math.inf, math.nan]
    for x in vals:
        for y in vals:
            for name, tab, ref in (('csqrt', annexg_csqrt, cmath.sqrt), ('clog', annexg_clog, cmath.log)):
                want = tab(x, y)
                if want is None:
                    continue
                try:
                    r = ref(complex(x, y))
                except ValueError:
                    assert name == 'clog' and x == 0 and y == 0
                    continue
                assert matches_special(r.real, want[0]) and matches_special(r.imag, want[1]), (name, x, y, r, want)
