"""Exact-rational Hansen coefficients X^{n,m}_k(e) as truncated power series in e.

Definition (Hansen; Kaula 1966 eq. 3.64ff; Murray & Dermott 6.5):

    (r/a)^n exp(i m f) = sum_k X^{n,m}_k(e) exp(i k M)
    X^{n,m}_k = (1/2pi) int_0^{2pi} (r/a)^n exp(i m f) exp(-i k M) dM

With the eccentric anomaly E:  r/a = 1 - e cosE,  dM = (r/a) dE,  M = E - e sinE,
(r/a) exp(+-i f) = cosE - e +- i sqrt(1-e^2) sinE.  Writing z = exp(iE), c = (z+1/z)/2 and
s = sqrt(1-e^2) (a power series in e^2), for m >= 0

    X^{n,m}_k = [z^k]  (1 - e c)^(n+1-m) * ( (1+s)/2 z + (1-s)/2 /z - e )^m * exp( k e (z - 1/z)/2 )

where every factor is a power series in e whose coefficients are Laurent polynomials in z with
*rational* coefficients, and [z^k] takes the coefficient of z^k (the dE integral).  m < 0 follows from
X^{n,-m}_{-k} = X^{n,m}_k (complex conjugation; all coefficients are real).

This module is deliberately self-contained (plain lists of fractions.Fraction, no use of
oracles.series) so that it shares no code with the object fed through the tables under test.

Tidal eccentricity functions (Kaula): G_lpq(e) = X^{-(l+1), l-2p}_{l-2p+q}(e).

Independent cross-checks available to `selftest()`:
  * textbook series (Kaula 1966 table 3 / Murray & Dermott): G_200, G_201, G_20-1, G_202, G_211, G_212;
  * closed forms for k = 0 (Kaula 3.66 / finite hypergeometric sum), implemented separately in
    `g_closed_k0` from the *true-anomaly* integral, compared to order 40;
  * mpmath quadrature of the defining integral over the MEAN anomaly (Kepler's equation solved
    numerically, true anomaly by the half-angle formula) at two eccentricities.
"""
from fractions import Fraction
from functools import lru_cache
from math import comb, factorial

__all__ = ['hansen', 'g_lpq', 'g2_lpq', 'g_closed_k0', 'selftest', 'DEFAULT_ORDER']

DEFAULT_ORDER = 24
ZERO = Fraction(0)


# ---- one-variable helpers (lists of Fraction, index = power of e) -------------------------------

def _mul(a, b, order):
    out = [ZERO] * (order + 1)
    for i, u in enumerate(a):
        if u:
            lim = order - i
            for j, v in enumerate(b):
                if j > lim:
                    break
                if v:
                    out[i + j] += u * v
    return out


def _gbinom(nu, j):
    """Generalised binomial coefficient C(nu, j) for integer or rational nu."""
    r = Fraction(1)
    for i in range(j):
        r = r * (nu - i) / (i + 1)
    return r


@lru_cache(maxsize=None)
def _sqrt_one_minus_e2(order):
    """sqrt(1 - e^2) = sum_j C(1/2, j) (-1)^j e^(2j)."""
    out = [ZERO] * (order + 1)
    for j in range(order // 2 + 1):
        out[2 * j] = _gbinom(Fraction(1, 2), j) * (-1) ** j
    return tuple(out)


# ---- bivariate pieces: dict {z-power: list over e-power} ---------------------------------------

@lru_cache(maxsize=None)
def _B(m, order):
    """( (1+s)/2 z + (1-s)/2 z^-1 - e )^m ,  m >= 0."""
    s = _sqrt_one_minus_e2(order)
    alpha = [(x / 2) for x in s]
    alpha[0] += Fraction(1, 2)
    beta = [(-x / 2) for x in s]
    beta[0] += Fraction(1, 2)
    minus_e = [ZERO] * (order + 1)
    if order >= 1:
        minus_e[1] = Fraction(-1)
    base = {1: alpha, -1: beta, 0: minus_e}
    one = [ZERO] * (order + 1)
    one[0] = Fraction(1)
    res = {0: one}
    for _ in range(m):
        nxt = {}
        for zp, a in res.items():
            for zq, b in base.items():
                prod = _mul(a, b, order)
                if zp + zq in nxt:
                    t = nxt[zp + zq]
                    for i, v in enumerate(prod):
                        if v:
                            t[i] += v
                else:
                    nxt[zp + zq] = prod
        res = nxt
    return res


@lru_cache(maxsize=None)
def _AB(n, m, order):
    """(1 - e c)^(n+1-m) * B_m  as {z-power: [coeff of e^0, e^1, ...]} (m >= 0)."""
    nu = n + 1 - m
    B = _B(m, order)
    out = {}
    for j in range(order + 1):
        g = _gbinom(nu, j) * (-1) ** j / Fraction(2) ** j      # coefficient of e^j c^j -> (z+1/z)^j / 2^j
        if g == 0:
            break
        for i in range(j + 1):
            a = g * comb(j, i)
            za = j - 2 * i
            for zb, ser in B.items():
                t = out.get(za + zb)
                if t is None:
                    t = out[za + zb] = [ZERO] * (order + 1)
                for d in range(order + 1 - j):
                    v = ser[d]
                    if v:
                        t[j + d] += a * v
    return out


@lru_cache(maxsize=None)
def hansen(n, m, k, order=DEFAULT_ORDER):
    """Tuple of Fractions: coefficients of e^0 .. e^order of X^{n,m}_k(e)."""
    if m < 0:
        return hansen(n, -m, -k, order)
    P = _AB(n, m, order)
    out = [ZERO] * (order + 1)
    # exp(k e (z - 1/z)/2) = sum_j (k/2)^j e^j / j! * sum_i C(j,i) (-1)^i z^(j-2i)
    for j in range(order + 1):
        if k == 0 and j > 0:
            break
        cj = Fraction(k, 2) ** j / factorial(j)
        for i in range(j + 1):
            ser = P.get(k - (j - 2 * i))
            if ser is None:
                continue
            w = cj * comb(j, i) * (-1) ** i
            for d in range(order + 1 - j):
                v = ser[d]
                if v:
                    out[j + d] += w * v
    return tuple(out)


def g_lpq(l, p, q, order=DEFAULT_ORDER):
    """Kaula's eccentricity function G_lpq(e) = X^{-(l+1), l-2p}_{l-2p+q}."""
    return hansen(-(l + 1), l - 2 * p, l - 2 * p + q, order)


@lru_cache(maxsize=None)
def g2_lpq(l, p, q, order=DEFAULT_ORDER):
    """G_lpq(e)^2 through e^order (tuple of Fractions)."""
    g = g_lpq(l, p, q, order)
    return tuple(_mul(g, g, order))


def clear_caches():
    for f in (_B, _AB, hansen, g2_lpq):
        f.cache_clear()


# ---- closed form for k = 0 (independent derivation: true-anomaly integral) -----------------------

def g_closed_k0(l, p):
    """For q = 2p - l (k = 0):  G = (1-e^2)^-(l-1/2) * sum_j poly[j] e^j.

    X^{-(l+1),m}_0 = (1/2pi) int (r/a)^-(l+1) e^{imf} dM,  dM = (r/a)^2 (1-e^2)^(-1/2) df,
    a/r = (1 + e cos f)/(1-e^2)  =>  X = (1-e^2)^-(l-1/2) (1/2pi) int (1 + e cos f)^(l-1) e^{imf} df
    and the f-integral of cos^j f e^{imf} is C(j, (j-|m|)/2) / 2^j for j >= |m|, j = |m| mod 2.
    Returns (poly, l) with poly a list of Fractions (degree l-1); G^2 = poly^2 / (1-e^2)^(2l-1).
    """
    m = abs(l - 2 * p)
    poly = [ZERO] * l
    for j in range(l):
        if j >= m and (j - m) % 2 == 0:
            poly[j] = Fraction(comb(l - 1, j) * comb(j, (j - m) // 2), 2 ** j)
    return poly, l


def g2_closed_k0_value(l, p, e):
    """Exact rational value of G_{l,p,2p-l}(e)^2 at a rational/float e (|e| < 1)."""
    e = Fraction(e)
    poly, _ = g_closed_k0(l, p)
    num = sum((c * e ** j for j, c in enumerate(poly)), ZERO)
    return num * num / (1 - e * e) ** (2 * l - 1)


def g_closed_k0_series(l, p, order):
    """Series of the closed form, G (not squared), for comparison with `hansen`."""
    poly, _ = g_closed_k0(l, p)
    # (1-e^2)^-(l-1/2)
    fac = [ZERO] * (order + 1)
    for j in range(order // 2 + 1):
        fac[2 * j] = _gbinom(-(l - Fraction(1, 2)), j) * (-1) ** j
    return _mul(poly, fac, order)


# ---- numerical evaluation of the defining integral (mean anomaly) --------------------------------

def hansen_quad(n, m, k, e, dps=30):
    """mpmath quadrature of (1/2pi) int (r/a)^n cos(m f - k M) dM with Kepler's equation solved."""
    import mpmath as mp
    with mp.workdps(dps):
        e = mp.mpf(e)

        def integrand(M):
            E = M
            for _ in range(200):
                dE = (E - e * mp.sin(E) - M) / (1 - e * mp.cos(E))
                E -= dE
                if abs(dE) < mp.mpf(10) ** (-(dps - 3)):
                    break
            f = 2 * mp.atan2(mp.sqrt(1 + e) * mp.sin(E / 2), mp.sqrt(1 - e) * mp.cos(E / 2))
            r = 1 - e * mp.cos(E)
            return r ** n * mp.cos(m * f - k * M)
        # integrand is even about M = pi: integrate half the period, in panels (oscillatory for large k)
        npanel = max(4, 2 * abs(k) + 2 * abs(m) + 4)
        pts = [mp.pi * i / npanel for i in range(npanel + 1)]
        return +(mp.quad(integrand, pts) / mp.pi)


def series_value(coeffs, e):
    e = Fraction(e)
    acc = ZERO
    for c in reversed(coeffs):
        acc = acc * e + c
    return acc


# ---- self test -----------------------------------------------------------------------------------

def selftest(quad=True):
    F = Fraction
    T = 10

    def head(l, p, q, n):
        return list(g_lpq(l, p, q, T))[:n]

    # Kaula (1966) table / Murray & Dermott table 6.? (l = 2)
    assert head(2, 0, 0, 7) == [1, 0, F(-5, 2), 0, F(13, 16), 0, F(-35, 288)], head(2, 0, 0, 7)
    assert head(2, 0, -1, 6) == [0, F(-1, 2), 0, F(1, 16), 0, F(-5, 384)], head(2, 0, -1, 6)
    assert head(2, 0, 1, 6) == [0, F(7, 2), 0, F(-123, 16), 0, F(489, 128)], head(2, 0, 1, 6)
    assert head(2, 0, 2, 7) == [0, 0, F(17, 2), 0, F(-115, 6), 0, F(601, 48)], head(2, 0, 2, 7)
    assert head(2, 0, -2, 9) == [0] * 9                         # G_20-2 vanishes identically
    assert head(2, 1, 1, 6) == [0, F(3, 2), 0, F(27, 16), 0, F(261, 128)], head(2, 1, 1, 6)
    assert head(2, 1, -1, 6) == head(2, 1, 1, 6)
    assert head(2, 1, 2, 7) == [0, 0, F(9, 4), 0, F(7, 4), 0, F(141, 64)], head(2, 1, 2, 7)
    assert head(2, 2, 0, 7) == head(2, 0, 0, 7)                 # G_l,p,q = G_l,l-p,-q
    # X^{-3,2}_2 named in DESIGN 1.3
    assert list(hansen(-3, 2, 2, 6))[:5] == [1, 0, F(-5, 2), 0, F(13, 16)]
    # G_210 = (1-e^2)^(-3/2): coefficients C(-3/2, j)(-1)^j
    g210 = g_lpq(2, 1, 0, 40)
    for j in range(21):
        assert g210[2 * j] == _gbinom(F(-3, 2), j) * (-1) ** j
        assert j == 20 or g210[2 * j + 1] == 0
    # G_l,p,q with q = 2p-l (k = 0): closed forms to order 40, all l <= 7 (independent derivation)
    for l in range(2, 8):
        for p in range(l + 1):
            a = list(g_lpq(l, p, 2 * p - l, 40))
            b = g_closed_k0_series(l, p, 40)
            assert a == b, ('closed form mismatch', l, p)
    # lowest order behaviour: G_lpq = O(e^|q|)
    for (l, p, q) in ((3, 1, 4), (5, 2, -6), (7, 0, 9), (7, 7, -9)):
        g = g_lpq(l, p, q, 12)
        assert all(c == 0 for c in g[:abs(q)]) and g[abs(q)] != 0, (l, p, q)
    # symmetry G_lpq = G_l,(l-p),(-q)
    assert g_lpq(5, 1, 3, 12) == g_lpq(5, 4, -3, 12)
    # Kaula table, l = 3: G_300 = 1 - 6e^2 + 423/64 e^4, G_311 = 3e + 11/4 e^3 ... , G_310 = 1 + 2e^2 + 239/64 e^4
    assert list(g_lpq(3, 0, 0, 6))[:5] == [1, 0, -6, 0, F(423, 64)]
    assert list(g_lpq(3, 1, 0, 6))[:5] == [1, 0, 2, 0, F(239, 64)]
    assert list(g_lpq(3, 1, 1, 6))[:4] == [0, 3, 0, F(11, 4)]
    if quad:
        import mpmath as mp
        for (l, p, q, e) in ((2, 0, 1, '0.1'), (4, 1, -3, '0.05'), (7, 2, 5, '0.04'), (5, 5, 2, '0.08')):
            ser = g_lpq(l, p, q, 40)
            val = series_value(ser, F(e))
            ref = hansen_quad(-(l + 1), l - 2 * p, l - 2 * p + q, e)
            tail = float(F(e)) ** 41 * 1e12
            with mp.workdps(40):
                diff = abs(mp.mpf(val.numerator) / val.denominator - ref)
            assert diff < 1e-24 + tail, (l, p, q, e, float(val), ref, diff)
    return True


if __name__ == '__main__':
    import time
    t0 = time.time()
    selftest()
    print('hansen selftest ok in %.2fs' % (time.time() - t0))
