"""Kaula (1966) inclination functions F_lmp(I), independent of the repository's hand-typed tables.

Definition used (Kaula 1966, "Theory of Satellite Geodesy", eq. 3.62; k = floor((l-m)/2)):

    F_lmp(I) = sum_{t=0}^{min(p,k)}  (2l-2t)! / ( t! (l-t)! (l-m-2t)! 2^(2l-2t) )  sin^(l-m-2t) I
               * sum_{s=0}^{m} C(m,s) cos^s I
               * sum_{c} C(l-m-2t+s, c) C(m-s, p-t-c) (-1)^(c-k)

The triple sum is expanded ONCE per (l,m,p) into exact rational coefficients of the monomials
sin^a(I) cos^b(I) (`monomials`), so that

  * special values are exact rationals (`exact_at_zero`: F_lmp(0) as a Fraction; used for the
    "omitted entries are exactly zero at I = 0" clause and the obliquity-off tables), and
  * evaluation at a generated angle is a short mpmath dot product at 40 digits (`F`, `F2`).

`selftest()` validates the transcription of eq. 3.62 against three independent sources:
  (a) textbook closed forms for l = 2 (Kaula 1966 table 1): F_220(0) = 3, F_201 = 3/4 sin^2 I - 1/2, ...
  (b) F_{l,l,0}(0) = (2l-1)!!  and  F_{l,0,l/2}(I) = P_l(0) P_l(cos I)   (addition theorem)
  (c) the defining property of F_lmp itself (Kaula eq. 3.58-3.61): for a point at argument of latitude u
      on an orbit of inclination I (node at the origin of longitude),
          P_lm(sin phi) cos(m lambda) = sum_p F_lmp(I) { cos | sin }((l-2p) u)     (l-m even | odd)
      with sin phi = sin I sin u, lambda = atan2(cos I sin u, cos u), P_lm without Condon-Shortley phase.
      This is checked for every (l, m), l = 2..7, at two (I, u) pairs in 40-digit arithmetic, so a slip
      in any factorial/binomial/sign of the transcription is caught before the oracle is used.
"""
from fractions import Fraction
from functools import lru_cache
from math import comb, factorial

import mpmath

DPS = 40


def _binom(n, k):
    if k < 0 or n < 0 or k > n:
        return 0
    return comb(n, k)


@lru_cache(maxsize=None)
def monomials(l, m, p):
    """{(a, b): Fraction} with F_lmp(I) = sum coeff * sin(I)**a * cos(I)**b (exact)."""
    if not (0 <= m <= l and 0 <= p <= l):
        raise ValueError('need 0 <= m, p <= l')
    k = (l - m) // 2
    out = {}
    for t in range(0, min(p, k) + 1):
        a = l - m - 2 * t
        if a < 0:
            continue
        pref = Fraction(factorial(2 * l - 2 * t),
                        factorial(t) * factorial(l - t) * factorial(l - m - 2 * t) * 2 ** (2 * l - 2 * t))
        for s in range(0, m + 1):
            inner = 0
            top = l - m - 2 * t + s
            for c in range(0, top + 1):
                b2 = _binom(m - s, p - t - c)
                if b2 == 0:
                    continue
                inner += _binom(top, c) * b2 * (-1 if (c - k) % 2 else 1)
            if inner == 0:
                continue
            key = (a, s)
            out[key] = out.get(key, Fraction(0)) + pref * comb(m, s) * inner
    return {key: v for key, v in out.items() if v != 0}


def exact_at_zero(l, m, p):
    """F_lmp(0) as an exact Fraction (sin 0 = 0, cos 0 = 1)."""
    return sum((v for (a, b), v in monomials(l, m, p).items() if a == 0), Fraction(0))


def exact_at_pi(l, m, p):
    """F_lmp(pi) as an exact Fraction (sin pi = 0, cos pi = -1)."""
    return sum((v * (-1) ** b for (a, b), v in monomials(l, m, p).items() if a == 0), Fraction(0))


@lru_cache(maxsize=None)
def _mp_monomials(l, m, p):
    with mpmath.workdps(DPS):
        return tuple((a, b, mpmath.mpf(v.numerator) / mpmath.mpf(v.denominator))
                     for (a, b), v in sorted(monomials(l, m, p).items()))


def _powers(x, n):
    out = [mpmath.mpf(1)]
    for _ in range(n):
        out.append(out[-1] * x)
    return out


def F_table(l, inclination):
    """{(m, p): mpf F_lmp(I)} for all 0 <= m, p <= l at one angle (mpmath, DPS digits)."""
    with mpmath.workdps(DPS):
        x = mpmath.mpf(inclination)
        sp = _powers(mpmath.sin(x), l)
        cp = _powers(mpmath.cos(x), l)
        out = {}
        for m in range(l + 1):
            for p in range(l + 1):
                acc = mpmath.mpf(0)
                for a, b, v in _mp_monomials(l, m, p):
                    acc += v * sp[a] * cp[b]
                out[(m, p)] = acc
        return out


def F(l, m, p, inclination):
    with mpmath.workdps(DPS):
        x = mpmath.mpf(inclination)
        s, c = mpmath.sin(x), mpmath.cos(x)
        acc = mpmath.mpf(0)
        for a, b, v in _mp_monomials(l, m, p):
            acc += v * s ** a * c ** b
        return acc


def F2_table(l, inclination):
    """{(m, p): float F_lmp(I)^2} (squared in mpmath, rounded once)."""
    with mpmath.workdps(DPS):
        return {key: float(v * v) for key, v in F_table(l, inclination).items()}


@lru_cache(maxsize=None)
def max_F2(l, m, p):
    """max over I in [0, pi] of F_lmp(I)^2, on a 721-point grid (the functions are trigonometric
    polynomials of degree <= 2l <= 14, so the grid maximum is within 1e-3 relative of the true one);
    used only as the magnitude that scales the comparison tolerance."""
    import math
    mono = [(a, b, float(v)) for (a, b), v in monomials(l, m, p).items()]
    best = 0.0
    for i in range(721):
        x = math.pi * i / 720
        s, c = math.sin(x), math.cos(x)
        f = sum(v * s ** a * c ** b for a, b, v in mono)
        best = max(best, f * f)
    return best


def universal_coeff(l, m):
    """(2 - delta_0m) (l-m)!/(l+m)! as an exact Fraction."""
    return Fraction((1 if m == 0 else 2) * factorial(l - m), factorial(l + m))


# ---------------------------------------------------------------------------------------------------

def _double_factorial(n):
    out = 1
    while n > 1:
        out *= n
        n -= 2
    return out


def selftest():
    mp = mpmath
    with mp.workdps(DPS):
        tol = mp.mpf(10) ** (-30)
        # (a) textbook l = 2 closed forms
        assert exact_at_zero(2, 2, 0) == 3
        assert exact_at_zero(2, 0, 1) == Fraction(-1, 2)
        for x in (mp.mpf('0.3'), mp.mpf('1.1'), mp.mpf('2.7')):
            s, c = mp.sin(x), mp.cos(x)
            ref = {(0, 0): -mp.mpf(3) / 8 * s ** 2, (0, 1): mp.mpf(3) / 4 * s ** 2 - mp.mpf(1) / 2,
                   (0, 2): -mp.mpf(3) / 8 * s ** 2,
                   (1, 0): mp.mpf(3) / 4 * s * (1 + c), (1, 1): -mp.mpf(3) / 2 * s * c,
                   (1, 2): -mp.mpf(3) / 4 * s * (1 - c),
                   (2, 0): mp.mpf(3) / 4 * (1 + c) ** 2, (2, 1): mp.mpf(3) / 2 * s ** 2,
                   (2, 2): mp.mpf(3) / 4 * (1 - c) ** 2}
            tab = F_table(2, x)
            for key, v in ref.items():
                assert abs(tab[key] - v) < tol, ('F_2%d%d' % key, x, tab[key], v)
                assert abs(F(2, key[0], key[1], x) - v) < tol
        # (b) F_ll0(0) = (2l-1)!!, F_{l,0,l/2}(I) = P_l(0) P_l(cos I)
        for l in range(2, 8):
            assert exact_at_zero(l, l, 0) == _double_factorial(2 * l - 1), l
            if l % 2 == 0:
                for x in (mp.mpf('0.4'), mp.mpf('2.2')):
                    ref = mp.legendre(l, 0) * mp.legendre(l, mp.cos(x))
                    assert abs(F(l, 0, l // 2, x) - ref) < tol, (l, x)
        # F_lmp(0) vanishes unless l - m - 2p = 0 (exactly)
        for l in range(2, 8):
            for m in range(l + 1):
                for p in range(l + 1):
                    z = exact_at_zero(l, m, p)
                    assert (z != 0) == (l - m - 2 * p == 0), (l, m, p, z)
        # (c) defining property: rotation of P_lm(sin phi) cos(m lambda) into the orbital plane
        for inc, u in ((mp.mpf('0.7'), mp.mpf('1.9')), (mp.mpf('2.3'), mp.mpf('-0.6'))):
            sinphi = mp.sin(inc) * mp.sin(u)
            lam = mp.atan2(mp.cos(inc) * mp.sin(u), mp.cos(u))
            for l in range(2, 8):
                tab = F_table(l, inc)
                for m in range(l + 1):
                    # geodesy convention: no Condon-Shortley phase
                    plm = (-1) ** m * mp.legenp(l, m, sinphi, type=2)
                    lhs = plm * mp.cos(m * lam)
                    trig = mp.cos if (l - m) % 2 == 0 else mp.sin
                    rhs = sum(tab[(m, p)] * trig((l - 2 * p) * u) for p in range(l + 1))
                    assert abs(lhs - rhs) < mp.mpf(10) ** (-25) * (1 + abs(lhs)), (l, m, lhs, rhs)
    # universal coefficients
    assert universal_coeff(2, 0) == 1 and universal_coeff(2, 1) == Fraction(1, 3) and universal_coeff(2, 2) == Fraction(1, 12)
    assert universal_coeff(7, 7) == Fraction(2, factorial(14))
    return True


if __name__ == '__main__':
    selftest()
    print('kaula oracle self-test ok')
