"""Published constitutive laws of the seven rheologies, evaluated in mpmath (50 significant digits) - oracle of C07.

Sign convention as in TidalPy: complex compliance J with Im J <= 0, complex shear modulus M = 1/J with Im M >= 0.

    Elastic          M = mu
    Newton           M = i w eta
    Maxwell          J = 1/mu - i/(eta w)                                   (Henning et al. 2009)
    Voigt-Kelvin     M = mu_v + i w eta_v        (J_v = 1/M)                (Henning et al. 2009)
    Burgers          J = J_Maxwell + J_v                                    (Henning et al. 2009)
    Andrade          J = J_Maxwell + (1/mu) Gamma(1+alpha) (i w tau zeta)^-alpha,  tau = eta/mu
                                                                            (Efroimsky 2012; Renaud & Henning 2018)
    Sundberg-Cooper  J = J_Andrade + J_v                                    (Sundberg & Cooper 2010; RH18)
    mu_v = voigt_modulus_scale * mu,  eta_v = voigt_viscosity_scale * eta.

Inputs are doubles and are converted exactly; a private mpmath context is used so that other oracles' precision
settings are not disturbed.
"""
import math

import mpmath

ctx = mpmath.mp.clone()
ctx.dps = 50
mpf, mpc = ctx.mpf, ctx.mpc

MODELS = ['Elastic', 'Newton', 'Maxwell', 'Voigt', 'Burgers', 'Andrade', 'SundbergCooper']
MAXWELL_FAMILY = ['Maxwell', 'Burgers', 'Andrade', 'SundbergCooper']
NARGS = {'Elastic': 0, 'Newton': 0, 'Maxwell': 0, 'Voigt': 2, 'Burgers': 2, 'Andrade': 2, 'SundbergCooper': 4}
DEFAULT_ARGS = {'Elastic': (), 'Newton': (), 'Maxwell': (), 'Voigt': (5.0, 0.02), 'Burgers': (5.0, 0.02),
                'Andrade': (0.3, 1.0), 'SundbergCooper': (5.0, 0.02, 0.3, 1.0)}
ALIASES = {'Elastic': ['elastic', 'off'], 'Newton': ['newton', 'viscous'], 'Maxwell': ['maxwell'],
           'Voigt': ['voigt', 'voigtkelvin'], 'Burgers': ['burgers'], 'Andrade': ['andrade'],
           'SundbergCooper': ['sundberg', 'sundbergcooper']}

MIN_FREQUENCY = 1.0e-17
MAX_FREQUENCY = 1.0e8
MIN_MODULUS = 1.0e-3


def _M(x):
    return mpf(float(x))


def split_args(model, args):
    """-> (voigt_modulus_scale, voigt_viscosity_scale, alpha, zeta) with None where unused"""
    a = [float(v) for v in args]
    if model in ('Voigt', 'Burgers'):
        return a[0], a[1], None, None
    if model == 'Andrade':
        return None, None, a[0], a[1]
    if model == 'SundbergCooper':
        return a[0], a[1], a[2], a[3]
    return None, None, None, None


def compliance_terms(model, w, mu, eta, args):
    """dict of the additive compliance terms (mpc) of a Maxwell-family model"""
    w, mu, eta = _M(w), _M(mu), _M(eta)
    sm, sv, alpha, zeta = split_args(model, args)
    terms = {'elastic': mpc(1 / mu, 0), 'viscous': mpc(0, -1 / (eta * w))}
    if model in ('Andrade', 'SundbergCooper'):
        a, z = _M(alpha), _M(zeta)
        tau = eta / mu
        terms['andrade'] = (1 / mu) * ctx.gamma(1 + a) * ctx.power(mpc(0, w * tau * z), -a)
    if model in ('Burgers', 'SundbergCooper'):
        terms['voigt'] = 1 / mpc(_M(sm) * mu, w * _M(sv) * eta)
    return terms


def modulus(model, w, mu, eta, args=()):
    """exact complex shear modulus of the law (w > 0 finite, mu > 0, eta > 0)"""
    if model == 'Elastic':
        return mpc(_M(mu), 0)
    if model == 'Newton':
        return mpc(0, _M(w) * _M(eta))
    if model == 'Voigt':
        sm, sv, _, _ = split_args(model, args)
        return mpc(_M(sm) * _M(mu), _M(w) * _M(sv) * _M(eta))
    t = compliance_terms(model, w, mu, eta, args)
    j = mpc(0, 0)
    for v in t.values():
        j += v
    return 1 / j


def highfreq_bound(model, w, mu, eta, args=()):
    """e = sum of |mu * (J - 1/mu)| over the non-elastic terms; |M - mu|/mu <= e/(1-e)."""
    t = compliance_terms(model, w, mu, eta, args)
    e = mpf(0)
    for k, v in t.items():
        if k != 'elastic':
            e += abs(v) * _M(mu)
    return e


def documented_limit(model, w, mu, eta, args=()):
    """The documented limit constant, for arguments *well inside* a documented extreme-value branch, else None.

    Documented: TidalPy/utilities/constants_x.pyx ("any forcing period larger than a Gyr leads to a zero in frequency
    ... roughly 1.0e-17 rad/s", "max frequency is for a forcing period of 1 micro-second", 1e8 rad/s) and
    Tests/Test_Functions/test_rheology.py, which pins the values at w = 0 and w = inf:
        zero frequency:  Elastic mu, Newton 0, Maxwell/Burgers/Andrade/Sundberg-Cooper 0, Voigt (voigt_modulus_scale mu, 0)
        infinite:        Elastic mu, Newton/Voigt (0, inf), Maxwell family (mu, 0)
    Applied only a factor >= 10 inside the branch (|w| <= 1e-18 or |w| >= 1e9) and for mu, eta in the physical range, so
    that moving a guard threshold by less than a decade, or reordering guards, is not reported.  The modulus guard
    (mu < 1e-3 Pa) lies outside the physical range of the statement and has no documented value: not compared."""
    wa = abs(float(w))
    if not (1e3 <= mu <= 1e13 and 1.0 <= eta <= 1e30) or math.isnan(wa):
        return None
    sm, sv, _, _ = split_args(model, args)
    if wa <= 0.1 * MIN_FREQUENCY:
        if model == 'Elastic':
            return complex(mu, 0.0)
        if model == 'Voigt':
            return complex(sm * mu, 0.0)
        return complex(0.0, 0.0)
    if wa >= 10.0 * MAX_FREQUENCY:
        if model in ('Newton', 'Voigt'):
            return complex(0.0, math.inf)
        return complex(mu, 0.0)
    return None


def selftest():
    # Maxwell at w tau = 1: M = mu (1 + i)/2
    m = modulus('Maxwell', 1e-6, 5e10, 5e16)
    assert abs(m - mpc(2.5e10, 2.5e10)) < mpf(10) ** -15 * 5e10   # 1e-6 is not a binary fraction
    # (i x)^-a = x^-a (cos(pi a/2) - i sin(pi a/2))
    v = ctx.power(mpc(0, 2), -mpf('0.3'))
    w = mpf(2) ** -mpf('0.3') * mpc(ctx.cos(ctx.pi * mpf('0.3') / 2), -ctx.sin(ctx.pi * mpf('0.3') / 2))
    assert abs(v - w) < mpf(10) ** -45
    # values pinned by the repository's own test-suite (defaults, w=1e-6, mu=5e10, eta=1e18) to 1e-9
    pinned = {'Elastic': (5.0e10, 0.0), 'Newton': (0.0, 1.0e12), 'Maxwell': (4.9875311721e+10, 2.4937655860e+09),
              'Voigt': (2.5e11, 2.0e10), 'Burgers': (4.1585201404e+10, 2.2860830215e+09),
              'Andrade': (3.6746190752e+10, 5.9842157549e+09), 'SundbergCooper': (3.2061580148e+10, 4.8749827647e+09)}
    for name, (re, im) in pinned.items():
        m = modulus(name, 1e-6, 5e10, 1e18, DEFAULT_ARGS[name])
        assert abs(m - mpc(re, im)) <= 2e-10 * abs(mpc(re, im)), (name, m)
    # limits of the law agree with the documented extreme values
    for name in MAXWELL_FAMILY:
        lo = modulus(name, 1e-30, 5e10, 1e18, DEFAULT_ARGS[name])
        hi = modulus(name, 1e30, 5e10, 1e18, DEFAULT_ARGS[name])
        assert abs(lo) < 1e-3 * 5e10 and abs(hi - 5e10) < 1e-3 * 5e10, (name, lo, hi)
        assert highfreq_bound(name, 1e30, 5e10, 1e18, DEFAULT_ARGS[name]) < 1e-3
