"""Exact truncated power series in one variable over the rationals.

`Series` objects stand in for the float/ndarray `eccentricity` argument of the un-jitted (`.py_func`)
TidalPy table functions: one call with `Series.variable(order)` returns, for every table cell, all
Taylor coefficients of that cell at once, so a polynomial identity "for all e" is decided by
coefficient comparison rather than by sampling values.

* coefficients are `fractions.Fraction`; ints are taken as they are, **floats are converted exactly**
  (`Fraction(0.1)` is the binary value of the literal, not 1/10) - the comparison tolerance for
  decimal table literals lives in the caller, not here;
* supported: `+ - *` with Series / int / float / Fraction on either side, unary `+ -`,
  `/` by a number or by a Series whose constant term is non-zero (series inversion), number / Series,
  `**` with an int exponent (negative: needs non-zero constant term);
* everything is truncated at `order` (terms of degree > order are dropped); mixing two Series of
  different order truncates to the smaller one;
* anything else (comparison, float(), numpy ufuncs, fractional powers) raises TypeError, so a table
  written with an unsupported construct is noticed instead of silently mis-evaluated.

Sparse storage (dict degree -> non-zero Fraction): the tables are sums of `literal * e**k` monomials.
"""
from fractions import Fraction
from numbers import Rational

__all__ = ['Series']


def _num(x):
    """Exact rational value of a python / numpy scalar (None if `x` is not a real scalar)."""
    if isinstance(x, Fraction):
        return x
    if isinstance(x, bool):
        return None
    if isinstance(x, (int, Rational)):
        return Fraction(x)
    if isinstance(x, float):
        if x != x or x in (float('inf'), float('-inf')):
            raise ValueError('non-finite literal %r in a series expression' % (x,))
        return Fraction(x)
    # numpy scalars without importing numpy
    item = getattr(x, 'item', None)
    if item is not None and getattr(x, 'shape', None) == ():
        return _num(item())
    return None


class Series:
    __slots__ = ('c', 'order')
    __array_ufunc__ = None      # numpy must not broadcast over us; it returns NotImplemented instead
    __hash__ = None

    def __init__(self, coeffs, order):
        """coeffs: dict {degree: value} or sequence (index = degree)."""
        self.order = int(order)
        if self.order < 0:
            raise ValueError('order must be >= 0')
        if isinstance(coeffs, dict):
            items = coeffs.items()
        else:
            items = enumerate(coeffs)
        c = {}
        for k, v in items:
            if k < 0:
                raise ValueError('negative degree')
            if k <= self.order:
                v = _num(v)
                if v is None:
                    raise TypeError('coefficient is not a real scalar')
                if v != 0:
                    c[int(k)] = v
        self.c = c

    # ---- constructors -----------------------------------------------------------------------
    @classmethod
    def variable(cls, order):
        return cls({1: 1}, order)

    @classmethod
    def constant(cls, value, order):
        return cls({0: value}, order)

    # ---- inspection -------------------------------------------------------------------------
    def __getitem__(self, k):
        return self.c.get(k, Fraction(0))

    def coeffs(self, upto=None):
        n = self.order if upto is None else upto
        return [self.c.get(k, Fraction(0)) for k in range(n + 1)]

    def degree(self):
        return max(self.c) if self.c else -1

    def valuation(self):
        return min(self.c) if self.c else None

    def is_zero(self):
        return not self.c

    def truncate(self, order):
        return Series({k: v for k, v in self.c.items() if k <= order}, min(order, self.order))

    def __call__(self, x):
        """Exact value of the (truncated) polynomial at a rational / float point (Horner)."""
        x = _num(x)
        acc = Fraction(0)
        for k in range(self.degree(), -1, -1):
            acc = acc * x + self.c.get(k, 0)
        return acc

    def abs_sum(self, x):
        """sum |c_k| |x|^k - the natural rounding-error scale of evaluating the polynomial in floats."""
        x = abs(_num(x))
        return sum((abs(v) * x ** k for k, v in self.c.items()), Fraction(0))

    def __repr__(self):
        terms = ['%s*e^%d' % (v, k) for k, v in sorted(self.c.items())]
        return 'Series(%s + O(e^%d))' % (' + '.join(terms) or '0', self.order + 1)

    def __eq__(self, other):
        if isinstance(other, Series):
            return self.order == other.order and self.c == other.c
        return NotImplemented

    def __bool__(self):
        raise TypeError('truth value of a power series is undefined (comparison inside table code?)')

    def __float__(self):
        raise TypeError('a power series cannot be converted to float')

    # ---- arithmetic -------------------------------------------------------------------------
    def _new(self, c, order):
        s = object.__new__(Series)
        s.c = c
        s.order = order
        return s

    def __pos__(self):
        return self

    def __neg__(self):
        return self._new({k: -v for k, v in self.c.items()}, self.order)

    def __add__(self, other):
        if isinstance(other, Series):
            order = min(self.order, other.order)
            c = {k: v for k, v in self.c.items() if k <= order}
            for k, v in other.c.items():
                if k <= order:
                    w = c.get(k, 0) + v
                    if w:
                        c[k] = w
                    else:
                        c.pop(k, None)
            return self._new(c, order)
        v = _num(other)
        if v is None:
            return NotImplemented
        c = dict(self.c)
        w = c.get(0, 0) + v
        if w:
            c[0] = w
        else:
            c.pop(0, None)
        return self._new(c, self.order)

    __radd__ = __add__

    def __sub__(self, other):
        if isinstance(other, Series):
            return self + (-other)
        v = _num(other)
        if v is None:
            return NotImplemented
        return self + (-v)

    def __rsub__(self, other):
        v = _num(other)
        if v is None:
            return NotImplemented
        return (-self) + v

    def __mul__(self, other):
        if isinstance(other, Series):
            order = min(self.order, other.order)
            a, b = self.c, other.c
            if len(a) > len(b):
                a, b = b, a
            c = {}
            for i, u in a.items():
                for j, v in b.items():
                    k = i + j
                    if k <= order:
                        c[k] = c.get(k, 0) + u * v
            return self._new({k: v for k, v in c.items() if v}, order)
        v = _num(other)
        if v is None:
            return NotImplemented
        if v == 0:
            return self._new({}, self.order)
        return self._new({k: u * v for k, u in self.c.items()}, self.order)

    __rmul__ = __mul__

    def inverse(self):
        a0 = self.c.get(0)
        if not a0:
            raise ZeroDivisionError('series with zero constant term has no power-series inverse')
        n = self.order
        inv = [Fraction(0)] * (n + 1)
        inv[0] = 1 / a0
        items = [(k, v) for k, v in self.c.items() if k > 0]
        for k in range(1, n + 1):
            s = Fraction(0)
            for j, v in items:
                if j <= k:
                    s += v * inv[k - j]
            inv[k] = -s / a0
        return Series(inv, n)

    def __truediv__(self, other):
        if isinstance(other, Series):
            return self * other.inverse()
        v = _num(other)
        if v is None:
            return NotImplemented
        if v == 0:
            raise ZeroDivisionError('series divided by zero')
        return self._new({k: u / v for k, u in self.c.items()}, self.order)

    def __rtruediv__(self, other):
        v = _num(other)
        if v is None:
            return NotImplemented
        return self.inverse() * v

    def __pow__(self, n, mod=None):
        if mod is not None or isinstance(n, bool) or not isinstance(n, int):
            nn = _num(n) if not isinstance(n, Series) else None
            if nn is not None and nn.denominator == 1:
                n = int(nn)
            else:
                raise TypeError('only integer powers of a power series are supported (got %r)' % (n,))
        if n < 0:
            return self.inverse() ** (-n)
        result = Series({0: 1}, self.order)
        base = self
        while n:
            if n & 1:
                result = result * base
            n >>= 1
            if n:
                base = base * base
        return result

    def __rpow__(self, other):
        raise TypeError('number ** series is not supported')

    def _unsupported(self, *a, **k):
        raise TypeError('comparison of power series is not supported')

    __lt__ = __le__ = __gt__ = __ge__ = _unsupported

    def sqrt(self):
        """Square root for a series with constant term 1 (used by oracles, not by the tables)."""
        if self.c.get(0) != 1:
            raise ValueError('sqrt needs constant term 1')
        n = self.order
        r = [Fraction(0)] * (n + 1)
        r[0] = Fraction(1)
        for k in range(1, n + 1):
            s = self.c.get(k, Fraction(0))
            for j in range(1, k):
                s -= r[j] * r[k - j]
            r[k] = s / 2
        return Series(r, n)
