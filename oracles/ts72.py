"""Takeuchi & Saito (1972, eq. 82) / Saito (1974) radial ODE matrices for a *uniform* sphere, written from the
literature (independent of the repository's odes.pyx).  Conventions: y1 radial displacement, y2 radial stress,
y3 tangential displacement, y4 tangential stress, y5 potential, y6 = dy5/dr - 4 pi G rho y1 + (l+1) y5 / r;
time dependence exp(i w t) (inertia term -w^2 rho).  g(r) = 4/3 pi G rho r.

  solid_matrix(r, l, rho, mu, K, w, G, incompressible)          6x6 for (y1..y6)
  liquid_dynamic_matrix(r, l, rho, K, w, G, incompressible)      4x4 for (y1, y2, y5, y6)   [y4 = 0, y3 eliminated]
  liquid_static_matrix(r, l, rho, G)                              2x2 for (y5, y7)           [Saito 1974 eq. 17-18]
"""
import math

import numpy as np


def gravity(r, rho, G):
    return 4.0 / 3.0 * math.pi * G * rho * r


def solid_matrix(r, l, rho, mu, K, w, G, incompressible=False):
    g = gravity(r, rho, G)
    ll1 = l * (l + 1.0)
    A = np.zeros((6, 6), dtype=complex)
    if incompressible:
        lam_over_beta = 1.0
        inv_beta = 0.0
        gamma = 3.0 * mu
        four_mu_over_beta = 0.0
    else:
        lam = K - 2.0 * mu / 3.0
        beta = lam + 2.0 * mu
        lam_over_beta = lam / beta
        inv_beta = 1.0 / beta
        gamma = mu * (3.0 * lam + 2.0 * mu) / beta
        four_mu_over_beta = 4.0 * mu / beta
    dyn = -w * w * rho
    A[0, 0] = -2.0 * lam_over_beta / r
    A[0, 1] = inv_beta
    A[0, 2] = ll1 * lam_over_beta / r
    A[1, 0] = dyn - 4.0 * rho * g / r + 4.0 * gamma / r ** 2
    A[1, 1] = -four_mu_over_beta / r
    A[1, 2] = ll1 * (rho * g / r - 2.0 * gamma / r ** 2)
    A[1, 3] = ll1 / r
    A[1, 4] = rho * (l + 1.0) / r        # from -rho*(y6 - (l+1) y5 / r): y6 here is Saito's / Kamata's, not TS72's
    A[1, 5] = -rho
    A[2, 0] = -1.0 / r
    A[2, 2] = 1.0 / r
    A[2, 3] = 1.0 / mu
    A[3, 0] = rho * g / r - 2.0 * gamma / r ** 2
    A[3, 1] = -lam_over_beta / r
    A[3, 2] = dyn + (ll1 * (gamma + mu) - 2.0 * mu) / r ** 2
    A[3, 3] = -3.0 / r
    A[3, 4] = -rho / r
    A[4, 0] = 4.0 * math.pi * G * rho
    A[4, 4] = -(l + 1.0) / r
    A[4, 5] = 1.0
    A[5, 0] = 4.0 * math.pi * G * rho * (l + 1.0) / r
    A[5, 2] = -4.0 * math.pi * G * rho * ll1 / r
    A[5, 5] = (l - 1.0) / r
    return A


def liquid_dynamic_matrix(r, l, rho, K, w, G, incompressible=False):
    """mu = 0: y4 = 0 and y3 = (g y1 - y2/rho - y5) / (w^2 r); substitute into the solid equations."""
    g = gravity(r, rho, G)
    ll1 = l * (l + 1.0)
    # y3 = c1 y1 + c2 y2 + c5 y5
    c1 = g / (w * w * r)
    c2 = -1.0 / (rho * w * w * r)
    c5 = -1.0 / (w * w * r)
    A = np.zeros((4, 4), dtype=complex)     # columns/rows: y1, y2, y5, y6
    inv_lam = 0.0 if incompressible else 1.0 / K
    # dy1 = -2/r y1 + y2/lambda + ll1/r y3
    A[0, 0] = -2.0 / r + ll1 / r * c1
    A[0, 1] = inv_lam + ll1 / r * c2
    A[0, 2] = ll1 / r * c5
    # dy2 = (-w^2 rho - 4 rho g / r) y1 + ll1 rho g / r y3 + rho (l+1)/r y5 - rho y6
    A[1, 0] = -w * w * rho - 4.0 * rho * g / r + ll1 * rho * g / r * c1
    A[1, 1] = ll1 * rho * g / r * c2
    A[1, 2] = ll1 * rho * g / r * c5 + rho * (l + 1.0) / r
    A[1, 3] = -rho
    # dy5 = 4 pi G rho y1 - (l+1)/r y5 + y6
    A[2, 0] = 4.0 * math.pi * G * rho
    A[2, 2] = -(l + 1.0) / r
    A[2, 3] = 1.0
    # dy6 = 4 pi G rho (l+1)/r y1 - 4 pi G rho ll1 / r y3 + (l-1)/r y6
    k = 4.0 * math.pi * G * rho
    A[3, 0] = k * (l + 1.0) / r - k * ll1 / r * c1
    A[3, 1] = -k * ll1 / r * c2
    A[3, 2] = -k * ll1 / r * c5
    A[3, 3] = (l - 1.0) / r
    return A


def liquid_static_matrix(r, l, rho, G):
    g = gravity(r, rho, G)
    q = 4.0 * math.pi * G * rho / g
    A = np.zeros((2, 2), dtype=complex)     # y5, y7
    A[0, 0] = q - (l + 1.0) / r
    A[0, 1] = 1.0
    A[1, 0] = 2.0 * (l - 1.0) / r * q
    A[1, 1] = (l - 1.0) / r - q
    return A


def selftest():
    """Independent sanity checks of the matrices (no repository code involved).

    1. Homogeneous *fluid, static* sphere: y5 = r^l is the regular solution of Saito's 2x2 system with
       y7 = dy5/dr + ((l+1)/r - 4 pi G rho/g) y5 = (2l + 1 - 3) r^(l-1) = 2(l-1) r^(l-1).
    2. Solid matrix, rigid-body-like check for the potential rows: with y1 = y3 = 0 (no displacement) the
       potential rows reduce to Laplace's equation: y5 = r^l, y6 = (2l+1) r^(l-1) solves rows 5, 6.
    3. trace identity: tr A = -(2+... ) is not used; instead the incompressible limit of the compressible matrix
       (K -> 1e6 |mu|) must approach the incompressible matrix.
    """
    G = 6.6743e-11
    for l in (2, 3, 5):
        rho = 4000.0
        for r in (1.0e5, 3.3e6):
            A = liquid_static_matrix(r, l, rho, G)
            y = np.array([r ** l, 2.0 * (l - 1.0) * r ** (l - 1)])
            dy = np.array([l * r ** (l - 1), 2.0 * (l - 1.0) * (l - 1) * r ** (l - 2)])
            assert np.allclose(A @ y, dy, rtol=1e-12), ('static liquid', l, r, A @ y, dy)
            S = solid_matrix(r, l, rho, 5e10 + 1e9j, 1e11, 1e-4, G)
            y6 = np.zeros(6, dtype=complex)
            y6[4] = r ** l
            y6[5] = (2 * l + 1.0) * r ** (l - 1)
            d = S @ y6
            assert abs(d[4] - l * r ** (l - 1)) <= 1e-12 * abs(d[4])
            assert abs(d[5] - (2 * l + 1.0) * (l - 1) * r ** (l - 2)) <= 1e-12 * abs(d[5])
            Sc = solid_matrix(r, l, rho, 5e10 + 1e9j, 5e10 * 1e9, 1e-4, G)
            Si = solid_matrix(r, l, rho, 5e10 + 1e9j, 0.0, 1e-4, G, incompressible=True)
            nz = Si != 0
            assert np.allclose(Sc[nz], Si[nz], rtol=1e-7, atol=0.0), (Sc, Si)
            assert abs(Sc[0, 1]) < 1e-8 / 5e10 and abs(Sc[1, 1]) * r < 1e-8
    return True
