"""Real surface harmonics of degree l with analytic first and second angular derivatives.

    U(theta, phi) = sum_{m=0..l} N_lm P_lm(cos theta) (a_m cos(m phi) + b_m sin(m phi))

with the (un-normalised, no Condon-Shortley phase) associated Legendre functions written as

    P_lm(theta) = sin(theta)^m Q_lm(cos theta),      Q_lm = d^m P_l / dx^m   (a polynomial),

and the balancing factor N_lm = sqrt((l-m)!/(l+m)!) (keeps every order O(1); it is only a scaling of the
free coefficients).  With x = cos(theta), s = sin(theta), dx/dtheta = -s, ds/dtheta = x:

    dP/dtheta    = m s^(m-1) x Q - s^(m+1) Q'
    d2P/dtheta2  = m(m-1) s^(m-2) x^2 Q - m s^m Q - (2m+1) s^m x Q' + s^(m+2) Q''

Every such U is an eigenfunction of the surface Laplacian:

    U_tt + cot(theta) U_t + U_pp / sin^2(theta) = -l(l+1) U.

`selftest()` checks (1) the polynomial table against the textbook closed forms for l = 2..4, (2) the
Laplace identity of every single (l, m, cos|sin) term for l = 2..8 on a lattice of angles, (3) the first and
second theta-derivatives and the phi-derivatives against 6th-order central differences.  The polynomials are
built with exact rational arithmetic (fractions), so the float coefficients are correctly rounded.
"""
import math
from fractions import Fraction

import numpy as np

_POLY = {}


def _legendre_poly(l):
    """Coefficients (ascending powers, Fractions) of the Legendre polynomial P_l by Bonnet's recursion."""
    p0 = [Fraction(1)]
    if l == 0:
        return p0
    p1 = [Fraction(0), Fraction(1)]
    for n in range(1, l):
        # (n+1) P_{n+1} = (2n+1) x P_n - n P_{n-1}
        xp = [Fraction(0)] + [Fraction(2 * n + 1) * c for c in p1]
        nxt = [(xp[i] - (Fraction(n) * p0[i] if i < len(p0) else 0)) / Fraction(n + 1) for i in range(len(xp))]
        p0, p1 = p1, nxt
    return p1


def _der(c):
    return [Fraction(i) * c[i] for i in range(1, len(c))] or [Fraction(0)]


def q_polys(l, m):
    """(Q, Q', Q'') of Q_lm = d^m P_l/dx^m as float coefficient lists (ascending powers)."""
    key = (l, m)
    if key not in _POLY:
        c = _legendre_poly(l)
        for _ in range(m):
            c = _der(c)
        c1 = _der(c)
        c2 = _der(c1)
        _POLY[key] = tuple([float(v) for v in cc] for cc in (c, c1, c2))
    return _POLY[key]


def _horner(c, x):
    r = np.zeros_like(x) + c[-1]
    for v in c[-2::-1]:
        r = r * x + v
    return r


def norm(l, m):
    return math.sqrt(math.factorial(l - m) / math.factorial(l + m))


def plm(l, m, theta):
    """(P, dP/dtheta, d2P/dtheta2) of the un-normalised P_lm at colatitude theta (array or float)."""
    theta = np.asarray(theta, dtype=np.float64)
    x = np.cos(theta)
    s = np.sin(theta)
    q, q1, q2 = (_horner(c, x) for c in q_polys(l, m))
    p = s ** m * q
    if m == 0:
        dp = -s * q1
        d2p = -x * q1 + s * s * q2
    else:
        dp = m * s ** (m - 1) * x * q - s ** (m + 1) * q1
        d2p = -m * s ** m * q - (2 * m + 1) * s ** m * x * q1 + s ** (m + 2) * q2
        if m >= 2:
            d2p = d2p + m * (m - 1) * s ** (m - 2) * x * x * q
    return p, dp, d2p


def harmonic(l, a, b, theta, phi):
    """U and its five derivatives for coefficient lists a (cos) and b (sin) of length l+1; theta and phi broadcast
    against each other (a and b entries may themselves be arrays broadcastable to the result, e.g. functions of time).

    Returns (U, U_theta, U_phi, U_theta_theta, U_phi_phi, U_theta_phi)."""
    theta = np.asarray(theta, dtype=np.float64)
    phi = np.asarray(phi, dtype=np.float64)
    u = ut = up = utt = upp = utp = 0.0
    for m in range(l + 1):
        n = norm(l, m)
        p, dp, d2p = plm(l, m, theta)
        am = np.asarray(a[m], dtype=np.float64) * n
        bm = np.asarray(b[m], dtype=np.float64) * n
        cm = np.cos(m * phi)
        sm = np.sin(m * phi)
        f = am * cm + bm * sm
        g = m * (bm * cm - am * sm)        # d f / d phi
        u = u + p * f
        ut = ut + dp * f
        utt = utt + d2p * f
        up = up + p * g
        upp = upp - (m * m) * p * f
        utp = utp + dp * g
    return u, ut, up, utt, upp, utp


def laplace_residual(l, u, ut, upp, utt, theta):
    """(residual, scale) of U_tt + cot U_t + U_pp/sin^2 + l(l+1) U; scale = sum of the magnitudes of the terms."""
    theta = np.asarray(theta, dtype=np.float64)
    s = np.sin(theta)
    cot = np.cos(theta) / s
    t1, t2, t3, t4 = utt, cot * ut, upp / (s * s), l * (l + 1.0) * u
    return t1 + t2 + t3 + t4, np.abs(t1) + np.abs(t2) + np.abs(t3) + np.abs(t4)


def _cd6(f, x, h):
    """6th-order central first difference."""
    return (45.0 * (f(x + h) - f(x - h)) - 9.0 * (f(x + 2 * h) - f(x - 2 * h)) + (f(x + 3 * h) - f(x - 3 * h))) / (60.0 * h)


def selftest():
    # (1) closed forms, l = 2..4
    th = np.array([0.1, 0.7, 1.3, 1.9, 2.6, 3.0])
    x, s = np.cos(th), np.sin(th)
    table = {
        (2, 0): (3 * x ** 2 - 1) / 2, (2, 1): 3 * x * s, (2, 2): 3 * s ** 2,
        (3, 0): (5 * x ** 3 - 3 * x) / 2, (3, 1): 1.5 * (5 * x ** 2 - 1) * s, (3, 2): 15 * x * s ** 2, (3, 3): 15 * s ** 3,
        (4, 0): (35 * x ** 4 - 30 * x ** 2 + 3) / 8, (4, 1): 2.5 * (7 * x ** 3 - 3 * x) * s,
        (4, 2): 7.5 * (7 * x ** 2 - 1) * s ** 2, (4, 3): 105 * x * s ** 3, (4, 4): 105 * s ** 4}
    for (l, m), want in table.items():
        got = plm(l, m, th)[0]
        assert np.max(np.abs(got - want)) <= 1e-13 * max(1.0, np.max(np.abs(want))), ('closed form', l, m)
    # (2) Laplace identity and (3) derivatives against central differences, term by term
    thetas = np.array([0.05, 0.3, 0.9, 1.5707963267948966, 2.2, 2.9, 3.09])
    phis = np.array([0.0, 0.4, 1.7, 3.3, 5.9])
    T, Ph = np.meshgrid(thetas, phis, indexing='ij')
    h = 1e-3
    for l in range(2, 9):
        for m in range(l + 1):
            for which in (0, 1):
                if m == 0 and which == 1:
                    continue
                a = [0.0] * (l + 1)
                b = [0.0] * (l + 1)
                (a if which == 0 else b)[m] = 1.0
                u, ut, up, utt, upp, utp = harmonic(l, a, b, T, Ph)
                res, sc = laplace_residual(l, u, ut, upp, utt, T)
                assert np.all(np.abs(res) <= 1e-13 * sc + 1e-300), ('laplace', l, m, which, float(np.max(np.abs(res) / (sc + 1e-300))))
                big = max(1.0, float(np.max(np.abs(utt))))
                f_u = lambda t: harmonic(l, a, b, t, Ph)[0]      # noqa: E731
                f_ut = lambda t: harmonic(l, a, b, t, Ph)[1]     # noqa: E731
                f_up_t = lambda t: harmonic(l, a, b, t, Ph)[2]   # noqa: E731
                g_u = lambda p: harmonic(l, a, b, T, p)[0]       # noqa: E731
                g_up = lambda p: harmonic(l, a, b, T, p)[2]      # noqa: E731
                for name, ana, num in (('U_t', ut, _cd6(f_u, T, h)), ('U_tt', utt, _cd6(f_ut, T, h)),
                                       ('U_tp', utp, _cd6(f_up_t, T, h)), ('U_p', up, _cd6(g_u, Ph, h)),
                                       ('U_pp', upp, _cd6(g_up, Ph, h))):
                    err = float(np.max(np.abs(ana - num)))
                    assert err <= 1e-9 * big * (l + 1) ** 2, ('derivative', name, l, m, which, err)
    return True


if __name__ == '__main__':
    selftest()
    print('ylm selftest ok')
