"""C01 - Love numbers of a uniform body equal the Kelvin/Love closed form.

Generated (all exponents log-uniform by construction; |mu| is *computed* from the drawn effective
rigidity m_l so stiff, intermediate and soft bodies are equally likely):
  R 1e5..1e8 m, rho 10^[2.7,4.3], l 2..10, m_l 10^[-3,3], arg(mu) in [0,1.5], integrator in
  {RK23,RK45,DOP853}, configuration in {static/compressible/Takeuchi, static/compressible/Kamata,
  dynamic/compressible/Takeuchi, dynamic/compressible/Kamata, dynamic/incompressible/Kamata}
  (+ the three combinations documented as not implemented: generated too, discarded if rejected, judged like any other
  case should they ever return a solution), nondimensionalize
  T/F, 20..200 slices, r0/R 10^[-2.5,-1] (Takeuchi: <= 0.03, see C04's known finding), rtol 10^[-9,-6] (RK23: 10^[-7,-4]),
  atol = 1e-4 rtol, K = 10^[6,9] * max(|mu|, rho g R), omega^2 R/g in 10^[-12,-7] (10^[-8,-5] for
  dynamic/incompressible Kamata); `solve_for` in {(tidal), (tidal, loading), (loading, tidal), (free, tidal, loading)} - the tidal
  entry is the one compared.
  In a third of the cases the same uniform sphere is handed over as a stack of 2-3 layers of identical material (interfaces at
  generated radii, sampled on both sides) whose upper layers carry their own generated static / incompressible flags - the only
  way to reach the static-incompressible equations, which have no starting conditions.  Layers flagged incompressible get a
  finite, realistic bulk modulus (1e9..1e12 Pa, documented as ignored) instead of the compressible-limit value.

Oracle: k_l = 3/(2(l-1))/(1+m_l), h_l = (2l+1) k_l/3, l_l = k_l/l, complex m_l.
Each case is solved at rtol and rtol/100; delta = max|love - love_tight| is the measured
convergence error.  Discarded (property precondition "reports success and is converged"): either
solve unsuccessful, or delta > 1e-4.  Otherwise
    max(|dk|,|dh|,|dl|) <= 1e-6 + 50 delta + 30 (|mu| + rho g R)/K + 30 omega^2 R/g   (absolute, O(1) scale)
(K = smallest bulk modulus among the layers NOT flagged incompressible; for the soft bodies m_l < 1e-2 added later the floor is
3e-6 (1e-2/m_l) and the dynamic term carries a factor (1 + 0.02/m_l): inertia then competes with the small elastic restoring
force, measured 1.06e-3 at w^2R/g = 1e-5, m_l = 1e-3)
Calibration on the unchanged tree (60 random cases while writing + the quick tier): worst ratio
error/tolerance 0.09; static K=1e17 cases reproduce the closed form to 3e-9.

Known finding KF-C01-dynamic-incomp-quasi-static (compiled; found by the thorough tier, 8 of 6 800 cases of that
configuration): for a dynamic *incompressible* solid (Kamata starts) at w^2R/g < 1e-6 the lower-order integrators
converge to a wrong answer: RK23 at rtol 3e-5 and 3e-7 both give k2 = -0.998 (stable under the 100x tighter tolerance,
success=True) where the closed form - and DOP853, or RK45 at 1e-10 - give 0.75.  The three starting solutions are nearly
linearly dependent in the quasi-static limit.  Cases of that regime (config, w^2R/g < 1e-6, RK23/RK45) carry
`regime: quasi_static_low_order` in their signature; everything else failing is a violation.

Non-trivial: converged, all three numbers compared, 1e-3 <= |m_l| <= 1e3.

Sensitivity (tools/mut.py on generated C, all CAUGHT, see DESIGN 2/C01 and the commit log of /verif):
  love.c: `- 1.0` dropped in k;  boundaries.c (2l+1) -> (2l);  odes.c one coefficient.
Seeded changes C01-1..4 and C05-4 (a unit slip that only acts on soft layers on the non-dimensionalised route): CAUGHT.
"""
import cmath
import math

import numpy as np
from hypothesis import strategies as st

from props import rs_common as rc
from vlib.result import Collector, discard, repo_call

ID = 'C01'
TECHNIQUE = 'property-based testing (Hypothesis): generated uniform bodies vs closed-form Kelvin/Love oracle, convergence-measured tolerance'
LEVEL = 'exploration'
LEVEL_TEXT = ('Generated-input exploration against an analytic reference: thousands of random homogeneous bodies over all '
              'supported integrator / starting-family / assumption combinations; each compared with the closed form inside a '
              'tolerance derived from a measured convergence error. Says nothing about bodies outside the generated domain.')
LEVEL_NOTE = ('Trusts the closed-form Kelvin/Love solution for an incompressible homogeneous sphere and the stated '
              'compressibility / dynamic correction bounds (30(|mu|+rho g R)/K, 30 w^2R/g); the compiled solver is the binary '
              'in /repo (rebuilt from generated C when that is newer).')
CASES = {'quick': 640, 'thorough': 40000}
SHARDS = {'quick': 16, 'thorough': 16}
RULE = ('Hypothesis draws (log10 R, log10 rho, l, log10 m_l, arg mu, integrator, configuration, nondimensionalize, slices, '
        'log10 r0/R, log10 rtol, log10 K-factor, log10 w^2R/g); |mu| is computed from m_l. Non-trivial = both solves '
        'succeeded, convergence delta <= 1e-4 and 1e-3 <= |m_l| <= 1e3; distinct = distinct argument hash.')
ASSUMPTIONS = ['closed form k_l = 3/(2(l-1))/(1+m_l), m_l=(2l^2+4l+3)mu/(l rho g R) (Love 1911; e.g. Munk & MacDonald 1960)',
               'tolerance 1e-6 + 50*n_layers*delta + 30(|mu|+rho g R)/K_compressible_layers + 30 w^2 R/g (x (1 + 0.02/m_l) for m_l < 1e-2)', 'unconverged (delta > 1e-4) cases are discarded']

CONFIGS = {
    'static_comp_takeuchi': (True, False, False),
    'static_comp_kamata': (True, False, True),
    'dynamic_comp_takeuchi': (False, False, False),
    'dynamic_comp_kamata': (False, False, True),
    'dynamic_incomp_kamata': (False, True, True),
    # not implemented combinations: must raise NotImplementedError
    'static_incomp_takeuchi': (True, True, False),
    'static_incomp_kamata': (True, True, True),
    'dynamic_incomp_takeuchi': (False, True, False),
}
IMPLEMENTED = list(CONFIGS)[:5]
UNIMPLEMENTED = list(CONFIGS)[5:]


def strategy(tier):
    return st.fixed_dictionaries({
        'logR': st.floats(5.0, 8.0), 'logrho': st.floats(2.7, 4.3), 'l': st.integers(2, 10),
        'logm': st.floats(-3.0, 3.0), 'arg': st.floats(0.0, 1.5),
        'method': st.sampled_from(['RK23', 'RK45', 'DOP853']),
        'config': st.sampled_from(IMPLEMENTED * 4 + UNIMPLEMENTED),
        'nondim': st.booleans(), 'n': st.integers(20, 200),
        'logr0': st.floats(-2.5, -1.0), 'logrtol': st.floats(-9.0, -6.0),
        'logKf': st.floats(6.0, 9.0), 'u_w': st.floats(0.0, 1.0),
        # the tidal numbers must come out the same when other solution types are solved in the same call
        'solve_for': st.sampled_from([['tidal'], ['tidal'], ['tidal', 'loading'], ['loading', 'tidal'], ['free', 'tidal', 'loading']]),
        # the same uniform sphere handed to the solver as a stack of 1-3 solid layers of identical material whose layers may carry
        # different static / incompressible flags (only the innermost layer needs a starting-condition family, so the upper
        # layers also reach the static-incompressible equations, which have no starting conditions of their own)
        'upper': st.one_of(st.just([]), st.just([]),
                           st.lists(st.tuples(st.floats(0.15, 0.9), st.booleans(), st.booleans()), min_size=1, max_size=2)),
    })


def fixed_cases(tier):
    out = []
    for cfg in CONFIGS:
        out.append({'logR': 6.5, 'logrho': 3.5, 'l': 2, 'logm': 0.0, 'arg': 0.3, 'method': 'DOP853', 'config': cfg,
                    'nondim': True, 'n': 80, 'logr0': -2.0, 'logrtol': -8.0, 'logKf': 8.0, 'u_w': 0.5,
                    'solve_for': ['loading', 'tidal'] if cfg.endswith('kamata') else ['tidal']})
    # witness of KF-C01-dynamic-incomp-quasi-static (RK23, w^2R/g = 1e-8)
    out.append({'logR': 7.0, 'logrho': 4.0, 'l': 2, 'logm': 0.0, 'arg': 0.0, 'method': 'RK23', 'config': 'dynamic_incomp_kamata',
                'nondim': True, 'n': 20, 'logr0': -2.5, 'logrtol': -6.5, 'logKf': 8.0, 'u_w': 0.0, 'solve_for': ['tidal']})
    return out


def required_labels(tier):
    return ['cfg:' + c for c in CONFIGS] + ['layers:1', 'layers:2', 'layers:3', 'upper:static_incomp', 'upper:static_comp', 'upper:dynamic_incomp', 'upper:dynamic_comp', 'solve_for:1', 'solve_for:2', 'solve_for:3', 'method:RK23', 'method:RK45', 'method:DOP853', 'nondim:True', 'nondim:False']


def in_domain(c):
    try:
        return (5 <= c['logR'] <= 8 and 2.7 <= c['logrho'] <= 4.3 and 2 <= c['l'] <= 10 and -3 <= c['logm'] <= 3
                and 0 <= c['arg'] <= 1.5 and 20 <= c['n'] <= 200 and -2.5 <= c['logr0'] <= -1 and -9 <= c['logrtol'] <= -6
                and 6 <= c['logKf'] <= 9 and 0 <= c['u_w'] <= 1 and c['config'] in CONFIGS
                and c['method'] in ('RK23', 'RK45', 'DOP853') and 'tidal' in c.get('solve_for', ['tidal'])
                and len(c.get('upper', [])) <= 2 and all(0.15 <= u[0] <= 0.9 for u in c.get('upper', [])))
    except Exception:
        return False


def build(case):
    R = 10.0 ** case['logR']
    rho = 10.0 ** case['logrho']
    l = int(case['l'])
    m_abs = 10.0 ** case['logm']
    g = 4.0 / 3.0 * math.pi * rc.G * rho * R
    mu_abs = m_abs * rho * g * R * l / (2.0 * l * l + 4.0 * l + 3.0)
    mu = cmath.rect(mu_abs, case['arg'])
    static, incomp, kamata = CONFIGS[case['config']]
    K = 10.0 ** case['logKf'] * max(mu_abs, rho * g * R)
    if case['config'] == 'dynamic_incomp_kamata':
        w2 = 10.0 ** (-8.0 + 3.0 * case['u_w'])
    else:
        w2 = 10.0 ** (-12.0 + 5.0 * case['u_w'])
    freq = math.sqrt(w2 * g / R)
    r0 = 10.0 ** case['logr0']
    if not kamata:
        r0 = min(r0, 0.03)
    rtol = 10.0 ** case['logrtol']
    if case['method'] == 'RK23':
        rtol *= 100.0      # 3rd order: rtol/100 = 1e-11 would need > 1e6 steps; RK23 is exercised at 1e-7..1e-4
    spec = rc.homogeneous_spec(R, rho, mu, K, l, freq, n=int(case['n']), r0_frac=r0, static=static, incomp=incomp,
                               use_kamata=kamata, method=case['method'], rtol=rtol, atol=rtol * 1e-4,
                               nondim=bool(case['nondim']), solve_for=list(case.get('solve_for', ['tidal'])))
    upper = [list(u) for u in case.get('upper', [])]
    if upper:
        # interface radii: increasing fractions of R, at least 5 % of R apart and above the start radius; every interface is
        # sampled on both sides (rs_common `iface_eps`): the solver starts an upper layer at that layer's first slice, so a gap
        # between the interface and the next slice would not be integrated at all
        fr = sorted(min(0.9, max(0.15, float(u[0]))) for u in upper)
        if len(fr) == 2 and fr[1] - fr[0] < 0.05:
            fr[1] = fr[0] + 0.05
        base = spec['layers'][0]
        n_each = max(8, int(case['n']) // (len(upper) + 1))
        layers = [dict(base, top_frac=fr[0], n=n_each)]
        for j, u in enumerate(upper):
            layers.append(dict(base, static=bool(u[1]), incomp=bool(u[2]), n=n_each,
                               top_frac=fr[j + 1] if j + 1 < len(fr) else 1.0))
        spec['layers'] = layers
        spec['iface_eps'] = 1e-13
    # a layer flagged incompressible is documented to ignore its bulk modulus: give it a realistic finite one (1e9..1e12 Pa)
    # instead of the near-infinite value of the compressible-limit route, so that equations which do use it are noticed
    for L in spec['layers']:
        if L['incomp']:
            L['K'] = 10.0 ** (9.0 + (float(case['logKf']) - 6.0))
    comp_K = [L['K'] for L in spec['layers'] if not L['incomp']]
    return spec, dict(R=R, rho=rho, l=l, mu=mu, mu_abs=mu_abs, g=g, K=K, w2=w2, rtol=rtol, m_abs=m_abs,
                      K_comp=min(comp_K) if comp_K else None)


def evaluate(case):
    spec, q = build(case)
    labels = ['cfg:' + case['config'], 'method:' + case['method'], 'nondim:%s' % bool(case['nondim']), 'l:%d' % q['l'],
              'layers:%d' % len(spec['layers'])]
    for L in spec['layers'][1:]:
        labels.append('upper:%s_%s' % ('static' if L['static'] else 'dynamic', 'incomp' if L['incomp'] else 'comp'))
    if case['config'] in UNIMPLEMENTED:
        c = Collector(labels, nontrivial=False)
        try:
            sol, _ = rc.solve(spec)
        except Exception:  # noqa: these combinations are documented as not implemented; how they are rejected is not C01's subject
            return discard('combination_not_implemented', labels)
        # A combination that has since been implemented must then give the right answer; fall through.
        c.label('now_implemented')
    with repo_call('radial_solver'):
        s1, arrays = rc.solve(spec)
        s2, _ = rc.solve(spec, arrays=arrays, rtol=q['rtol'] / 100.0, atol=q['rtol'] * 1e-6)
    if not (s1.success and s2.success):
        return discard('solver_failed', labels)
    ti = list(case.get('solve_for', ['tidal'])).index('tidal')
    labels.append('solve_for:%d' % len(case.get('solve_for', ['tidal'])))
    love1 = np.asarray(s1.love)[ti]
    love2 = np.asarray(s2.love)[ti]
    delta = float(np.max(np.abs(love1 - love2)))
    if not np.isfinite(delta) or delta > 1e-4:
        return discard('unconverged', labels)
    k, h, ll, m, g = rc.closed_form_love(q['l'], q['mu'], q['rho'], q['R'])
    err = [abs(love1[0] - k), abs(love1[1] - h), abs(love1[2] - ll)]
    comp_term = 30.0 * (q['mu_abs'] + q['rho'] * q['g'] * q['R']) / q['K_comp'] if q.get('K_comp') else 0.0
    # dynamic correction: ~ w^2 R/g for stiff bodies; for soft bodies (new domain m_l < 1e-2) the inertial term competes with the
    # small elastic restoring force instead, ~ 0.1 (w^2 R/g) / m_l (measured 1.06e-3 at w^2R/g = 1e-5, m_l = 1e-3)
    dyn_term = 30.0 * q['w2'] * (1.0 + (0.02 / q['m_abs'] if q['m_abs'] < 1e-2 else 0.0))
    # floor: 1e-6 on the established domain; for the soft bodies added later (m_l < 1e-2) the start-radius / conditioning error
    # grows like 1/m_l (thorough tier: 5.5e-6 at m_l = 2.5e-3 with Takeuchi starts, delta 6e-8) - 3e-6 (1e-2 / m_l) there
    floor = 1e-6 if q['m_abs'] >= 1e-2 else 3e-6 * (1e-2 / q['m_abs'])
    # delta is the difference to a 100x tighter solve; each layer is a separate integration whose error accumulates, so the
    # convergence term scales with the number of layers (thorough tier: 57 delta in a 3-layer stack with RK23 at rtol 1e-4)
    tol = floor + 50.0 * len(spec['layers']) * delta + comp_term + dyn_term
    nontrivial = 1e-3 <= q['m_abs'] <= 1e3
    c = Collector(labels, nontrivial=nontrivial)
    c.label('m:stiff' if q['m_abs'] > 10 else 'm:soft' if q['m_abs'] < 0.1 else 'm:mid')
    regime = 'regular'
    if case['config'] == 'dynamic_incomp_kamata' and q['w2'] < 1e-6 and case['method'] in ('RK23', 'RK45'):
        regime = 'quasi_static_low_order'        # see KF-C01-dynamic-incomp-quasi-static
    c.label('regime:' + regime)
    for name, e, ref, got in zip('khl', err, (k, h, ll), love1):
        c.check(e <= tol, {'clause': 'closed_form', 'number': name, 'config': case['config'], 'regime': regime,
                           'stack': 'single' if len(spec['layers']) == 1 else 'split'},
                '%s: solver %r closed form %r |diff| %.3e tol %.3e (delta %.2e) spec=%r' % (name, complex(got), ref, e, tol, delta, q))
    return c.result()


def classify_exception(case, e):
    return None
