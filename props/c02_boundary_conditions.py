"""C02 - radial solutions satisfy the surface and internal boundary conditions.

Generated: stacks of 1-5 uniform layers over {solid, liquid} x {static, dynamic} x {compressible,
incompressible} (props/rs_common.stack_strategy): bottom layer drawn from the kinds that have an
implemented starting family, surface layer anything except dynamic liquid (that is the C06 crash,
excluded by construction), densities decreasing outward, complex mu for solids, l 2..6,
omega 1e-6..1e-3, both starting families, both nondimensionalize settings, three integrators and
`solve_for` = any sequence of 1-5 names from {tidal, loading, free} (repeats, permutations).

Oracle = direct residuals on `.result` (no second implementation of the solver):
 surface, per requested type t, at the last slice (solid or dynamic... only solid/static-liquid occur):
     y2 = b1, y4 = 0, y6 = b3 with b = (0,0,(2l+1)/R) tidal, (-(2l+1) rho_bulk/3, 0, (2l+1)/R) loading,
     (0,0,0) free;  |residual| <= SURF_TOL * (max |row| inside the surface layer + |b|).
     Static liquid surface: only y5 is exposed by the API (y7 is not), so only finiteness of y5 is checked.
 interfaces (last slice a of the lower layer, first slice a+1 of the upper one; the solver maps the
 values at a onto the start of the upper layer, so these are exact linear relations):
     solid/solid: all six rows equal;
     solid/dyn-liquid, dyn-liquid/solid, dyn-liquid/dyn-liquid: y1, y2, y5, y6 equal;
     solid side of any solid/liquid interface: y4 = 0;
     any interface with a static-liquid side: y5 equal, and on a non-static side
         y2 - rho_liq (g y1 - y5) = 0   (Saito 1974; rho_liq as the solver selects it, g within the two
         adjacent slice values: the slack |rho y1| |g_a - g_b| is added to the tolerance);
     tolerance IFACE_TOL * (max |row| over the two adjacent layers, or sum of |terms|).
 `sol[name]` equals the six rows of `.result` belonging to the first occurrence of that name... (each
 occurrence is checked: rows 6i..6i+5 for the i-th entry of solve_for whose name matches, first match).
 Every row the layer kind defines must be finite.

Numerical noise: the relations are exact linear relations between the independent solutions, but the
returned rows are sums C_i y_i that can cancel by many orders of magnitude (dynamic liquid layers at
low frequency are documented as unstable; deep layers hold values ~1e-160).  Every case is therefore
solved a second time with a 30x tighter tolerance and |y - y'| at the slices involved - the measured
indeterminacy of the numbers themselves - is added to each tolerance with factor NOISE_FACTOR = 30; where that indeterminacy exceeds 1e-4 of the row's scale the
numbers are numerically meaningless (stacks with a dynamic liquid layer at low frequency - the regime the solver itself
warns about: k = -0.91, -0.48, -0.87 at rtol 1e-6, 3e-8, 1e-11 - found by the thorough tier) and the clause is not judged
there (label `skipped:ill_conditioned`).
(Observed on the unchanged tree: jump 4.5e-45 where the two solves differ by 2e-39; in well-conditioned
stacks the noise term is ~1e-9 of the scale, a wrong row/coefficient gives O(1).)

Tolerances: SURF_TOL = IFACE_TOL = 3e-4 of the row scale.  The surface condition comes out of a 3x3 LAPACK solve whose
residual is eps x (the magnitude of the cancelling solution components), which cannot be observed from outside: 1e-8 raised
an alarm at quick seed 2 (4e-8), 1e-6 at thorough scale (60 000 stacks: worst 2.6e-5, in stacks whose Love number itself moves
in the second digit between tolerances).  A swapped row, wrong constant or dropped coefficient gives O(1).  Measured on the unchanged tree (quick tier, seeds
1-3): worst surface ratio 3e-12, worst interface ratio 2e-13 relative to these scales; a swapped row or
dropped coefficient gives O(1).

Non-trivial = >= 2 layers with at least one solid/liquid or static/dynamic transition, or >= 2 solution types.
Unsuccessful solves are discarded (counted).

Sensitivity (tools/mut.py on generated C): see DESIGN.md section 2/C02 and the table in section 6.
"""
import numpy as np
from hypothesis import strategies as st

from props import rs_common as rc
from vlib.result import Collector, discard, repo_call

ID = 'C02'
TECHNIQUE = 'property-based testing (Hypothesis): generated layer stacks, boundary/interface residual invariants on the returned solution'
LEVEL = 'exploration'
LEVEL_TEXT = ('Generated-input exploration with a validity predicate: the surface condition of every requested solution type '
              'and every interface relation is evaluated directly on the returned arrays for hundreds (quick) to tens of '
              'thousands (thorough) of random layer stacks; all 49 admissible ordered pairs of adjacent layer kinds are required '
              'to occur. No claim for stacks outside the generated domain; y7 at a static-liquid surface is not observable.')
LEVEL_NOTE = ('Trusts the boundary-condition definitions of Takeuchi & Saito 1972 / Saito 1974 as written in the property; dynamic '
              'liquid surface layers are excluded (known crash, C06).')
CASES = {'quick': 480, 'thorough': 60000}
SHARDS = {'quick': 16, 'thorough': 16}
SURF_TOL = 3e-4
IFACE_TOL = 3e-4
NOISE_FACTOR = 30.0
ILL = 1e-4        # a clause is not judged where the two solves differ by more than this fraction of the scale
RULE = ('Hypothesis draws a stack (1-5 layers, 8 kinds, constructive bottom/surface choice), per-layer thickness weights, '
        'densities (decreasing outward), complex shear, bulk modulus, slices 5..40, R, r0, l 2..6, frequency, family, '
        'solve_for sequence (1-5 of tidal/loading/free), nondim, integrator, rtol. Non-trivial = (>= 2 layers with a '
        'solid/liquid or static/dynamic transition) or >= 2 solution types, and the solve succeeded; distinct = argument hash.')
ASSUMPTIONS = ['surface tolerance 3e-4 x (max|row| in surface layer + |b|) + 30 x noise', 'interface tolerance 3e-4 x max|row| over adjacent layers + 30 x noise', 'clauses are not judged where noise > 1e-4 x scale',
               'static-liquid pressure relation uses g between the two adjacent slice values (slack added)']


def strategy(tier):
    return rc.stack_strategy(1, 5, surface='no_dynamic_liquid')


def in_domain(case):
    return rc.stack_in_domain(case)


def fixed_cases(tier):
    # one deterministic witness per surface kind and a 3-layer solid/liquid/solid planet of each liquid kind
    out = []
    base = {'weights': [1.0, 1.0, 1.0], 'logrho_top': 3.5, 'rho_ratios': [1.3, 1.3, 1.3], 'logmu': [10.7, 10.0, 10.5],
            'argmu': [0.1, 0.0, 0.2], 'logK': [11.3, 11.0, 11.0], 'n': [20, 20, 20], 'logR': 6.5, 'logr0': -2.0, 'l': 2,
            'logfreq': -4.5, 'family': 'kamata', 'solve_for': ['tidal', 'loading', 'free'], 'nondim': True,
            'method': 'DOP853', 'logrtol': -8.0}
    for liq in (['liquid', True, False], ['liquid', False, False], ['liquid', True, True], ['liquid', False, True]):
        c = dict(base)
        c['kinds'] = [['solid', False, False], liq, ['solid', False, False]]
        out.append(c)
    return out


def required_labels(tier):
    return ['types:1', 'types:2+', 'layers:1', 'layers:3+', 'surface:Ssc', 'surface:Lsc', 'iface:solid/liquid', 'iface:static/dynamic']


def _finite(x):
    return bool(np.all(np.isfinite(x.real)) and np.all(np.isfinite(x.imag)))


def evaluate(case):
    spec = rc.spec_from_case(case)
    ks = [tuple(k) for k in case['kinds']]
    names = [rc.kind_name(k) for k in ks]
    solve_for = list(case['solve_for'])
    labels = ['layers:%d' % len(ks) if len(ks) < 3 else 'layers:3+', 'types:1' if len(solve_for) == 1 else 'types:2+',
              'surface:' + names[-1], 'bottom:' + names[0], 'family:' + ('kamata' if spec['opts']['use_kamata'] else 'takeuchi'),
              'nondim:%s' % spec['opts']['nondim'], 'l:%d' % spec['l']]
    trans = False
    for a, b in zip(ks[:-1], ks[1:]):
        labels.append('pair:%s/%s' % (rc.kind_name(a), rc.kind_name(b)))
        if a[0] != b[0]:
            labels.append('iface:solid/liquid')
            trans = True
        if a[1] != b[1]:
            labels.append('iface:static/dynamic')
            trans = True
    with repo_call('radial_solver'):
        sol, A = rc.solve(spec)
        ok = bool(sol.success)
        res = np.array(sol.result) if ok else None
        # second solve with a 30x tighter tolerance: |res - res2| at a slice measures how well the numbers there
        # are determined at all (integration error x cancellation between the independent solutions)
        res2 = None
        if ok:
            sol2, _ = rc.solve(spec, arrays=A, rtol=spec['opts']['rtol'] / 30.0, atol=spec['opts']['atol'] / 30.0)
            if sol2.success:
                res2 = np.array(sol2.result)
    if not ok:
        return discard('solver_failed', labels)
    if res2 is None or res2.shape != res.shape:
        return discard('noise_solve_failed', labels)
    noise_all = np.abs(res - res2)
    noise_all[~np.isfinite(noise_all)] = 0.0
    c = Collector(sorted(set(labels)), nontrivial=(len(ks) >= 2 and trans) or len(solve_for) >= 2)
    ntypes = len(solve_for)
    N = A['radius'].size
    if not c.check(res.shape == (6 * ntypes, N), {'clause': 'shape'}, 'result shape %r for %d types, %d slices' % (res.shape, ntypes, N)):
        return c.result()
    l = spec['l']
    R = spec['R']
    starts, counts = A['starts'], A['counts']
    rho, g = A['density'], A['gravity']
    for ti, name in enumerate(solve_for):
        y = res[6 * ti: 6 * ti + 6]
        nz = noise_all[6 * ti: 6 * ti + 6]
        with repo_call('solution.__getitem__'):
            named = np.array(sol[name])
        first = solve_for.index(name)
        c.check(named.shape == (6, N) and np.array_equal(named, res[6 * first: 6 * first + 6], equal_nan=True),
                {'clause': 'getitem', 'type': name}, 'sol[%r] differs from rows %d..%d of result' % (name, 6 * first, 6 * first + 5))
        # ---- each requested type independently -----------------------------------------------------
        # "for each requested solution type independently": the rows of a type solved together with others are the rows of
        # that type solved alone (fresh arrays; observed bit-identical, tolerance 1e-12 of the row scale).  This is also the only
        # view of the surface condition of a static-liquid top layer, where y7 is not returned.
        if ntypes > 1 and ti > 0 and solve_for.index(name) == ti:
            with repo_call('radial_solver[alone]'):
                sol_a, _ = rc.solve(spec, solve_for=(name,))
            if sol_a.success:
                c.label('alone_vs_together')
                ya = np.array(sol_a.result)
                for row in range(6):
                    m = np.isfinite(ya[row])
                    same_nan = np.array_equal(np.isfinite(y[row]), m)
                    sc = float(np.max(np.abs(ya[row][m]))) if np.any(m) else 0.0
                    d = float(np.max(np.abs(y[row][m] - ya[row][m]))) if np.any(m) else 0.0
                    c.check(same_nan and d <= 1e-12 * sc, {'clause': 'independent', 'type': name, 'surface': rc.kind_name(ks[-1])},
                            'type %s at position %d of %r: row y%d differs from the same type solved alone by %.3e (scale %.3e)'
                            % (name, ti, solve_for, row + 1, d, sc))
        # ---- surface ------------------------------------------------------------------------------
        top = ks[-1]
        s0 = starts[-1]
        if name == 'tidal':
            b = (0.0, 0.0, (2 * l + 1) / R)
        elif name == 'loading':
            b = (-(2 * l + 1) * A['bulk_density'] / 3.0, 0.0, (2 * l + 1) / R)
        else:
            b = (0.0, 0.0, 0.0)
        if top[0] == 'solid':
            for row, bi, nm in ((1, b[0], 'y2'), (3, b[1], 'y4'), (5, b[2], 'y6')):
                scale = float(np.nanmax(np.abs(y[row, s0:]))) + abs(bi)
                r = abs(y[row, -1] - bi)
                if nz[row, -1] > ILL * scale:
                    c.label('skipped:ill_conditioned')
                    continue
                c.check(np.isfinite(r) and r <= SURF_TOL * scale + NOISE_FACTOR * nz[row, -1],
                        {'clause': 'surface', 'type': name, 'row': nm, 'surface': names[-1]},
                        '%s(R)=%r, prescribed %r, residual %.3e, scale %.3e' % (nm, complex(y[row, -1]), bi, r, scale))
        else:
            c.check(_finite(y[4, s0:]), {'clause': 'surface', 'type': name, 'row': 'y5', 'surface': names[-1]},
                    'non-finite y5 in a static-liquid surface layer')
        # ---- finiteness of the rows each layer kind defines -------------------------------------------
        for li, k in enumerate(ks):
            sl = slice(starts[li], starts[li] + counts[li])
            rows = (0, 1, 2, 3, 4, 5) if k[0] == 'solid' else ((4,) if k[1] else (0, 1, 2, 4, 5))
            for row in rows:
                c.check(_finite(y[row, sl]), {'clause': 'finite', 'type': name, 'kind': names[li], 'row': 'y%d' % (row + 1)},
                        'non-finite values in row y%d of layer %d (%s)' % (row + 1, li, names[li]))
        # ---- interfaces ----------------------------------------------------------------------------------
        for li in range(len(ks) - 1):
            lo, up = ks[li], ks[li + 1]
            a = starts[li] + counts[li] - 1
            bidx = a + 1
            sl2 = slice(starts[li], starts[li + 1] + counts[li + 1])
            pair = '%s/%s' % (names[li], names[li + 1])

            def scale(row):
                return float(np.nanmax(np.abs(y[row, sl2])))

            lo_static_liq = lo[0] == 'liquid' and lo[1]
            up_static_liq = up[0] == 'liquid' and up[1]
            if lo[0] == 'solid' and up[0] == 'solid':
                rows = (0, 1, 2, 3, 4, 5)
            elif lo_static_liq or up_static_liq:
                rows = (4,)
            else:
                rows = (0, 1, 4, 5)
            for row in rows:
                d = abs(y[row, a] - y[row, bidx])
                if nz[row, a] + nz[row, bidx] > ILL * scale(row):
                    c.label('skipped:ill_conditioned')
                    continue
                c.check(np.isfinite(d) and d <= IFACE_TOL * scale(row) + NOISE_FACTOR * (nz[row, a] + nz[row, bidx]),
                        {'clause': 'continuity', 'pair': pair, 'row': 'y%d' % (row + 1)},
                        'type %s interface %d (%s): y%d jumps %r -> %r (scale %.3e)'
                        % (name, li, pair, row + 1, complex(y[row, a]), complex(y[row, bidx]), scale(row)))
            if lo[0] == 'solid' and up[0] == 'liquid':
                c.check(nz[3, a] > ILL * scale3(y, sl2) or abs(y[3, a]) <= IFACE_TOL * scale3(y, sl2) + NOISE_FACTOR * nz[3, a], {'clause': 'zero_shear', 'pair': pair, 'side': 'lower'},
                        'type %s: y4 at top of solid layer %d under liquid = %r' % (name, li, complex(y[3, a])))
            if lo[0] == 'liquid' and up[0] == 'solid':
                c.check(nz[3, bidx] > ILL * scale3(y, sl2) or abs(y[3, bidx]) <= IFACE_TOL * scale3(y, sl2) + NOISE_FACTOR * nz[3, bidx], {'clause': 'zero_shear', 'pair': pair, 'side': 'upper'},
                        'type %s: y4 at base of solid layer %d over liquid = %r' % (name, li + 1, complex(y[3, bidx])))
            if lo_static_liq != up_static_liq or (lo_static_liq and up_static_liq and False):
                # exactly one side is a static liquid: pressure relation on the other side
                if up_static_liq:
                    idx, rl = a, rho[bidx]
                else:
                    idx, rl = bidx, rho[a]
                terms = [y[1, idx], -rl * g[idx] * y[0, idx], rl * y[4, idx]]
                resid = abs(sum(terms))
                sc = sum(abs(t) for t in terms) + abs(rl * y[0, idx]) * abs(g[a] - g[bidx]) / IFACE_TOL
                nterm = nz[1, idx] + rl * g[idx] * nz[0, idx] + rl * nz[4, idx]
                c.check(nterm > ILL * sc or (np.isfinite(resid) and resid <= IFACE_TOL * sc + NOISE_FACTOR * nterm),
                        {'clause': 'static_liquid_pressure', 'pair': pair, 'side': 'lower' if up_static_liq else 'upper'},
                        'type %s interface %d (%s): y2 - rho(g y1 - y5) = %.3e, sum|terms| %.3e' % (name, li, pair, resid, sc))
    return c.result()


def scale3(y, sl):
    return float(np.nanmax(np.abs(y[3, sl]))) if np.any(np.isfinite(y[3, sl])) else 1.0
