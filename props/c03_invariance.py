"""C03 - Love numbers are invariant under representation changes; Saito-Molodensky reciprocity.

Metamorphic relations between *pairs of solver runs* on one generated multi-layer planet
(rs_common.stack_strategy, 1-4 layers; solid or static-liquid surface layer - on a liquid surface only k is compared, h and l are
undefined there and returned as NaN), restricted - as the property's
quantifier says - to numerically converged solves: the base solve (DOP853/RK45 at rtol 10^[-9,-7.5]) is
repeated with a 100x tighter tolerance and the case is discarded (counted) when
delta = max|love - love_tight| > 1e-6 or either solve is unsuccessful.

 R1 nondim      : nondimensionalize=True vs False
 R2 rescale     : lengths x a, moduli x a^2, gravity x a (automatic: g ~ rho r), same rho, omega; a in 10^[-2,2]
 R3 solve_for   : a type solved alone vs inside the generated longer/permuted `solve_for`: love rows and the
                  six result rows agree to 1e-12 relative to max|row| (observed bit-identical)
 R4 integrator  : another integrator (RK45 <-> DOP853, RK23 at rtol >= 1e-7) - tolerance uses that solve's own
                  convergence error as well
 R5 refinement  : grid refinement that preserves the model: new slices are inserted strictly inside layers at
                  midpoints with every property array set to the linear interpolation of its neighbours, so the
                  piecewise-linear interpolant the solver integrates is unchanged (plain re-sampling is not used: the
                  sliver between an interface and the next slice is part of the model)
 R6 reciprocity : k_load = k_tidal - h_tidal from one ('tidal','loading') solve

Tolerance for R1,R2,R4,R5,R6: 5e-6 + 100 (delta + delta_partner) on the O(1) Love numbers (observed 2e-8..1e-6 at rtol
1e-9); the partner run's own convergence error delta_partner is measured the same way (an absolute tolerance means
something else in other units: R1 differed by 1.8e-5 at delta = 1.4e-8 in one stack), partner runs with
delta_partner > 1e-6 are not compared.
Non-trivial = >= 2 layers and at least R1 or R2 evaluated.

Sensitivity (generated C, tools/mut.py): nondimensional.c wrong exponent in redimensionalisation, loading constant
/3 -> /2 in solver.c, ytype_i -> 0 in collapse call: see DESIGN.md section 6.
"""
import numpy as np
from hypothesis import strategies as st

from props import rs_common as rc
from vlib.result import Collector, discard, repo_call

ID = 'C03'
TECHNIQUE = 'property-based testing (Hypothesis): metamorphic relations between paired solver runs (nondim, exact rescaling, solve_for subsets, integrator, model-preserving refinement, reciprocity)'
LEVEL = 'exploration'
LEVEL_TEXT = ('Generated-input exploration with metamorphic oracles: each random layered planet is solved 8-9 times under '
              'representation changes that must not alter k, h, l; tolerance is tied to a measured convergence error. '
              'Restricted to converged solves as the property states.')
LEVEL_NOTE = ('Trusts that the generated transformations are exact symmetries of the mathematical problem (dimensional analysis; '
              'Saito 1978 / Molodensky 1977 reciprocity k_load = k_tidal - h_tidal); unconverged cases are discarded and counted.')
CASES = {'quick': 400, 'thorough': 8000}
SHARDS = {'quick': 16, 'thorough': 16}
RULE = ('Hypothesis draws a 1-4 layer stack (as C02, frequency 10^[-5.5,-3], rtol 10^[-9,-7]) plus scale factor log10 a in [-2,2] and '
        'an alternative integrator; 6 relations are evaluated per planet. Non-trivial = base solve converged (delta <= 1e-6), >= 2 '
        'layers and R1 or R2 evaluated; distinct = argument hash.')
ASSUMPTIONS = ['tolerance 5e-6 + 100*delta (delta = |love(rtol) - love(rtol/100)|)', 'R3 tolerance 1e-12 relative',
               'cases with delta > 1e-6 or a failed solve are outside the claim (discarded, counted)']
TOL0 = 5e-6
TIGHT = 100.0


def strategy(tier):
    base = rc.stack_strategy(1, 4, surface='no_dynamic_liquid', freq_log=(-5.5, -3.0), solve_for_max=4)
    # iface_eps > 0: every interface is sampled on both sides (last slice of the lower layer at r_i, first slice of the upper
    # layer at r_i (1 + eps)) - the usual way to tabulate a discontinuous profile
    # hi: a quarter of the planets are solved at a high degree (7-10) from a start radius high in the planet (0.1-0.5 R, what the
    # documentation recommends for high degrees): the regime in which the starting vectors leave their small-argument branches
    hi = st.one_of(st.none(), st.none(), st.none(), st.tuples(st.integers(7, 10), st.floats(-1.0, -0.3)).map(list))
    return st.tuples(base, st.floats(-2.0, 2.0), st.sampled_from(['RK45', 'DOP853', 'RK23']),
                     st.sampled_from([0.0, 0.0, 1e-12, 1e-9, 1e-6]), hi).map(
        lambda t: dict(t[0], loga=t[1], alt_method=t[2], iface_eps=t[3], hi=t[4]))


def in_domain(case):
    try:
        return rc.stack_in_domain(case, 4) and -2 <= case['loga'] <= 2 and case['alt_method'] in ('RK45', 'DOP853', 'RK23') \
            and case['logfreq'] >= -5.5 and (case.get('hi') is None or (7 <= case['hi'][0] <= 10 and -1.0 <= case['hi'][1] <= -0.3))
    except Exception:
        return False


def fixed_cases(tier):
    base = {'weights': [1.0, 1.0, 1.0], 'logrho_top': 3.5, 'rho_ratios': [1.3, 1.3, 1.3], 'logmu': [10.7, 10.0, 10.5],
            'argmu': [0.1, 0.0, 0.2], 'logK': [11.3, 11.0, 11.0], 'n': [20, 20, 20], 'logR': 6.5, 'logr0': -2.0, 'l': 2,
            'logfreq': -4.5, 'family': 'kamata', 'solve_for': ['loading', 'tidal', 'free'], 'nondim': True,
            'method': 'DOP853', 'logrtol': -9.0, 'loga': 1.3, 'alt_method': 'RK45'}
    out = []
    for liq in (['liquid', True, False], ['solid', False, False]):
        c = dict(base)
        c['kinds'] = [['solid', False, False], liq, ['solid', False, False]]
        out.append(c)
    return out


def required_labels(tier):
    return ['R1', 'R2', 'R3', 'R4', 'R5', 'R6', 'layers:2+', 'has_liquid', 'static_liquid_surface', 'interfaces_sampled_twice']


def _refine(A):
    """Insert midpoints strictly inside layers; all property arrays linearly interpolated."""
    keep = {k: A[k] for k in A}
    idx = []
    for s, c in zip(A['starts'], A['counts']):
        idx += list(range(s, s + c - 1))           # pairs (j, j+1) inside one layer
    idx = np.asarray(idx)
    out = {}
    for key in ('radius', 'density', 'gravity', 'bulk', 'shear'):
        a = A[key]
        mids = 0.5 * (a[idx] + a[idx + 1])
        merged = np.empty(a.size + mids.size, dtype=a.dtype)
        # position of each original element in the merged array
        pos = np.arange(a.size) + np.concatenate(([0], np.cumsum(np.isin(np.arange(a.size - 1), idx))))
        merged[pos] = a
        merged[pos[idx] + 1] = mids
        out[key] = np.ascontiguousarray(merged)
    keep.update(out)
    keep['counts'] = [2 * c - 1 for c in A['counts']]
    keep['starts'] = np.cumsum([0] + keep['counts'])[:-1].tolist()
    return keep


def _love(sol):
    return np.array(sol.love)


def evaluate(case):
    if case.get('hi') is not None:
        case = dict(case, l=int(case['hi'][0]), logr0=float(case['hi'][1]))
    spec = rc.spec_from_case(case)
    ks = [tuple(k) for k in case['kinds']]
    if spec['opts']['method'] == 'RK23':
        spec['opts']['method'] = 'RK45'
    spec['opts']['rtol'] = 10.0 ** (-9.0 + 0.5 * (case['logrtol'] + 9.0))       # 10^[-9,-7.5]
    spec['opts']['atol'] = spec['opts']['rtol'] * 1e-4
    rtol = spec['opts']['rtol']
    labels = ['layers:1' if len(ks) == 1 else 'layers:2+', 'l:%d' % spec['l'], 'bottom:' + rc.kind_name(ks[0]),
              'surface:' + rc.kind_name(ks[-1])]
    if any(k[0] == 'liquid' for k in ks):
        labels.append('has_liquid')
    if case.get('hi') is not None:
        labels.append('high_degree_high_start')
    if spec.get('iface_eps', 0.0) > 0.0 and len(ks) > 1:
        labels.append('interfaces_sampled_twice')
    if any(k[0] == 'liquid' and not k[1] for k in ks):
        labels.append('has_dynamic_liquid')
    sf = list(case['solve_for'])
    tidal_only = dict(solve_for=('tidal',))
    with repo_call('radial_solver'):
        # NB every solve gets freshly built input arrays: the solver's internal non-dimensionalise /
        # re-dimensionalise round trip perturbs the caller's arrays by an ulp or two, and an adaptive integrator
        # turns an ulp-level input change into a tolerance-level output change, which would break R3's
        # bit-for-bit comparison for reasons unrelated to `solve_for`.
        s0, A = rc.solve(spec, **tidal_only)
        s0t, _ = rc.solve(spec, rtol=rtol / TIGHT, atol=rtol * 1e-4 / TIGHT, **tidal_only)
    if not (s0.success and s0t.success):
        return discard('solver_failed', labels)
    L0 = _love(s0)[0]
    static_liquid_surface = ks[-1][0] == 'liquid'
    comp = slice(0, 1) if static_liquid_surface else slice(0, 3)     # h, l are undefined (NaN) on a liquid surface
    delta = float(np.max(np.abs(L0[comp] - _love(s0t)[0][comp])))
    if not np.isfinite(delta) or delta > 1e-6 or not np.all(np.isfinite(L0[comp])):
        return discard('unconverged', labels)
    if static_liquid_surface:
        labels.append('static_liquid_surface')
    tol = TOL0 + 100.0 * delta
    c = Collector(labels, nontrivial=len(ks) >= 2)

    def compare(rel, sol, extra=0.0, detail='', tight=None):
        if not sol.success or (tight is not None and not tight.success):
            c.label(rel + ':partner_failed')
            return
        L = _love(sol)[0]
        if tight is not None:
            # the partner run has its own convergence error (e.g. atol means something else in other units)
            dp = float(np.max(np.abs(L[comp] - _love(tight)[0][comp])))
            if not np.isfinite(dp) or dp > 1e-6:
                c.label(rel + ':partner_unconverged')
                return
            extra = extra + 100.0 * dp
        c.label(rel)
        d = float(np.max(np.abs(L[comp] - L0[comp])))
        c.check(np.isfinite(d) and d <= tol + extra, {'clause': rel},
                '%s: love %r vs base %r, |diff| %.3e tol %.3e (delta %.2e) %s' % (rel, L.tolist(), L0.tolist(), d, tol + extra, delta, detail))

    # R1 ---------------------------------------------------------------------------------------------------------
    with repo_call('radial_solver[R1]'):
        s1, _ = rc.solve(spec, nondim=not spec['opts']['nondim'], **tidal_only)
        s1t, _ = rc.solve(spec, nondim=not spec['opts']['nondim'], rtol=rtol / TIGHT, atol=rtol * 1e-4 / TIGHT, **tidal_only)
    compare('R1', s1, tight=s1t)
    if s1.success and 'R1' in c.labels:
        # the radial functions themselves (observed at the slices that are end points of an integration: first and
        # last slice of every layer) must not depend on the internal non-dimensionalisation either
        ra, rb = np.array(s0.result), np.array(s1.result)
        rt = np.array(s0t.result)
        bidx = [A['starts'][-1], A['starts'][-1] + A['counts'][-1] - 1] if ks[-1][0] == 'solid' else []
        # (the surface layer only: below a liquid layer the amplitude of a solid layer's solution is fixed through a nearly
        #  decoupled interface and can differ by a factor between two valid runs while the surface values agree to 1e-8)
        # (solid layers only: y3 of a dynamic liquid is reconstructed as (g y1 - y2/rho - y5)/(w^2 r), a difference of
        #  large terms whose value depends on the absolute tolerance's units - numerically fragile, and not a Love number)
        for row in range(6):
            m = np.isfinite(ra[row])
            if not np.any(m):
                continue
            sc = float(np.max(np.abs(ra[row][m])))
            for i in bidx:
                if np.isfinite(ra[row, i]) or np.isfinite(rb[row, i]):
                    d = abs(ra[row, i] - rb[row, i])
                    nz = abs(ra[row, i] - rt[row, i])          # how well this number is determined at all (y3 in a
                    nz = nz if np.isfinite(nz) else 0.0         # dynamic liquid is a difference of large terms / w^2 r)
                    c.check(np.isfinite(d) and d <= (1e-5 + 1000.0 * delta) * sc + 30.0 * nz, {'clause': 'R1', 'what': 'rows'},
                            'row y%d at slice %d: %r (nondim=%s) vs %r, scale %.3e' % (row + 1, i, complex(ra[row, i]),
                                                                                    spec['opts']['nondim'], complex(rb[row, i]), sc))
    # R2 ---------------------------------------------------------------------------------------------------------
    a = 10.0 ** case['loga']
    spec2 = dict(spec, R=spec['R'] * a, layers=[dict(L, mu=[L['mu'][0] * a * a, L['mu'][1] * a * a], K=L['K'] * a * a)
                                                for L in spec['layers']])
    with repo_call('radial_solver[R2]'):
        s2, _ = rc.solve(spec2, **tidal_only)
        s2t, _ = rc.solve(spec2, rtol=rtol / TIGHT, atol=rtol * 1e-4 / TIGHT, **tidal_only)
    compare('R2', s2, detail='a=%r' % a, tight=s2t)
    # R3 ---------------------------------------------------------------------------------------------------------
    with repo_call('radial_solver[R3]'):
        s3, _ = rc.solve(spec, solve_for=tuple(sf))
        alone = {}
        for name in sorted(set(sf)):
            if name == 'tidal':
                alone[name] = s0
            else:
                alone[name], _ = rc.solve(spec, solve_for=(name,))
    if s3.success and all(s.success for s in alone.values()):
        c.label('R3')
        res3 = np.array(s3.result)
        love3 = _love(s3)
        for i, name in enumerate(sf):
            ra = np.array(alone[name].result)
            rows = res3[6 * i: 6 * i + 6]
            for row in range(6):
                m = np.isfinite(ra[row])
                sc = float(np.max(np.abs(ra[row][m]))) if np.any(m) else 0.0
                same_nan = np.array_equal(np.isfinite(rows[row]), m)
                d = float(np.max(np.abs(rows[row][m] - ra[row][m]))) if np.any(m) else 0.0
                c.check(same_nan and d <= 1e-12 * sc, {'clause': 'R3', 'what': 'rows'},
                        'type %s (position %d of %r) row y%d differs from the stand-alone solve by %.3e (scale %.3e)' % (name, i, sf, row + 1, d, sc))
            la = _love(alone[name])[0]
            m = np.isfinite(la)
            d = float(np.max(np.abs(love3[i][m] - la[m]))) if np.any(m) else 0.0
            c.check(d <= 1e-12 * max(1.0, float(np.max(np.abs(la[m]))) if np.any(m) else 1.0), {'clause': 'R3', 'what': 'love'},
                    'type %s love %r vs stand-alone %r' % (name, love3[i].tolist(), la.tolist()))
    # R4 ---------------------------------------------------------------------------------------------------------
    alt = case['alt_method']
    if alt == spec['opts']['method']:
        alt = 'DOP853' if alt != 'DOP853' else 'RK45'
    alt_rtol = max(rtol, 1e-7) if alt == 'RK23' else rtol
    with repo_call('radial_solver[R4]'):
        s4, _ = rc.solve(spec, method=alt, rtol=alt_rtol, atol=alt_rtol * 1e-4, **tidal_only)
        s4t, _ = rc.solve(spec, method=alt, rtol=alt_rtol / TIGHT, atol=alt_rtol * 1e-4 / TIGHT, **tidal_only)
    if s4.success and s4t.success:
        d4 = float(np.max(np.abs(_love(s4)[0][comp] - _love(s4t)[0][comp])))
        if np.isfinite(d4) and d4 <= 1e-5:
            compare('R4', s4, extra=100.0 * d4, detail='alt=%s' % alt)
    # R5 ---------------------------------------------------------------------------------------------------------
    with repo_call('radial_solver[R5]'):
        s5, _ = rc.solve(spec, arrays=_refine(A), **tidal_only)
        s5t, _ = rc.solve(spec, arrays=_refine(A), rtol=rtol / TIGHT, atol=rtol * 1e-4 / TIGHT, **tidal_only)
    compare('R5', s5, tight=s5t)
    # R6 ---------------------------------------------------------------------------------------------------------
    if not static_liquid_surface:
        with repo_call('radial_solver[R6]'):
            s6, _ = rc.solve(spec, solve_for=('tidal', 'loading'))
            s6t, _ = rc.solve(spec, solve_for=('tidal', 'loading'), rtol=rtol / TIGHT, atol=rtol * 1e-4 / TIGHT)
        if s6.success and s6t.success:
            L6 = _love(s6)
            d6 = float(np.max(np.abs(L6 - _love(s6t))))
            if np.isfinite(d6) and d6 <= 1e-6:
                c.label('R6')
                lhs = L6[1][0]
                rhs = L6[0][0] - L6[0][1]
                d = abs(lhs - rhs)
                # Takeuchi starting vectors of a solid core are not exact solutions (compiled defect KF-C04-takeuchi-y6: they do
                # not even span a Lagrangian subspace of the reciprocity form), which breaks reciprocity by O(r0/R)^(2l+1)-ish
                # amounts that grow with w^2: the signature names family, core type and start-radius class so that only this
                # combination can be attributed to that finding
                fam6 = 'takeuchi' if not spec['opts']['use_kamata'] and not (ks[0][0] == 'solid' and ks[0][2]) else 'kamata'
                c.check(d <= TOL0 + 100.0 * d6, {'clause': 'R6', 'family': fam6, 'core': ks[0][0],
                                                 'r0': 'large_r0' if spec['r0_frac'] > 0.03 else 'small_r0'},
                        'k_load %r vs k_tidal - h_tidal %r, |diff| %.3e tol %.3e' % (complex(lhs), complex(rhs), d, TOL0 + 100.0 * d6))
    c.nontrivial = len(ks) >= 2 and ('R1' in c.labels or 'R2' in c.labels)
    return c.result()
