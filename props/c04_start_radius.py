"""C04 - results do not depend on where in a uniform core integration starts (nor on the starting family).

Two levels, both generated.

Solver level ('kind': 'solver').  Planet = uniform innermost region (one-layer planet, or a uniform core below
1-2 solid layers).  Two start radii r0a, r0b (r0/R in 10^[-4,-0.3], below the core top) and, where the core kind
has both, the two starting families.  The core's slices are [r0 .. rc] followed by a grid shared by all runs
(rc = 1.05 max r0), so the radial functions can be compared slice by slice above rc; in a uniform core g is
linear in r, so the solver's piecewise-linear model is identical for every r0.  DOP853, base rtol 1e-9 and tight
rtol 1e-11; delta = max|love_base - love_tight|.  Oracle: tight Love numbers of the runs agree to
1e-6 + 3 (delta_a + delta_b); rows at the layer-boundary slices above rc (see the comment in _evaluate_solver for why not
interior slices) agree to 1e-6 max|row| + 10 |row_base - row_tight|.  Failed / unconverged
(delta > 1e-5) runs are discarded.

Vector level ('kind': 'vector').  `find_starting_conditions` is evaluated at r(1 +- h), r(1 +- 2h) (4th-order
central difference, h = 1e-3) and compared with the Takeuchi-Saito system A(r) (oracles/ts72.py, written from the
literature) in the *span* sense: the returned vectors may be any r-dependent normalisation / mixture V = S M(r) of exact
regular solutions S (Kamata's are: individually they are not solutions, their span is - and only the span matters for
the Love numbers), so E = V' - A V must lie in the column span of V.  Row/column-equilibrated least squares
E ~ V C; every row of the residual <= 1e-6 x (sum_j |A_ij V_j| + |V'_i|).  When that fails for a solid layer the
failure is *diagnosed* with the stricter individual test (e = y' - A y parallel to y, c = median over rows y1, y3, y4): if
rows y1, y3, y4 hold and only rows y2, y5, y6 of solutions 0/1 fail - exactly the rows a wrong y6 enters - the
signature is {component: y6, solutions: '0,1'}; anything else gets {component: other}.
That A is "the solver's own" system is itself checked (clause ode_consistency): the rows returned by the solver for a
uniform solid body are reproduced by integrating A with scipy's DOP853 from the solver's own y(r0) to R (rel. 1e-4 + 30 x the solver's own rtol 1e-9 vs 1e-11 difference; l in {2,3}, R 10^[5.5,6.8], w 10^[-6,-4.3]: outside
that window the initial-value propagation of the collapsed solution is itself ill-conditioned).  (This clause caught
an error in the first version of oracles/ts72.py - a missing rho (l+1)/r y5 term from the y6 convention.)

Known finding KF-C04-takeuchi-y6 (compiled, cannot be repaired here): in takeuchi.pyx the y6 component of solid
solutions 0 and 1 uses the other solution's y5; vector-level residual 2-3e-3 in exactly that component, and
the Love number drifts with r0 (4e-7 at r0/R = 0.1, 3.5e-4 at 0.4, O(1) at w^2R/g ~ 1).  Everything else
(other components, Kamata, liquid families) failing is a violation.

Known finding KF-C04-zcalc-taylor (compiled): cf_z_calc's Taylor branch (|x^2| <= 0.1) has the wrong powers in its
3rd-5th terms (x_squared**4, **6, **8 where the series of x j_{l+1}(x)/j_l(x) has x^6, x^8, x^10), so Kamata vectors
with a wavenumber root 0.01 < |k^2 r^2| <= 0.1 miss the ODE by up to 6e-6 (residual grows ~z^2 and drops to 1e-12
right above the switch).  Known finding KF-C04-takeuchi-series: Takeuchi's phi/psi are a 5-term series ("limiting
version"), exact only for |k^2 r^2| <~ 3.

Sensitivity (generated C via tools/mut.py): sign in kamata y2, Taylor coefficient of cf_z_calc, see DESIGN.md section 6.
"""
import math

import numpy as np
from hypothesis import strategies as st

from oracles import ts72
from props import rs_common as rc
from vlib.result import Collector, discard, repo_call

ID = 'C04'
TECHNIQUE = 'property-based testing (Hypothesis): metamorphic (two start radii / two starting families) + differential against an independent Takeuchi-Saito ODE matrix (projective finite-difference residual)'
LEVEL = 'exploration'
LEVEL_TEXT = ('Generated-input exploration: start-radius and family independence of Love numbers and radial functions on '
              'hundreds to thousands of random uniform-core planets, and a projective ODE residual of every starting vector '
              'against an independently written Takeuchi-Saito matrix that is itself checked against the solver output.')
LEVEL_NOTE = ('Trusts oracles/ts72.py (TS72 eq. 82, Saito 1974 eq. 17-18; self-tested on closed-form solutions) and 4th-order '
              'finite differences with h = 1e-3; Takeuchi solid starts are a recorded known finding.')
CASES = {'quick': 960, 'thorough': 12000}
SHARDS = {'quick': 16, 'thorough': 16}
RULE = ('Hypothesis draws either a solver-level case (core kind, 0-2 solid layers above, l 2..8, log w^2R/g in [-8,-0.3], two log '
        'r0/R in [-4,-0.3], material parameters) or a vector-level case (layer kind, family, l 2..10, radius, rho, complex mu, K, '
        'frequency with |x^2| on both sides of cf_z_calc\'s 0.1 switch). Non-trivial = solver case with both runs converged and '
        'r0b/r0a > 2, or any evaluated vector case; distinct = argument hash.')
ASSUMPTIONS = ['TS72 matrix in oracles/ts72.py', 'FD step 1e-3, tolerance 1e-6 relative row-wise', 'solver tolerance 1e-6 + 3(delta_a + delta_b)']
G = rc.G
VEC_TOL = 1e-6
Z_LIMIT = 3.0

CORE_KINDS = {   # name -> (type, static, incomp, families)
    'Ssc': ('solid', True, False, ('kamata', 'takeuchi')),
    'Sdc': ('solid', False, False, ('kamata', 'takeuchi')),
    'Sdi': ('solid', False, True, ('kamata',)),
    'Ldc': ('liquid', False, False, ('kamata', 'takeuchi')),
    'Ldi': ('liquid', False, True, ('kamata',)),
    'Lsc': ('liquid', True, False, ('saito',)),
}


def strategy(tier):
    solver = st.fixed_dictionaries({
        'kind': st.just('solver'),
        'core': st.sampled_from(['Ssc', 'Sdc', 'Sdi', 'Ldc', 'Ldi', 'Lsc']),
        'n_above': st.integers(0, 2), 'l': st.integers(2, 8),
        # half of the second start radii and of the frequencies are drawn from the upper part of their ranges: a starting vector
        # that is slightly off injects an irregular part that decays like (r0/r)^(2l+1) and (for a dynamic-term slip) scales with
        # w^2 R/g, so only large r0 together with a high frequency can show it at the surface
        'logw2': st.one_of(st.floats(-8.0, -0.3), st.floats(-3.0, -0.3)), 'logr0a': st.floats(-4.0, -0.3),
        'logr0b': st.one_of(st.floats(-4.0, -0.3), st.floats(-1.0, -0.3)),
        'logR': st.floats(5.5, 7.5), 'logrho': st.floats(3.0, 4.0), 'logmu': st.floats(9.0, 11.5), 'argmu': st.floats(0.0, 1.0),
        'logK': st.floats(10.3, 12.0), 'core_top': st.floats(0.55, 0.75), 'nondim': st.booleans(),
        'compare': st.sampled_from(['radius', 'family']),
    })
    vector = st.fixed_dictionaries({
        'kind': st.just('vector'),
        'layer': st.sampled_from(['Ssc', 'Sdc', 'Sdi', 'Ldc', 'Ldi', 'Lsc']),
        'family': st.sampled_from(['kamata', 'takeuchi']), 'l': st.integers(2, 10),
        'logr': st.floats(2.0, 6.8), 'logrho': st.floats(3.0, 4.2), 'logmu': st.floats(9.0, 11.5), 'argmu': st.floats(0.0, 1.2),
        'logK': st.floats(10.0, 12.0), 'logw': st.floats(-7.0, -1.0), 'ode': st.sampled_from([False, False, False, True]),
    })
    # a quarter of the solver cases stress the regime in which an inexact starting vector is visible at the surface at all:
    # low degree, second start radius 0.2-0.5 R, w^2 R/g in 10^[-2.5,-0.3], start-radius comparison
    stress = st.tuples(solver, st.integers(2, 3), st.floats(-0.7, -0.3), st.floats(-2.5, -0.3), st.floats(-3.0, -1.0)).map(
        lambda t: dict(t[0], l=t[1], logr0b=t[2], logw2=t[3], logr0a=t[4], compare='radius'))
    return st.one_of(solver, solver, solver, stress, vector, vector, vector, vector)


def fixed_cases(tier):
    out = []
    for fam in ('kamata', 'takeuchi'):
        for layer in ('Ssc', 'Sdc', 'Ldc'):
            out.append({'kind': 'vector', 'layer': layer, 'family': fam, 'l': 2, 'logr': 5.0, 'logrho': 3.7, 'logmu': 10.7,
                        'argmu': 0.1, 'logK': 11.0, 'logw': -4.0})
    # witnesses on the upper part of cf_z_calc's Taylor branch (|k^2 r^2| ~ 0.09) and just above the switch
    for logr in (4.9768, 5.0212, 5.35):
        out.append({'kind': 'vector', 'layer': 'Sdc', 'family': 'kamata', 'l': 2, 'logr': logr, 'logrho': 3.69897, 'logmu': 10.69897,
                    'argmu': 0.0, 'logK': 11.0, 'logw': -2.0, 'ode': False})
    for layer in ('Ssc', 'Sdc', 'Sdi'):
        out.append({'kind': 'vector', 'layer': layer, 'family': 'kamata', 'l': 2, 'logr': 5.5, 'logrho': 3.7, 'logmu': 10.7,
                    'argmu': 0.1, 'logK': 11.0, 'logw': -4.0, 'ode': True})
    out.append({'kind': 'solver', 'core': 'Ssc', 'n_above': 0, 'l': 2, 'logw2': -6.0, 'logr0a': -2.0, 'logr0b': -0.4,
                'logR': 6.5, 'logrho': 3.5, 'logmu': 10.7, 'argmu': 0.2, 'logK': 11.3, 'core_top': 0.6, 'nondim': True,
                'compare': 'radius', 'force_family': 'takeuchi'})
    return out


def required_labels(tier):
    return ['solver', 'vector', 'ode_consistency', 'compare:radius', 'compare:family', 'z_calc:taylor_upper', 'z_calc:taylor_lower', 'z_calc:bessel',
            'core:Ssc', 'core:Sdc', 'core:Sdi', 'core:Ldc', 'core:Ldi']


def in_domain(c):
    try:
        if c['kind'] == 'solver':
            return (c['core'] in CORE_KINDS and 0 <= c['n_above'] <= 2 and 2 <= c['l'] <= 8 and -8 <= c['logw2'] <= -0.3
                    and -4 <= c['logr0a'] <= -0.3 and -4 <= c['logr0b'] <= -0.3 and 5.5 <= c['logR'] <= 7.5
                    and 3 <= c['logrho'] <= 4 and 9 <= c['logmu'] <= 11.5 and 0 <= c['argmu'] <= 1 and 10.3 <= c['logK'] <= 12
                    and 0.55 <= c['core_top'] <= 0.75 and c['compare'] in ('radius', 'family'))
        return (c['layer'] in CORE_KINDS and c['family'] in ('kamata', 'takeuchi') and 2 <= c['l'] <= 10 and 2 <= c['logr'] <= 6.8
                and 3 <= c['logrho'] <= 4.2 and 9 <= c['logmu'] <= 11.5 and 0 <= c['argmu'] <= 1.2 and 10 <= c['logK'] <= 12
                and -7 <= c['logw'] <= -1)
    except Exception:
        return False


def ts72_z(typ, static, l, r, rho, mu, K, w):
    """|k^2 r^2| for the wavenumber root(s) of TS72 eq. 95 (solid: two roots) / eq. 99 (liquid: one)."""
    gamma = 4.0 * math.pi * G * rho / 3.0
    ll1 = l * (l + 1.0)
    if typ == 'liquid':
        a2 = K / rho
        return [abs((w * w + 4.0 * gamma - ll1 * gamma ** 2 / (w * w)) / a2) * r * r]
    w2 = 0.0 if static else w * w
    lam = K - 2.0 * mu / 3.0
    a2 = (lam + 2.0 * mu) / rho
    b2 = mu / rho
    t1 = w2 / b2
    t2 = (w2 + 4.0 * gamma) / a2
    root = ((t1 - t2) ** 2 + 4.0 * ll1 * gamma ** 2 / (a2 * b2)) ** 0.5
    return [abs(0.5 * (t1 + t2 + root)) * r * r, abs(0.5 * (t1 + t2 - root)) * r * r]


def takeuchi_zmax(typ, static, l, r, rho, mu, K, w):
    """max |k^2 r^2| of the Takeuchi-Saito (1972, eq. 95/99) wavenumbers: the repository's Takeuchi family evaluates
    phi/psi by a 5-term series in z = k^2 r^2 ("limiting version", see common.pyx), i.e. it is exact only for small |z|."""
    gamma = 4.0 * math.pi * G * rho / 3.0
    ll1 = l * (l + 1.0)
    if typ == 'liquid':
        a2 = K / rho
        k2 = (w * w + 4.0 * gamma - ll1 * gamma ** 2 / (w * w)) / a2
        return abs(k2) * r * r
    w2 = 0.0 if static else w * w
    lam = K - 2.0 * mu / 3.0
    a2 = (lam + 2.0 * mu) / rho
    b2 = mu / rho
    t1 = w2 / b2
    t2 = (w2 + 4.0 * gamma) / a2
    root = ((t1 - t2) ** 2 + 4.0 * ll1 * gamma ** 2 / (a2 * b2)) ** 0.5
    return max(abs(0.5 * (t1 + t2 + root)), abs(0.5 * (t1 + t2 - root))) * r * r


# ---- vector level ---------------------------------------------------------------------------------------------------

def _start(kind, family, w, r, rho, K, mu, l):
    from TidalPy.RadialSolver.starting.driver import find_starting_conditions
    typ, static, incomp, _ = CORE_KINDS[kind]
    nsol, nys = (3, 6) if typ == 'solid' else ((1, 2) if static else (2, 4))
    out = np.full((nsol, nys), np.nan + 0j, dtype=np.complex128)
    find_starting_conditions(0 if typ == 'solid' else 1, int(static), int(incomp), family == 'kamata', w, r, rho, K,
                             0j if typ == 'liquid' else mu, l, G, out, True)
    return out


def _matrix(kind, r, l, rho, mu, K, w):
    typ, static, incomp, _ = CORE_KINDS[kind]
    if typ == 'solid':
        return ts72.solid_matrix(r, l, rho, mu, K, 0.0 if static else w, G, incompressible=incomp)
    if static:
        return ts72.liquid_static_matrix(r, l, rho, G)
    return ts72.liquid_dynamic_matrix(r, l, rho, K, w, G, incompressible=incomp)


def _scale_rows(A, V, dV):
    return np.abs(A) @ np.abs(V) + np.abs(dV)


def _span_residual(V, dV, A):
    """V: (num_ys, num_sols) starting vectors as columns.  If V = S M(r) with S exact solutions and M any
    r-dependent mixing/normalisation, then E = V' - A V = V (M^-1 M') lies in the column span of V.  Returns the
    row-wise relative residual of the least-squares fit E ~ V C (rows and columns equilibrated)."""
    E = dV - A @ V
    scale = _scale_rows(A, V, dV)
    scale = np.where(scale > 0, scale, 1.0)
    R = np.empty(E.shape, dtype=float)
    for j in range(E.shape[1]):
        W = V / scale[:, j:j + 1]                    # rows weighted by the scale this column is judged against
        cn = np.max(np.abs(W), axis=0)
        cn[cn == 0] = 1.0
        Cj = np.linalg.lstsq(W / cn[None, :], E[:, j] / scale[:, j], rcond=1e-14)[0]
        R[:, j] = np.abs(E[:, j] / scale[:, j] - (W / cn[None, :]) @ Cj)
    return R


def _individual_residual(y, dy, A, rows_for_c):
    """e = y' - A y minus c y, with c the component-wise median of e_i / y_i over rows_for_c."""
    e = dy - A @ y
    scale = np.abs(A) @ np.abs(y) + np.abs(dy)
    ratios = np.array([e[i] / y[i] for i in rows_for_c if y[i] != 0])
    c = complex(np.median(ratios.real), np.median(ratios.imag)) if ratios.size else 0j
    return np.abs(e - c * y) / np.where(scale > 0, scale, 1.0)


def _evaluate_vector(case):
    kind, fam = case['layer'], case['family']
    typ, static, incomp, fams = CORE_KINDS[kind]
    if fams == ('saito',):
        fam_eff = 'saito'
    else:
        fam_eff = fam if fam in fams else fams[0]
    l = int(case['l'])
    r = 10.0 ** case['logr']
    rho = 10.0 ** case['logrho']
    mu = 10.0 ** case['logmu'] * complex(math.cos(case['argmu']), math.sin(case['argmu']))
    K = 10.0 ** case['logK']
    w = 10.0 ** case['logw']
    labels = ['vector', 'layer:' + kind, 'family:' + fam_eff, 'l:%d' % l]
    zs = ts72_z(typ, static, l, r, rho, mu, K, w) if not (typ == 'liquid' and static) else [0.0]
    # cf_z_calc switches from a Taylor series to the Bessel ratio at |x^2| = 0.1
    zbranch = 'taylor_upper' if any(0.01 < z <= 0.1 for z in zs) else ('taylor_lower' if all(z <= 0.01 for z in zs) else 'bessel')
    labels.append('z_calc:' + zbranch)
    regime = 'n/a'
    if fam_eff == 'kamata':
        regime = zbranch
    if fam_eff == 'takeuchi':
        regime = 'large_z' if takeuchi_zmax(typ, static, l, r, rho, mu, K, w) > Z_LIMIT else 'small_z'
        labels.append('takeuchi:' + regime)
    # finite-difference step: 1e-3 in r/r, reduced when the argument x = sqrt|k^2| r of the Bessel ratio is large (the
    # vectors oscillate with x); beyond x = 30 the ratio x j_{l+1}(x)/j_l(x) has closely spaced poles and a finite
    # difference cannot decide the case (discarded, counted)
    xmax = max(zs) ** 0.5 if zs else 0.0
    if xmax > 30.0:
        return discard('bessel_argument_too_large_for_fd', labels)
    h = 1e-3 / max(1.0, xmax)
    with repo_call('find_starting_conditions'):
        ys = {s: _start(kind, fam_eff, w, r * (1.0 + s * h), rho, K, mu, l) for s in (-2, -1, 0, 1, 2)}
    y0 = ys[0]
    if not np.all(np.isfinite(y0.view(float))):
        return discard('nonfinite_start_vector', labels)
    dy = (ys[-2] - 8.0 * ys[-1] + 8.0 * ys[1] - ys[2]) / (12.0 * h * r)
    A = _matrix(kind, r, l, rho, mu, K, w)
    c = Collector(labels, nontrivial=True)
    layer = 'solid' if typ == 'solid' else 'liquid'
    names = ('y1', 'y2', 'y3', 'y4', 'y5', 'y6') if typ == 'solid' else (('y5', 'y7') if static else ('y1', 'y2', 'y5', 'y6'))
    R = _span_residual(y0.T, dy.T, A)
    if np.all(R <= VEC_TOL):
        return c.result()
    # Above the tolerance: truncation error of the 5-point stencil (h^4 y^(5); large next to a zero of j_l, where the
    # vectors' derivatives blow up - thorough tier: 1.02e-6 at x = 5.73, j_2 vanishes at 5.76) or a vector that is not a
    # solution?  Repeat with half the step: a truncation error drops 16x, a genuine residual stays.  The half-step residual is
    # judged, and the change between the two steps (an estimate of the remaining truncation error) is added to the tolerance.
    with repo_call('find_starting_conditions'):
        yh = {s_: _start(kind, fam_eff, w, r * (1.0 + s_ * 0.5 * h), rho, K, mu, l) for s_ in (-2, -1, 1, 2)}
    dy2 = (yh[-2] - 8.0 * yh[-1] + 8.0 * yh[1] - yh[2]) / (12.0 * 0.5 * h * r)
    R2 = _span_residual(y0.T, dy2.T, A)
    c.label('vector:step_halved')
    if np.all(R2 <= VEC_TOL + 0.2 * np.abs(R - R2)):
        return c.result()
    R, dy = R2, dy2
    info = 'kind=%s family=%s l=%d r=%.6g rho=%.6g mu=%r K=%.6g w=%.6g; span residual (rows x solutions)=%s' % (
        kind, fam_eff, l, r, rho, mu, K, w, np.array2string(R, precision=2))
    # ---- diagnosis: is the damage confined to the y6 component of solid solutions 0 and 1? ------------------
    if typ == 'solid':
        bad = []
        for si in range(3):
            rel = _individual_residual(y0[si], dy[si], A, rows_for_c=(0, 2, 3))
            bad += [(si, names[i]) for i in range(6) if rel[i] > VEC_TOL]
        # y6 enters rows y2 (-rho y6), y5 (+y6) and y6 (its own derivative): that is the footprint of a wrong y6
        if bad and all(si in (0, 1) and nm in ('y2', 'y5', 'y6') for si, nm in bad):
            c.fail({'level': 'vector', 'family': fam_eff, 'layer': 'solid', 'component': 'y6', 'solutions': '0,1', 'regime': regime},
                   'rows %r violate y\' = A y + c y while rows y1, y3, y4 hold: footprint of a wrong y6 in solutions 0/1; %s' % (bad, info))
            return c.result()
        c.fail({'level': 'vector', 'family': fam_eff, 'layer': 'solid', 'component': 'other', 'regime': regime},
               'individual-residual failures %r; %s' % (bad, info))
        return c.result()
    worst = np.unravel_index(int(np.argmax(R)), R.shape)
    c.fail({'level': 'vector', 'family': fam_eff, 'layer': layer, 'component': names[worst[0]], 'regime': regime}, info)
    return c.result()


# ---- solver level ---------------------------------------------------------------------------------------------------

def _planet(case, r0, family):
    typ, static, incomp, fams = CORE_KINDS[case['core']]
    R = 10.0 ** case['logR']
    rho_c = 10.0 ** case['logrho']
    n_above = int(case['n_above'])
    if typ == 'liquid' and n_above == 0:
        n_above = 1                                      # a liquid planet has no Love numbers h, l: put a solid shell on it
    mu = 10.0 ** case['logmu']
    a = case['argmu']
    K = 10.0 ** case['logK']
    top = 1.0 if n_above == 0 else float(case['core_top'])
    r0max = 10.0 ** max(case['logr0a'], case['logr0b'])
    r0max = min(r0max, 0.8 * top)
    rc_frac = min(1.05 * r0max, 0.9 * top)
    shared = np.linspace(rc_frac, top, 40)
    lead = np.linspace(r0, rc_frac, 6)[:-1]
    layers = [{'type': typ, 'static': static, 'incomp': incomp, 'top_frac': top, 'rho': rho_c,
               'mu': [mu * math.cos(a), mu * math.sin(a)], 'K': K, 'n': 0, 'r_fracs': np.concatenate((lead, shared)).tolist()}]
    for j in range(n_above):
        t = top + (1.0 - top) * (j + 1) / n_above
        layers.append({'type': 'solid', 'static': static if typ == 'solid' else True, 'incomp': False, 'top_frac': t,
                       'rho': rho_c * 0.8 ** (j + 1), 'mu': [0.7 * mu * math.cos(a), 0.7 * mu * math.sin(a)], 'K': K, 'n': 25})
    gR = 4.0 / 3.0 * math.pi * G * rho_c * R
    freq = math.sqrt(10.0 ** case['logw2'] * gR / R)
    spec = {'R': R, 'r0_frac': r0, 'l': int(case['l']), 'frequency': freq, 'layers': layers,
            'opts': {'use_kamata': family != 'takeuchi', 'method': 'DOP853', 'rtol': 1e-9, 'atol': 1e-14,
                     'nondim': bool(case['nondim']), 'solve_for': ['tidal'], 'max_num_steps': 100000}}
    return spec, lead.size


def _run(spec):
    s1, A = rc.solve(spec)
    s2, _ = rc.solve(spec, rtol=1e-11, atol=1e-16)
    if not (s1.success and s2.success):
        return None
    L1, L2 = np.array(s1.love)[0], np.array(s2.love)[0]
    R1, R2 = np.array(s1.result), np.array(s2.result)
    d = float(np.max(np.abs(L1 - L2)))
    if not np.isfinite(d) or d > 1e-5:
        return None
    bidx = []
    for st_, ct_ in zip(A['starts'], A['counts']):
        if st_ > 0:
            bidx.append(st_)
        bidx.append(st_ + ct_ - 1)
    return {'love': L2, 'rows': R2, 'delta': d, 'rows_base': R1, 'bidx': bidx}


def _evaluate_solver(case):
    typ, static, incomp, fams = CORE_KINDS[case['core']]
    labels = ['solver', 'core:' + case['core'], 'l:%d' % case['l'], 'above:%d' % case['n_above'], 'compare:' + case['compare']]
    top_limit = 0.8 * (1.0 if (case['n_above'] == 0 and typ == 'solid') else case['core_top'])
    r0a = min(10.0 ** case['logr0a'], top_limit)
    r0b = min(10.0 ** case['logr0b'], top_limit)
    forced = case.get('force_family')
    if case['compare'] == 'family' and len(fams) == 2 and not forced:
        runs = [(r0a, 'kamata'), (r0a, 'takeuchi')]
    else:
        fam = forced or fams[0]
        if case['compare'] == 'family':
            labels[-1] = 'compare:radius'
        if abs(math.log10(r0a / r0b)) < 0.05:
            return discard('equal_radii', labels)
        runs = [(r0a, fam), (r0b, fam)]
    res = []
    with repo_call('radial_solver'):
        for r0, fam in runs:
            spec, nlead = _planet(case, r0, fam)
            out = _run(spec)
            if out is None:
                return discard('solver_failed_or_unconverged', labels + ['family:' + fam])
            out['nlead'] = nlead
            res.append(out)
    fam_sig = 'takeuchi' if any(f == 'takeuchi' for _, f in runs) else runs[0][1]
    regime, r0_class = 'n/a', 'n/a'
    if fam_sig == 'takeuchi':
        r0t = max(r0 for r0, f in runs if f == 'takeuchi')
        R_ = 10.0 ** case['logR']
        rho_c = 10.0 ** case['logrho']
        mu_c = 10.0 ** case['logmu'] * complex(math.cos(case['argmu']), math.sin(case['argmu']))
        wf = math.sqrt(10.0 ** case['logw2'] * 4.0 / 3.0 * math.pi * G * rho_c)
        regime = 'large_z' if takeuchi_zmax(typ, static, int(case['l']), r0t * R_, rho_c, mu_c, 10.0 ** case['logK'], wf) > Z_LIMIT else 'small_z'
        r0_class = 'small_r0' if r0t <= 0.03 else 'large_r0'
        labels.append('takeuchi:' + regime)
    c = Collector(labels + ['family:' + f for _, f in runs], nontrivial=(runs[0][1] != runs[1][1]) or max(r0a, r0b) / min(r0a, r0b) > 2)
    tol = 1e-6 + 3.0 * (res[0]['delta'] + res[1]['delta'])
    d = float(np.max(np.abs(res[0]['love'] - res[1]['love'])))
    core_layer = 'solid' if typ == 'solid' else 'liquid'
    c.check(d <= tol, {'level': 'solver', 'family': fam_sig, 'core': core_layer, 'what': 'love', 'regime': regime, 'r0': r0_class},
            'runs %r: love %r vs %r |diff| %.3e tol %.3e' % (runs, res[0]['love'].tolist(), res[1]['love'].tolist(), d, tol))
    a, b = res
    # Rows are compared at the slices where the solver's values are end points of an integration (last slice of the
    # core, first and last slice of every layer above).  Interior slices are filled by the integrator's dense output
    # (linear interpolation between adaptive steps in CyRK 0.9: error ~ l^2 (dr/r)^2 / 8, independent of rtol), whose
    # step positions depend on r0 - that is interpolation accuracy, not start-radius dependence of the solution.
    idx_a, idx_b = a['bidx'], b['bidx']
    for row in range(6):
        for ia, ib in zip(idx_a, idx_b):
            va, vb = a['rows'][row, ia], b['rows'][row, ib]
            if not (np.isfinite(va) and np.isfinite(vb)):
                continue
            sc = float(np.nanmax(np.abs(a['rows'][row, a['nlead']:])))
            lim = 1e-6 * sc + 10.0 * (abs(va - a['rows_base'][row, ia]) + abs(vb - b['rows_base'][row, ib]))
            dd = abs(va - vb)
            c.check(dd <= lim, {'level': 'solver', 'family': fam_sig, 'core': core_layer, 'what': 'rows', 'regime': regime, 'r0': r0_class},
                    'runs %r: row y%d at boundary slice %d differs by %.3e (scale %.3e, limit %.3e)' % (runs, row + 1, ia, dd, sc, lim))
    return c.result()


# ---- ODE consistency (is oracles/ts72 the system the solver integrates?) -----------------------------------------------

def _evaluate_ode(case):
    kind = case['layer']
    typ, static, incomp, fams = CORE_KINDS[kind]
    # benign parameter window: the comparison propagates the solver's *collapsed* solution as an initial-value problem, which
    # amplifies rounding wherever the system has strongly growing modes (high degree, large w^2 R / g, large bodies)
    l = 2 + int(case['l']) % 2
    R = 10.0 ** (5.5 + 1.3 * (case['logr'] - 2.0) / 4.8)
    rho = 10.0 ** case['logrho']
    mu = 10.0 ** case['logmu'] * complex(math.cos(case['argmu']), math.sin(case['argmu']))
    K = 10.0 ** case['logK']
    w = 10.0 ** (-6.0 + 1.7 * (case['logw'] + 7.0) / 6.0)
    labels = ['ode_consistency', 'layer:' + kind]
    if typ != 'solid':
        return discard('ode_consistency_only_for_solid_planets', labels)
    fr = np.linspace(0.3, 1.0, 60)
    spec = {'R': R, 'r0_frac': 0.3, 'l': l, 'frequency': w,
            'layers': [{'type': typ, 'static': static, 'incomp': incomp, 'top_frac': 1.0, 'rho': rho, 'mu': [mu.real, mu.imag],
                        'K': K, 'n': 0, 'r_fracs': fr.tolist()}],
            'opts': {'use_kamata': True, 'method': 'DOP853', 'rtol': 1e-11, 'atol': 1e-16, 'nondim': True, 'solve_for': ['tidal']}}
    with repo_call('radial_solver'):
        sol, A = rc.solve(spec)
        solb, _ = rc.solve(spec, rtol=1e-9, atol=1e-14)
    if not (sol.success and solb.success):
        return discard('solver_failed', labels)
    y = np.array(sol.result)
    noise = np.abs(y[:, -1] - np.array(solb.result)[:, -1])
    r = A['radius']
    # The first and last slice hold end points of the solver's own integration (interior slices are interpolated);
    # propagate y(r0) with the literature matrix and an independent integrator and compare at R.
    from scipy.integrate import solve_ivp
    scale_y = np.max(np.abs(y), axis=1)
    scale_y[scale_y == 0] = 1.0

    def rhs(x, z):
        M = ts72.solid_matrix(x, l, rho, mu, K, 0.0 if static else w, G, incompressible=incomp)
        return (M @ (z * scale_y)) / scale_y
    out = solve_ivp(rhs, (r[0], r[-1]), (y[:, 0] / scale_y).astype(complex), method='DOP853', rtol=1e-11, atol=1e-14)
    if not out.success:
        return discard('oracle_integration_failed', labels)
    yR = out.y[:, -1] * scale_y
    # conditioning of the propagation itself: the solver solves a boundary-value problem, the oracle an initial-value problem
    # whose growing modes amplify any difference in y(r0) (soft, dense, large bodies: factor 1e5 and more).  Propagate the
    # start values of the looser solve as well; where the two propagated end values differ by more than 1e-5 of the row scale
    # the comparison cannot decide anything (discarded, counted), otherwise that difference joins the tolerance.
    yb = np.array(solb.result)
    outb = solve_ivp(rhs, (r[0], r[-1]), (yb[:, 0] / scale_y).astype(complex), method='DOP853', rtol=1e-11, atol=1e-14)
    if not outb.success:
        return discard('oracle_integration_failed', labels)
    amp = np.abs(outb.y[:, -1] * scale_y - yR)
    if not np.all(np.isfinite(amp)) or float(np.max(amp / scale_y)) > 1e-5:
        return discard('ode_consistency_ivp_ill_conditioned', labels)
    noise = noise + amp
    c = Collector(labels, nontrivial=True)
    for ci in range(6):
        rel = abs(yR[ci] - y[ci, -1]) / scale_y[ci]
        c.check(rel <= 1e-4 + 30.0 * noise[ci] / scale_y[ci], {'level': 'ode_consistency', 'layer': kind, 'row': 'y%d' % (ci + 1)},
                'y%d(R): solver %r, literature ODE propagated from the solver\'s y(r0) %r, rel. diff %.3e (R=%.4g l=%d w=%.3g)'
                % (ci + 1, complex(y[ci, -1]), complex(yR[ci]), rel, R, l, w))
    return c.result()


def evaluate(case):
    if case['kind'] == 'solver':
        return _evaluate_solver(case)
    if case.get('ode'):
        return _evaluate_ode(case)
    return _evaluate_vector(case)


def selftest():
    ts72.selftest()
