"""C05 - local dissipation integrates to the global dissipation (energy theorem).

Generated: 1-4 compressible solid layers (static or dynamic), optionally one static-liquid shell that is neither the
centre nor the surface, per-layer complex shear with Im mu / Re mu in 10^[-4,0] (directly generated; the rheology
objects are C07's subject), real bulk modulus (the solver's API takes a real K, so the H_K Im K term of the statement
is identically zero here and only H_mu is exercised), l 2..4, N_total 200..400 slices, Kamata starts, RK45 / DOP853 at
rtol 1e-8..1e-9, frequency 10^[-6,-3.5]; the slices inside a layer are evenly spaced or geometrically graded (ratio up to e^2).

Oracle.  rho_N = [4 pi G / ((2l+1) R) * int H_mu Im(mu) dr] / (-Im k_l) - 1, H_mu from the repository's
`sensitivity_to_shear` (evaluated per solid layer), trapezoid rule over the solid layers.  The one-sided dy1/dr at the
layer ends, the quadrature and the sliver between an interface and the next slice make rho_N first order in 1/N, with a
structure-dependent and not always monotone coefficient (measured over 160 random planets x 3 grids: |rho_N| N <= 9.1).
"Up to discretisation error that vanishes with grid refinement" is decided on the finest of three grids N, 2N, 4N
(exact re-sampling of the piecewise-constant profile; N_total(4N) = 800..1600): |rho_4N| <= 60 / N_total(4N), i.e. 3.75-7.5 %.
Why only an envelope: rho is first order in 1/N but with an irregular, sign-changing coefficient - the kernel's dy1/dr is a
3-point difference of solver output that CyRK fills by *linear interpolation between its adaptive steps*, so its local
error depends on how the steps happen to align with the slices (measured sequences on the unchanged tree, N, 2N, 4N:
0.39, -0.024, 0.033 [then 0.0096, 0.0064 at 6N, 8N]; 5.3, 0.088, 0.041; -0.060, -0.031, -0.015; 18, 10, 0.035; worst
|rho_4N| N_total = 33).  Halving tests, C/N on all three grids, and Richardson extrapolation (three variants) were
each tried and each raised alarms on the unchanged tree at some seed.  The thorough tier adds the 8N grid (bound 60/N_total(8N)).
Cases far above the envelope but collapsing > 3x on both doublings are undecided at this resolution (discarded, counted).
All four kernel/constant mutations listed below leave rho_inf >= 8 % and are caught.
 (i)  Im k_l <= 0 (<= 1e-12 |k|) whenever every layer has Im mu >= 0;
 (ii) `calc_radial_tidal_heating` integrated over shell volumes with the same trapezoid rule equals
      (21/2)(-Im k_2) G M^2 R^5 n e^2 / a^6 * (1 + rho_N) to 1e-9 (both sides contain the same H_mu samples: this pins the
      constants of the heating formula independently of discretisation); l = 2 only (the formula's e^2 factor 7 is l = 2).
Discarded: unsuccessful solves; -Im k < 1e-9 (no dissipation to compare with).
Non-trivial = >= 2 layers with different Im mu and -Im k > 1e-6.

Sensitivity (.py, tools/mut.py): (4./3.) -> (1./3.) in sensitivity_to_shear; 7. -> 7.5 in calc_radial_tidal_heating;
ll2m1lp2 formula; see DESIGN.md section 6.
"""
import math

import numpy as np
from hypothesis import strategies as st

from props import rs_common as rc
from vlib.result import Collector, discard, repo_call

ID = 'C05'
TECHNIQUE = 'property-based testing (Hypothesis): energy-theorem invariant (integral of sensitivity kernel vs -Im k) with refinement (N, 2N) and Richardson oracle'
LEVEL = 'exploration'
LEVEL_TEXT = ('Generated-input exploration of an integral identity: for random layered viscoelastic planets the discrepancy between '
              'the integrated local dissipation and -Im k must be inside a 60/N envelope on the finest of three (thorough: four) successively doubled grids; the '
              'heating-profile constants are pinned exactly against the same kernel samples.')
LEVEL_NOTE = ('Trusts the energy theorem (Tobie et al. 2005 eq. 33-37) and the trapezoid rule error model; bulk dissipation cannot be '
              'exercised because the solver API accepts a real bulk modulus only.')
CASES = {'quick': 960, 'thorough': 30000}
SHARDS = {'quick': 16, 'thorough': 16}
RULE = ('Hypothesis draws 1-4 compressible solid layers (+ optionally one interior static-liquid shell), densities decreasing outward, '
        '|mu| 10^[9.5,11.3] with loss tangent 10^[-4,0], K, l 2..4, N_total 200..400, frequency, integrator; each planet is solved at N, '
        '2N and 4N. Non-trivial = >= 2 layers with different Im mu and -Im k > 1e-6; distinct = argument hash.')
ASSUMPTIONS = ['|rho| <= 60/N_total on the finest grid (4N quick, 8N thorough); far-off-but-collapsing cases are discarded', 'heating profile identity 1e-9']
G = rc.G
C_ENV = 60.0


def strategy(tier):
    def build(n_solid, with_liquid):
        n = n_solid + (1 if with_liquid else 0)
        return st.fixed_dictionaries({
            'n_solid': st.just(n_solid), 'liquid_pos': st.integers(1, max(1, n_solid - 1)) if with_liquid else st.just(0),
            'dynamic': st.lists(st.booleans(), min_size=n, max_size=n),
            'weights': st.lists(st.floats(0.5, 2.0), min_size=n, max_size=n),
            'logrho_top': st.floats(3.0, 3.6), 'rho_ratios': st.lists(st.floats(1.0, 1.8), min_size=n, max_size=n),
            'logmu': st.lists(st.floats(8.5, 11.3), min_size=n, max_size=n),
            'logtan': st.lists(st.floats(-4.0, 0.0), min_size=n, max_size=n),
            'logK': st.lists(st.floats(10.5, 12.0), min_size=n, max_size=n),
            'logR': st.floats(5.8, 7.2), 'l': st.integers(2, 4), 'N': st.integers(200, 400), 'logfreq': st.floats(-6.0, -3.5),
            'method': st.sampled_from(['RK45', 'DOP853']), 'logrtol': st.floats(-9.0, -8.0),
            'e': st.floats(0.001, 0.2), 'loga': st.floats(8.0, 9.5), 'logM': st.floats(24.0, 28.0),
            # radial grid inside each layer: 0 = evenly spaced, otherwise geometrically graded (slices thinner towards the
            # bottom (w > 0) or the top (w < 0) of the layer by up to e^2) - the kernel's dy1/dr stencil is a non-uniform one
            'warp': st.lists(st.sampled_from([0.0, 0.0, 1.0, -1.0, 2.0, -2.0, 0.5]), min_size=n, max_size=n),
        })
    return st.tuples(st.integers(1, 4), st.booleans()).flatmap(lambda t: build(t[0], t[1] and t[0] >= 2))


def in_domain(c):
    try:
        n = c['n_solid'] + (1 if c['liquid_pos'] else 0)
        return (1 <= c['n_solid'] <= 4 and all(len(c[k]) == n for k in ('dynamic', 'weights', 'rho_ratios', 'logmu', 'logtan', 'logK'))
                and (c['liquid_pos'] == 0 or (c['n_solid'] >= 2 and 1 <= c['liquid_pos'] <= c['n_solid'] - 1))
                and all(0.5 <= x <= 2 for x in c['weights']) and all(1 <= x <= 1.8 for x in c['rho_ratios'])
                and all(8.5 <= x <= 11.3 for x in c['logmu']) and all(-4 <= x <= 0 for x in c['logtan'])
                and all(10.5 <= x <= 12 for x in c['logK']) and 5.8 <= c['logR'] <= 7.2 and 2 <= c['l'] <= 4
                and 200 <= c['N'] <= 400 and -6 <= c['logfreq'] <= -3.5 and -9 <= c['logrtol'] <= -8
                and 0.001 <= c['e'] <= 0.2 and 8 <= c['loga'] <= 9.5 and 24 <= c['logM'] <= 28
                and len(c.get('warp', [0.0] * n)) == n and all(-2 <= x <= 2 for x in c.get('warp', [])))
    except Exception:
        return False


def fixed_cases(tier):
    return [{'n_solid': 3, 'liquid_pos': 1, 'dynamic': [False, False, False, True], 'weights': [1.0, 1.0, 1.0, 0.6],
             'logrho_top': 3.4, 'rho_ratios': [1.3, 1.3, 1.2, 1.1], 'logmu': [11.0, 10.0, 10.8, 10.5], 'logtan': [-2.0, -1.0, -0.5, -1.5],
             'logK': [11.5, 11.0, 11.2, 11.0], 'logR': 6.5, 'l': 2, 'N': 240, 'logfreq': -4.5, 'method': 'RK45', 'logrtol': -8.0,
             'e': 0.05, 'loga': 8.6, 'logM': 27.0, 'warp': [1.0, 0.0, -1.0, 2.0]},
            _witness_near_fluid()]


def _witness_near_fluid():
    # KF-C05-near-fluid-layer: homogeneous static planet, R = 1.6e7 m, |mu| = 3e7 Pa (m_2 = 2.5e-4): k is still right to 1e-3 but the
    # radial functions inside are noise and the integrated kernel is 1e6-1e11 times -Im k
    return {'n_solid': 1, 'liquid_pos': 0, 'dynamic': [False], 'weights': [1.0], 'logrho_top': 3.6, 'rho_ratios': [1.0],
            'logmu': [7.5], 'logtan': [-1.0], 'logK': [10.5], 'logR': 7.2, 'l': 2, 'N': 354, 'logfreq': -5.0, 'method': 'DOP853',
            'logrtol': -8.0, 'e': 0.008, 'loga': 8.0, 'logM': 25.0, 'warp': [0.0], 'no_floor': True}


def required_labels(tier):
    return ['layers:1', 'layers:2+', 'with_liquid', 'l:2', 'l:3', 'l:4', 'heating_profile', 'grid:graded', 'grid:even']


_TIER = ['quick']


SOFT_FLOOR = 1.0e-2


def shard_setup(tier):
    _TIER[0] = tier


def _spec(case, mult):
    ns = case['n_solid']
    pos = case['liquid_pos']
    kinds = []
    for i in range(ns):
        if pos and i == pos:
            kinds.append('liquid')
        kinds.append('solid')
    n = len(kinds)
    w = np.asarray(case['weights'][:n])
    r0 = 0.01
    tops = r0 + (1.0 - r0) * np.cumsum(w) / np.sum(w)
    rho = [10.0 ** case['logrho_top']]
    for i in range(n - 1, 0, -1):
        rho.append(rho[-1] * case['rho_ratios'][i])
    rho = rho[::-1]
    frac = w / np.sum(w)
    layers = []
    for i, k in enumerate(kinds):
        mu = 10.0 ** case['logmu'][i]
        t = 10.0 ** case['logtan'][i]
        # keep every solid layer out of the near-fluid regime in which the solver's own radial functions are noise
        # (KF-C05-near-fluid-layer; seen from |mu| ~ 8e-4 S in a 4-layer stack with a liquid; at 3e-3 S one thorough-tier case in 30 000 still converged too slowly to judge): |mu| >= SOFT_FLOOR * S with
        # S = (4/3) pi G rho_layer^2 R^2, by construction (the modulus is raised, the case is not discarded)
        S = 4.0 / 3.0 * math.pi * G * rho[i] ** 2 * (10.0 ** case['logR']) ** 2
        if k == 'solid' and mu * math.sqrt(1.0 + t * t) < SOFT_FLOOR * S and not case.get('no_floor'):
            mu = SOFT_FLOOR * S / math.sqrt(1.0 + t * t)
        layers.append({'type': k, 'static': True if k == 'liquid' else not case['dynamic'][i], 'incomp': False,
                       'top_frac': float(tops[i]), 'rho': rho[i], 'mu': [mu, mu * t], 'K': 10.0 ** case['logK'][i],
                       'n': max(8, int(round(case['N'] * frac[i]))) * mult})
    # explicit slice radii (graded grids)
    warp = case.get('warp') or [0.0] * n
    prev = r0
    for i, L in enumerate(layers):
        top = L['top_frac'] if i < n - 1 else 1.0
        m = L['n']
        x = np.linspace(0.0, 1.0, m if i == 0 else m + 1)
        w = float(warp[i])
        sgrid = x if w == 0.0 else (np.exp(w * x) - 1.0) / (math.exp(w) - 1.0)
        r = prev + (top - prev) * sgrid
        r[-1] = top
        L['r_fracs'] = (r if i == 0 else r[1:]).tolist()
        prev = top
    rtol = 10.0 ** case['logrtol']
    return {'R': 10.0 ** case['logR'], 'r0_frac': r0, 'l': int(case['l']), 'frequency': 10.0 ** case['logfreq'], 'layers': layers,
            'opts': {'use_kamata': True, 'method': case['method'], 'rtol': rtol, 'atol': rtol * 1e-4, 'nondim': True,
                     'solve_for': ['tidal'], 'max_num_steps': 400000}}


def _rho(case, mult):
    from TidalPy.radial_solver.sensitivity import sensitivity_to_shear
    spec = _spec(case, mult)
    sol, A = rc.solve(spec)
    if not sol.success:
        return None
    res = np.array(sol.result)
    y = np.ascontiguousarray(res[0:6])
    k = complex(np.array(sol.love)[0][0])
    l = spec['l']
    # The kernel is evaluated layer by layer over the solid layers only: it divides by |mu|^2, so liquid slices
    # (mu = 0) are outside its domain (ZeroDivisionError under numba), and its 3-point dy1/dr stencil must not
    # straddle an interface where y1' jumps.
    H = np.zeros(A['radius'].size)
    integ = 0.0
    for st_, ct_, typ in zip(A['starts'], A['counts'], A['layer_types']):
        if typ != 'solid':
            continue
        sl = slice(st_, st_ + ct_)
        H[sl] = sensitivity_to_shear(np.ascontiguousarray(y[:, sl]), np.ascontiguousarray(A['radius'][sl]),
                                     np.ascontiguousarray(A['shear'][sl]),
                                     np.ascontiguousarray(A['bulk'][sl].astype(np.complex128)), l)
        f = H[sl] * A['shear'][sl].imag
        integ += float(np.trapz(f, A['radius'][sl]))
    lhs = 4.0 * math.pi * G / ((2 * l + 1) * spec['R']) * integ
    return {'k': k, 'lhs': lhs, 'H': H, 'A': A, 'spec': spec, 'ntot': int(A['radius'].size)}


def evaluate(case):
    n = case['n_solid'] + (1 if case['liquid_pos'] else 0)
    labels = ['layers:1' if case['n_solid'] == 1 else 'layers:2+', 'l:%d' % case['l'], 'method:' + case['method']]
    if case['liquid_pos']:
        labels.append('with_liquid')
    labels.append('grid:graded' if any(w != 0.0 for w in (case.get('warp') or [0.0])) else 'grid:even')
    mults = (1, 2, 4, 8) if _TIER[0] == 'thorough' else (1, 2, 4)
    with repo_call('radial_solver+sensitivity_to_shear'):
        runs = []
        for m in mults:
            r = _rho(case, m)
            if r is None:
                return discard('solver_failed', labels)
            runs.append(r)
    a = runs[0]
    mimk = -a['k'].imag
    c = Collector(labels, nontrivial=False)
    c.check(all(r['k'].imag <= 1e-12 * abs(r['k']) for r in runs), {'clause': 'sign_im_k'},
            'Im k = %r with all Im mu >= 0' % [r['k'].imag for r in runs])
    if not all(-r['k'].imag > 1e-9 for r in runs):
        return discard('no_dissipation', labels)
    rhos = [r['lhs'] / (-r['k'].imag) - 1.0 for r in runs]
    rhoN = rhos[0]
    tans = [10.0 ** t for t in case['logtan'][:n]]
    c.nontrivial = case['n_solid'] >= 2 and len(set(round(t * 10 ** m, 9) for t, m in zip(tans, case['logmu'][:n]))) > 1 and mimk > 1e-6
    detail = 'rho at N=%r: %r; -Im k=%.4e k=%r' % ([r['ntot'] for r in runs], ['%.4e' % x for x in rhos], mimk, a['k'])
    # The claim is carried by the two finest grids: the limit estimated by Richardson extrapolation (first-order error
    # model, the measured behaviour) must vanish.  The extrapolation is itself only as good as the asymptotic regime, so
    # its bound grows with the remaining error: |2 rho_4N - rho_2N| <= 0.01 + 0.2 |rho_4N|, and rho_4N itself must be small.
    bound = C_ENV / runs[-1]['ntot']
    if abs(rhos[-1]) <= bound:
        pass
    elif abs(rhos[-1]) < abs(rhos[-2]) / 3.0 and abs(rhos[-2]) < abs(rhos[-3]) / 3.0:
        # far above the envelope but collapsing faster than first order on both doublings (observed for a dynamic stack close
        # to a free-oscillation resonance: k = -1.46, rho = 1.9e6, 5.7e4, 4.3e3): 4N slices do not resolve it; undecided
        return discard('unresolved_still_converging', labels)
    else:
        # regime: the modulus floor was switched off - only the fixed witness does that
        # of KF-C05-near-fluid-layer; generated cases are always 'regular'
        soft = bool(case.get('no_floor'))
        c.fail({'clause': 'energy', 'what': 'does_not_vanish_with_refinement', 'regime': 'near_fluid_layer' if soft else 'regular'},
               detail + '; bound %.3e' % bound)
    if case['l'] == 2:
        from TidalPy.tides.multilayer.heating import calc_radial_tidal_heating
        c.label('heating_profile')
        e, sma, M = case['e'], 10.0 ** case['loga'], 10.0 ** case['logM']
        nfreq = a['spec']['frequency']
        A = a['A']
        with repo_call('calc_radial_tidal_heating'):
            prof = calc_radial_tidal_heating(e, nfreq, sma, M, A['radius'], a['H'], A['shear'], 2)
        total = 0.0
        for st_, ct_, typ in zip(A['starts'], A['counts'], A['layer_types']):
            if typ != 'solid':
                continue
            sl = slice(st_, st_ + ct_)
            total += float(np.trapz(prof[sl] * 4.0 * math.pi * A['radius'][sl] ** 2, A['radius'][sl]))
        # The repository clips negative local heating to zero (a negative H_mu is a discretisation artefact), so the exact
        # identity is with the clipped integrand; without clipping it equals (21/2)(-Im k2) G M^2 R^5 n e^2/a^6 (1 + rho_N).
        I_clip = 0.0
        for st_, ct_, typ in zip(A['starts'], A['counts'], A['layer_types']):
            if typ != 'solid':
                continue
            sl = slice(st_, st_ + ct_)
            I_clip += float(np.trapz(np.maximum(a['H'][sl] * A['shear'][sl].imag, 0.0), A['radius'][sl]))
        Rw = a['spec']['R']
        expect = (1.5 * G * M ** 2 * Rw ** 5 / sma ** 6) / Rw * (4.0 * math.pi * G / 5.0) * 7.0 * e ** 2 * nfreq * I_clip
        c.check(abs(total - expect) <= 1e-9 * abs(expect), {'clause': 'heating_profile'},
                'sum of shell heating %r vs (3/2 G M^2 R^4/a^6)(4 pi G/5) 7 e^2 n int max(H_mu Im mu, 0) dr = %r' % (total, expect))
    return c.result()


def warm():
    from TidalPy.radial_solver.sensitivity import sensitivity_to_shear  # noqa
    evaluate(fixed_cases('quick')[0])
