"""C06 - the radial solver is total, memory-safe and leaves its inputs intact.

Every call runs in a *worker subprocess* (props/rs_worker.py, one per shard, restarted when it dies), because the
failure mode looked for kills the interpreter.  A case = a valid generated layer stack (rs_common.stack_strategy,
*any* surface layer kind; 1-5 layers, and in one case out of five 6-64 layers) plus one malformation `mut` drawn from:
  none | tuple_len | layer_type_unknown | layer_type_case | integrator_unknown | solve_for_{list,unknown,too_many,upper,
  none,empty} | array_len | noncontiguous | dtype | few_slices_in_layer | upper_radius_mismatch | too_few_total | degree
  (0,1,2,3,7,20,60,255,256,1000) | bad_value (NaN,0,-1,+-inf,1e300,1e-300 at first/middle/last position of any array) |
  bad_scalar (frequency / bulk density) | duplicate_radii | decreasing_radii | step_budget (1,5,50) | ram_budget (max_ram_MB 1, 0) |
  rtol_extreme | atol_extreme | expected_size | max_step,  x raise_on_fail in {T,F} x nondimensionalize in {T,F}.

Oracles
 (1) totality: the worker answers with "returned" or "raised <Python exception>"; death by signal is a violation
     {clause: crash}; no answer within HANG_S = 120 s (every call carries max_num_steps <= 5e6 and normally takes < 1 s)
     is re-run once in a fresh worker and, if it repeats, reported as {clause: hang}.
 (2) failure contract: success=False => message is a non-empty str and result, love, k, h, l, sol[type] are all None, and
     the same inputs with raise_on_fail=True raise instead of returning; success=True => result shape (6 n_types, N),
     love shape (n_types, 3).
 (3) inputs intact: on every path the five caller arrays equal copies taken before the call to within 4 ulp
     (2^-52 relative; NaNs positionally).

Known findings (compiled code, cannot be rebuilt here):
 KF-C06-liquid-dynamic-surface: a dynamic liquid *surface* layer kills the interpreter (SIGSEGV / stack smashing in
   cf_apply_surface_bc: the 2x2 system is written through the pointer of the 1x1 array).  The generator still draws such
   stacks but does not execute them (counted as discarded `excluded_known_finding`); one fixed witness per run
   executes it and must die exactly this way.
 KF-C06-early-raise-inputs: solver.pyx raises for an unknown/too many `solve_for` entries and for "<= 3 slices in a
   layer" after non-dimensionalising the caller's arrays and before the try/finally that restores them: with
   nondimensionalize=True the caller's arrays come back scaled.

 KF-C06-hang-radius0: radius_array[0] in {0, NaN, -inf} never returns (observed 15 min at 100 % CPU, max_num_steps
   notwithstanding).  Not executed by the generator (counted); one witness (radius[0] = 0) runs with a 2 x 20 s wait.
 KF-C06-expected-size-1: expected_size=1 aborts with glibc "realloc(): invalid next size".
 KF-C06-range-limit-roundtrip / KF-C06-inf-roundtrip: elements near the double range limits or infinite are not
   restored by the in-place scale / unscale round trip (nondimensionalize=True).

 Thorough tier: two shards run their workers with LD_PRELOAD=libasan.so against an AddressSanitizer build of all 23
   extensions (tools/build_asan.py: shadow copy under out/, removed with it); an ASan report kills the worker
   (abort_on_error) and its kind and innermost TidalPy frame go into the failure signature - e.g. the known surface
   crash is reported as `stack-buffer-overflow in ..._cf_apply_surface_bc (boundaries.c:2718)`.  `C06_ASAN=1 ./check C06`
   forces it for every shard.

Sensitivity: generated C, tools/mut.py: the `finally` re-dimensionalisation removed; see DESIGN.md section 6.
"""
import json
import os
import select
import subprocess
import time

from hypothesis import strategies as st

from props import rs_common as rc
from vlib import env
from vlib.result import Collector, HarnessError, discard

ID = 'C06'
TECHNIQUE = 'fuzzing of the solver entry point in crash-isolated worker subprocesses: generated valid stacks x structured malformations, totality / failure-contract / input-preservation oracles'
LEVEL = 'exploration'
LEVEL_TEXT = ('Generated-input exploration with crash isolation: thousands of valid and malformed calls, each classified as '
              'returned / raised / died / hung, with the failure contract and byte-level input preservation checked on every path.')
LEVEL_NOTE = ('The compiled solver is the binary present in /repo; memory errors that neither crash nor corrupt the observed '
              'arrays are detected only in the thorough tier (two shards run an AddressSanitizer build of the generated C).')
CASES = {'quick': 1600, 'thorough': 60000}
SHARDS = {'quick': 16, 'thorough': 16}
HANG_S = 120.0
ULP_LIMIT = 4.0
RULE = ('Hypothesis draws a valid 1-5 layer stack (any surface kind) and one malformation kind with parameter, raise_on_fail and '
        'nondimensionalize. Non-trivial = the call reached the compiled solver (argument conversion succeeded: outcome returned, or '
        'raised something other than TypeError/ValueError-from-buffer-conversion); distinct = argument hash.')
ASSUMPTIONS = ['a call not answered within 120 s (normal < 1 s) and again on an isolated re-run is a hang', 'input deviation <= 4 ulp',
               'dynamic-liquid surface stacks are not executed (known crash), except the fixed witness']

MUTS = ['none', 'none', 'none', 'tuple_len', 'layer_type_unknown', 'layer_type_case', 'integrator_unknown', 'solve_for_list',
        'solve_for_unknown', 'solve_for_too_many', 'solve_for_upper', 'solve_for_none', 'solve_for_empty', 'array_len',
        'noncontiguous', 'dtype', 'few_slices_in_layer', 'upper_radius_mismatch', 'too_few_total', 'degree', 'bad_value',
        'bad_value', 'bad_value', 'bad_scalar', 'bad_scalar', 'bad_scalar', 'duplicate_radii', 'decreasing_radii', 'step_budget', 'ram_budget',
        'rtol_extreme', 'atol_extreme', 'expected_size', 'max_step']

_worker = None
_next_id = 0
_buf = b''


_ASAN = {'on': False, 'dir': None, 'errlog': None}


def shard_setup(tier):
    """Thorough tier: two of the sixteen shards run their workers against an AddressSanitizer build of the extensions
    (tools/build_asan.py, shadow copy outside /repo) so that memory errors that do not crash become visible."""
    role = os.environ.get('VERIF_CACHE_ROLE', '')
    want = os.environ.get('C06_ASAN') == '1' or (tier == 'thorough' and role[-2:] in ('00', '08'))
    if not want or _ASAN['on']:
        return
    import fcntl
    base = os.environ.get('VERIF_OUT_DIR') or os.path.join(env.VERIF, 'out')
    dest = os.path.join(base, 'asan-%s' % env.source_hash())
    os.makedirs(base, exist_ok=True)
    lock = os.open(dest + '.lock', os.O_CREAT | os.O_RDWR, 0o644)
    try:
        fcntl.flock(lock, fcntl.LOCK_EX)
        if not os.path.exists(os.path.join(dest, '.built')):
            r = subprocess.run([env.PY, os.path.join(env.VERIF, 'tools', 'build_asan.py'), dest], stdin=subprocess.DEVNULL,
                               capture_output=True, text=True, env=dict(os.environ, VERIF_REPO=env.REPO))
            if r.returncode != 0:
                raise HarnessError('ASan build failed: ' + (r.stdout + r.stderr)[-1500:])
            open(os.path.join(dest, '.built'), 'w').write('ok')
    finally:
        fcntl.flock(lock, fcntl.LOCK_UN)
        os.close(lock)
    _ASAN.update(on=True, dir=dest)


def _spawn():
    global _worker
    e = dict(os.environ)
    e['PYTHONPATH'] = env.VERIF + os.pathsep + e.get('PYTHONPATH', '')
    e['VERIF_CACHE_ROLE'] = e.get('VERIF_CACHE_ROLE', 'C06') + '-worker'
    global _buf
    _buf = b''
    err = subprocess.DEVNULL
    if _ASAN['on']:
        libasan = subprocess.run(['gcc', '-print-file-name=libasan.so'], capture_output=True, text=True).stdout.strip()
        e.update(LD_PRELOAD=libasan, ASAN_OPTIONS='detect_leaks=0:abort_on_error=1:halt_on_error=1:allocator_may_return_null=1',
                 VERIF_REPO=_ASAN['dir'])
        e['VERIF_CACHE_ROLE'] += '-asan'
        _ASAN['errlog'] = os.path.join(_ASAN['dir'], 'stderr-%d.log' % os.getpid())
        err = open(_ASAN['errlog'], 'wb')
    _worker = subprocess.Popen([env.PY, '-u', '-m', 'props.rs_worker'], cwd=env.VERIF, env=e, stdin=subprocess.PIPE,
                               stdout=subprocess.PIPE, stderr=err, bufsize=0)


def _asan_report():
    """(kind, function) of the last AddressSanitizer report in the worker's stderr, or None."""
    if not (_ASAN['on'] and _ASAN['errlog'] and os.path.exists(_ASAN['errlog'])):
        return None
    try:
        txt = open(_ASAN['errlog'], 'rb').read().decode('utf-8', 'replace')
    except OSError:
        return None
    i = txt.rfind('ERROR: AddressSanitizer:')
    if i < 0:
        return None
    rep = txt[i:]
    kind = rep.split('AddressSanitizer:')[1].split()[0]
    where = 'unknown'
    for line in rep.splitlines():
        line = line.strip()
        if line.startswith('#') and ' in ' in line and 'TidalPy' in line:
            fn = line.split(' in ')[1].split()[0]
            where = fn.split('_')[-1] if False else fn
            break
    return kind, where, rep[:1500]


def _kill():
    global _worker
    if _worker is not None:
        try:
            _worker.kill()
            _worker.wait(timeout=10)
        except Exception:
            pass
    _worker = None


def shard_teardown():
    global _worker
    if _worker is not None:
        try:
            _worker.stdin.write((json.dumps({'cmd': 'quit'}) + '\n').encode())
            _worker.stdin.flush()
            _worker.wait(timeout=5)
        except Exception:
            _kill()
    _worker = None


def _ask(case, timeout):
    """-> ('report', dict) | ('died', returncode) | ('timeout', None)"""
    global _next_id
    if _worker is None or _worker.poll() is not None:
        _spawn()
    _next_id += 1
    cid = _next_id
    try:
        _worker.stdin.write((json.dumps({'id': cid, 'case': case}) + '\n').encode())
        _worker.stdin.flush()
    except (BrokenPipeError, OSError):
        rc_ = _worker.wait()
        _kill()
        return 'died', rc_
    deadline = time.time() + timeout
    fd = _worker.stdout.fileno()
    global _buf
    while True:
        # complete lines already buffered?
        while b'\n' in _buf:
            line, _buf = _buf.split(b'\n', 1)
            if line.startswith(b'@@REPORT@@'):
                rep = json.loads(line[len(b'@@REPORT@@'):].decode())
                if rep.get('id') == cid:
                    return 'report', rep
        left = deadline - time.time()
        if left <= 0:
            _kill()
            return 'timeout', None
        r, _, _ = select.select([fd], [], [], min(left, 5.0))
        if not r:
            continue
        chunk = os.read(fd, 1 << 16)
        if chunk == b'':
            rc_ = _worker.wait()
            _kill()
            return 'died', rc_
        _buf += chunk


def _trigger(mut, pm):
    if mut == 'bad_scalar':
        return '%s=%s' % (['frequency', 'bulk_density'][pm % 2], ['nan', '0', '-1', 'inf', '1e300', '1e-300'][(pm // 2) % 6])
    if mut == 'bad_value':
        return '%s[%s]=%s' % (['radius', 'density', 'gravity', 'bulk', 'shear'][pm % 5], ['first', 'middle', 'last'][pm % 3],
                              ['nan', '0', '-1', 'inf', '-inf', '1e300', '1e-300'][(pm // 5) % 7])
    return mut


def strategy(tier):
    # mostly 1-5 layers; one case in five is a many-layer stack (6-64 layers, 5-8 slices each): nothing in the API bounds
    # the number of layers (PREM-like models have dozens)
    base = st.sampled_from([0, 0, 0, 0, 1]).flatmap(
        lambda big: rc.stack_strategy(6, 64, surface='any', n_range=(5, 8)) if big else rc.stack_strategy(1, 5, surface='any'))
    return st.fixed_dictionaries({
        'base': base,
        'mut': st.fixed_dictionaries({'kind': st.sampled_from(MUTS), 'p': st.integers(0, 209)}),
        'raise_on_fail': st.booleans(),
    })


def _witness(kind, top):
    base = {'kinds': [['solid', False, False], top], 'weights': [1.0, 1.0], 'logrho_top': 3.0, 'rho_ratios': [1.5, 1.5],
            'logmu': [10.7, 10.0], 'argmu': [0.1, 0.0], 'logK': [11.3, 10.5], 'n': [20, 20], 'logR': 6.5, 'logr0': -2.0,
            'l': 2, 'logfreq': -4.0, 'family': 'kamata', 'solve_for': ['tidal'], 'nondim': True, 'method': 'RK45', 'logrtol': -7.0}
    return {'base': base, 'mut': {'kind': kind, 'p': 0}, 'raise_on_fail': False, 'witness': True}


def fixed_cases(tier):
    out = [_witness('none', ['liquid', False, False]), _witness('none', ['liquid', False, True])]
    for k in ('solve_for_unknown', 'solve_for_too_many', 'few_slices_in_layer', 'step_budget', 'none'):
        out.append(_witness(k, ['solid', True, False]))
    for pp in (0, 1, 2):
        w = _witness('expected_size', ['solid', True, False])
        w['mut']['p'] = pp
        out.append(w)
    w = _witness('bad_value', ['solid', True, False])
    w['mut']['p'] = 68                      # bulk modulus 1e-300 at the last slice
    out.append(w)
    w = _witness('bad_value', ['solid', True, False])
    w['mut']['p'] = 75                      # radius[0] = 0.0: the known hang (bounded wait for this witness only)
    out.append(w)
    w = _witness('bad_value', ['solid', True, False])
    w['mut']['p'] = 129                     # shear[0] = -inf
    out.append(w)
    for nlay in (33, 48):                    # many-layer stacks (all solid, static compressible)
        out.append({'base': {'kinds': [['solid', True, False]] * nlay, 'weights': [1.0] * nlay, 'logrho_top': 3.3,
                             'rho_ratios': [1.02] * nlay, 'logmu': [10.7] * nlay, 'argmu': [0.05] * nlay, 'logK': [11.2] * nlay,
                             'n': [6] * nlay, 'logR': 6.6, 'logr0': -2.0, 'l': 2, 'logfreq': -4.5, 'family': 'kamata',
                             'solve_for': ['tidal'], 'nondim': nlay == 33, 'method': 'RK45', 'logrtol': -7.0},
                    'mut': {'kind': 'none', 'p': 0}, 'raise_on_fail': False, 'witness': True})
    for pp in (3, 2, 0, 5):                 # bulk_density = 0, frequency = 0, frequency = NaN, bulk_density = -1
        w = _witness('bad_scalar', ['solid', True, False])
        w['mut']['p'] = pp
        out.append(w)
    # enumerated edge family: the lowest degrees (0, 1, 2, 3 through the `degree` mutation) x stack shapes whose surface system
    # has 3, 1 and 1 unknowns (all solid; solid under a static ocean; an entirely static-liquid planet of 1 and 2 layers, where
    # the degree-1 starting value 2(l-1) r^(l-1) vanishes identically and the 1x1 surface system is singular) x both
    # nondimensionalize settings x raise_on_fail
    sl, ll = ['solid', True, False], ['liquid', True, False]
    for kinds in ([sl, sl], [sl, ll], [ll], [ll, ll]):
        nk = len(kinds)
        for pdeg in (0, 1, 2, 3):
            for nd in (True, False):
                out.append({'base': {'kinds': kinds, 'weights': [1.0] * nk, 'logrho_top': 3.0, 'rho_ratios': [1.5] * nk,
                                     'logmu': [10.5] * nk, 'argmu': [0.1] * nk, 'logK': [11.0] * nk, 'n': [12] * nk, 'logR': 6.5,
                                     'logr0': -2.0, 'l': 2, 'logfreq': -4.5, 'family': 'kamata', 'solve_for': ['tidal'],
                                     'nondim': nd, 'method': 'RK45', 'logrtol': -7.0},
                            'mut': {'kind': 'degree', 'p': pdeg}, 'raise_on_fail': bool(pdeg % 2) != nd, 'witness': True})
    return out


def required_labels(tier):
    return ['outcome:returned', 'outcome:raised', 'success:False', 'success:True', 'raise_on_fail:checked', 'layers:6-32', 'layers:33-64'] + \
           ['mut:' + m for m in sorted(set(MUTS))]


def in_domain(case):
    try:
        if case.get('witness'):
            return True
        b = dict(case['base'])
        top = b['kinds'][-1]
        ok = rc.stack_in_domain(dict(b, kinds=b['kinds'][:-1] + [['solid', True, False]]), 64)
        return bool(ok and case['mut']['kind'] in MUTS and 0 <= case['mut']['p'] <= 209 and top[0] in ('solid', 'liquid'))
    except Exception:
        return False


def evaluate(case):
    mut = case['mut']['kind']
    top = case['base']['kinds'][-1]
    nondim = bool(case['base']['nondim'])
    nl = len(case['base']['kinds'])
    labels = ['layers:' + ('1-5' if nl <= 5 else '6-32' if nl <= 32 else '33-64'), 'mut:' + mut, 'nondim:%s' % nondim, 'surface:' + rc.kind_name(tuple(top)), 'raise_on_fail:%s' % bool(case['raise_on_fail'])]
    liquid_dyn_surface = top[0] == 'liquid' and not top[1]
    if liquid_dyn_surface and not case.get('witness') and mut in ('none', 'noncontiguous', 'degree', 'step_budget', 'ram_budget',
                                                                  'rtol_extreme', 'atol_extreme', 'expected_size', 'max_step',
                                                                  'bad_value', 'bad_scalar', 'solve_for_none', 'solve_for_upper',
                                                                  'layer_type_case', 'duplicate_radii'):
        # would reach cf_apply_surface_bc with a dynamic liquid on top: the known crash. Not executed; counted.
        return discard('excluded_known_finding', labels)
    pm0 = int(case['mut'].get('p', 0))
    shape = {}
    if mut == 'bad_value':
        shape = {'array': ['radius', 'density', 'gravity', 'bulk', 'shear'][pm0 % 5],
                 'value': ['nan', '0', '-1', 'inf', '-inf', '1e300', '1e-300'][(pm0 // 5) % 7],
                 'pos': ['first', 'middle', 'last'][pm0 % 3]}
    if mut == 'bad_scalar':
        shape = {'scalar': ['frequency', 'bulk_density'][pm0 % 2], 'value': ['nan', '0', '-1', 'inf', '1e300', '1e-300'][(pm0 // 2) % 6]}
    known_hang = shape.get('array') == 'radius' and shape.get('pos') == 'first' and shape.get('value') in ('nan', '0', '-inf')
    if known_hang and not case.get('witness'):
        return discard('excluded_known_finding', labels)        # never returns (known); not executed, counted
    wait = 20.0 if (known_hang and case.get('witness')) else HANG_S
    if _ASAN['on']:
        labels.append('asan')
        wait = wait * 5.0
    kind, rep = _ask(case, wait)
    if kind == 'timeout':
        kind2, rep2 = _ask(case, wait)               # isolated confirmation run in a fresh worker
        if kind2 == 'timeout':
            c = Collector(labels, nontrivial=True)
            c.label('outcome:hang')
            c.fail(dict({'clause': 'hang', 'mut': mut}, **shape), 'no answer within %.0f s, twice' % wait)
            return c.result()
        kind, rep = kind2, rep2
    c = Collector(labels, nontrivial=False)
    if kind == 'died':
        surface = 'liquid_dynamic' if liquid_dyn_surface else rc.kind_name(tuple(top))
        c.nontrivial = True
        c.label('outcome:died')
        sig = {'clause': 'crash', 'site': 'surface_bc' if liquid_dyn_surface else 'unknown', 'surface': surface,
               'effect': 'crash', 'mut': mut if not liquid_dyn_surface else 'any'}
        detail = 'worker died with return code %r while executing this call' % (rep,)
        ar = _asan_report()
        if ar is not None:
            sig['asan'] = ar[0]
            sig['asan_where'] = ar[1]
            detail += '\n' + ar[2]
            c.label('asan_report')
        c.fail(sig, detail)
        return c.result()
    if rep.get('harness_error') or not rep.get('built'):
        raise HarnessError('worker could not build the call: %r' % rep.get('harness_error'))
    outcome = rep['outcome']
    c.label('outcome:' + outcome)
    # ---- (3) inputs intact on every path ----------------------------------------------------------------------
    site = outcome
    if outcome == 'raised':
        msg = rep.get('exc_msg', '')
        site = 'raised:' + rep.get('exc_type', '') + ':other'
        for key, nm in (('At least three layer slices', 'layer_slices'), ('NaNs encountered after non-dimensionalize', 'nondim_nan'),
                        ('Unsupported number of solvers', 'solve_for_count'), ('Requested solver', 'solve_for_name'),
                        ('Invalid shape in axis 0', 'solution_alloc'), ('at least 3 radial slices per layer', 'total_slices'),
                        ('at least one layer', 'no_layers')):
            if key in msg:
                site = 'early_raise:' + nm
    pm = int(case['mut'].get('p', 0))
    extreme = 'no'
    if (mut == 'bad_value' and (pm // 5) % 7 in (5, 6)) or (mut == 'bad_scalar' and (pm // 2) % 6 in (4, 5)):
        extreme = 'near_range_limit'          # 1e300 / 1e-300: the in-place scaling overflows or goes subnormal
    elif (mut == 'bad_value' and (pm // 5) % 7 in (3, 4)) or (mut == 'bad_scalar' and (pm // 2) % 6 == 3):
        extreme = 'infinite'                  # +-inf: inf / scale * scale in complex arithmetic gives NaN parts
    sig_in = {'clause': 'inputs_intact', 'site': site, 'nondim': nondim, 'extreme': extreme}
    if site == 'early_raise:nondim_nan':
        # which argument made the non-dimensionalisation produce NaNs (the known finding lists the triggers that do so on
        # the pinned tree; a new trigger - e.g. a value that used to be rejected before any scaling - is still reported)
        sig_in['trigger'] = _trigger(mut, pm)
    for name, dev in rep['input_dev'].items():
        c.check(dev <= ULP_LIMIT, sig_in,
                'array %s changed by %.3g ulp across the call (outcome %s %s %s)' % (name, dev, outcome, rep.get('exc_type', ''), rep.get('exc_msg', '')[:120]))
    if outcome == 'raised':
        et = rep.get('exc_type', '')
        c.nontrivial = not (et in ('TypeError', 'BufferError') or (et == 'ValueError' and 'uffer' in rep.get('exc_msg', '')))
        c.label('raised:' + et)
        return c.result()
    # ---- returned ------------------------------------------------------------------------------------------------
    c.nontrivial = True
    if 'inspect_exc' in rep:
        c.fail({'clause': 'solution_object', 'what': 'inspect_exception'}, rep['inspect_exc'])
        return c.result()
    c.check(rep.get('type') == 'RadialSolverSolution', {'clause': 'solution_object', 'what': 'type'}, 'returned %r' % rep.get('type'))
    succ = rep.get('success')
    c.label('success:%s' % succ)
    if succ:
        n, nt = rep['n_slices'], rep['n_types']
        c.check(rep.get('result_shape') == [6 * nt, n], {'clause': 'success_contract', 'what': 'result_shape'},
                'result shape %r, expected %r' % (rep.get('result_shape'), [6 * nt, n]))
        c.check(rep.get('love_shape') == [nt, 3], {'clause': 'success_contract', 'what': 'love_shape'},
                'love shape %r, expected %r' % (rep.get('love_shape'), [nt, 3]))
        # a solve that did not produce numbers is an unsuccessful solve and must be reported as one: with success=True the Love
        # number k of every requested type is a finite number (h, l are NaN by design on a liquid surface; k never is)
        # `input`: was a non-finite number (NaN, +-inf), or one whose powers over/underflow (1e300, 1e-300), put into the arguments?  (one root cause: inputs are not validated for
        # finiteness, see KF-C06-nonfinite-input-success) - anything else that ends here is a different defect
        v_ = shape.get('value')
        inp = 'nonfinite' if v_ in ('nan', 'inf', '-inf') else 'finite_extreme' if v_ in ('1e300', '1e-300') else 'finite_invalid' if v_ else 'clean'
        c.check(rep.get('k_finite') is not False, dict({'clause': 'success_contract', 'what': 'k_not_finite', 'mut': mut, 'input': inp}, **shape),
                'success=True but k is not finite for some requested type (message %r)' % rep.get('message'))
        c.check(bool(rep.get('message_ok')), {'clause': 'success_contract', 'what': 'message'}, 'message %r' % rep.get('message'))
    else:
        c.check(bool(rep.get('message_ok')), {'clause': 'failure_contract', 'what': 'message'}, 'message %r' % rep.get('message'))
        for attr, isnone in rep.get('none', {}).items():
            c.check(bool(isnone), {'clause': 'failure_contract', 'what': 'exposes_' + attr},
                    'success=False but .%s is not None (message %r)' % (attr, rep.get('message')))
        if 'getitem_exc' in rep:
            c.label('getitem_raised:' + rep['getitem_exc'])
        if 'raise_on_fail' in rep:
            c.label('raise_on_fail:checked')
            c.check(str(rep['raise_on_fail']).startswith('raised:'), {'clause': 'failure_contract', 'what': 'raise_on_fail'},
                    'success=False (message %r) but the same inputs with raise_on_fail=True %s' % (rep.get('message'), rep['raise_on_fail']))
            for name, dev in rep.get('input_dev_raise', {}).items():
                c.check(dev <= ULP_LIMIT, {'clause': 'inputs_intact', 'site': 'raise_on_fail', 'nondim': nondim, 'extreme': extreme},
                        'array %s changed by %.3g ulp when raise_on_fail=True raised' % (name, dev))
    return c.result()
