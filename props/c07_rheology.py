"""C07 - rheology models return the exact, passive complex modulus of their law.

Targets: `TidalPy.rheology.models.{Elastic,Newton,Maxwell,Voigt,Burgers,Andrade,SundbergCooper}` (scalar call,
`vectorize_frequency`, `vectorize_modulus_viscosity`, `change_args`), `TidalPy.rheology.find_rheology`, and the
legacy `TidalPy.rheology.complex_compliance.compliance_models` functions.

Generated (Hypothesis supplies four 64-bit words per case; a splitmix64 decoder builds the case - same scheme as C20)
  scalar   model in the 7 classes; w in 10^[-12,2] rad/s, mu in 10^[3,13] Pa, eta in 10^[0,30] Pa s, log-uniform;
           half of the cases tie eta = x mu / w with x = w tau in 10^[-2,2] (the window where both parts of M matter);
           alpha in (0.02,0.98), zeta in 10^[-3,3], Voigt scales in 10^[-2,2]; 1 case in 8 is a guard edge
           (w in {0, +-1e-18, 1e-17(1-+eps), 1e-17, 1e8, 1e8(1+-eps), inf, -inf}, mu < 1e-3, or a negative
           frequency), 1 in 12 lies between the physical range and the guards (1e-17..1e-12, 1e2..1e8: consistency
           clauses only).  The instance is obtained through a random alias / capitalisation of `find_rheology` and,
           in 1 case of 4, by `change_args` from different arguments.
  array    length 1..3000 (so that prange really splits) and, about 10 per quick run, long arrays: 2^k + {-1,0,1,3} for
           k = 12..21 or anywhere in (2^20, 3 x 2^20] - lengths around and beyond plausible internal block / chunk sizes;
           fixed per run: 2^16+1, 2^20, 2^20+1, 2^21+3 for both helpers and two models (thorough: 12 lengths, all models).
           Arrays longer than 3000 index a pool of 4096 independent draws pseudo-randomly, so the reference needs 4096
           scalar calls and the comparison is still element-wise and bit-exact over all n outputs (output buffer
           pre-filled with NaN: an element that is never written differs too).  1..16 OpenMP threads set at run time with
           omp_set_num_threads of the libgomp the extension is linked against (prange has no num_threads clause, so
           the team size is the OpenMP ICV; the number of OS threads of the process is read back from /proc to prove
           the team really had that size; when it cannot be confirmed - no libgomp, prange removed, other runtime - the
           case is still judged and only labelled `threads:unverified`, never failed), frequency array or
           (modulus, viscosity) arrays, 2 % guard-edge elements.
  fixed    documented limits for every model, one batch of 240 points through the *jitted* legacy functions (the
           generated cases use their `.py_func`, so that only one shard pays numba's compile time), one subprocess
           started with OMP_NUM_THREADS=4 in the environment (the way a user sets it).

Oracles
  law        M == 1/J with J the published compliance in mpmath (50 digits, oracles/rheology_mp.py):
             |M - 1/J| <= 1e-13 |M| inside the physical range (incl. negative frequencies, which the repository's
             tests pin to give the value of |w|).
  passive    Re M >= 0 and Im M >= 0 (exact zeros allowed), no NaN.
  bounded    Maxwell family: |M| <= mu (1 + 1e-12).
  highfreq   Maxwell family, when e = sum |mu J_k| over the non-elastic compliance terms is <= 0.5:
             |M - mu|/mu <= e/(1-e) + 1e-12  (exact consequence of M = mu/(1+eps), |eps| <= e; DESIGN.md's bound
             2 Gamma(1+alpha)(w tau zeta)^-alpha + 2/(w tau) forgot the Voigt element of Burgers/Sundberg-Cooper and
             is replaced by this one).
  extreme    the documented extreme-value branches (constants_x.pyx: below ~1e-17 rad/s means zero frequency, above
             1e8 rad/s infinite; values pinned at w = 0 and w = inf by Tests/Test_Functions/test_rheology.py: zero / mu /
             i inf / Voigt modulus) are compared only a factor >= 10 inside them (|w| <= 1e-18, |w| >= 1e9 or infinite)
             and for mu, eta in the physical range, with those documented constants, exactly.  Between the physical
             range and that margin (1e-18..1e-12, 1e2..1e9 rad/s) and for mu outside 1e3..1e13 Pa (incl. the
             undocumented mu < 1e-3 guard) only the route-consistency clauses are applied, so a moved threshold or a
             reordered guard is not reported.
  consistent scalar call == vectorize_frequency == vectorize_modulus_viscosity element-wise, bit for bit, for every
             thread count, and 25 repetitions of the array call under the same team reproduce it bit for bit; every alias of
             find_rheology yields a model that behaves as the named one (bit-equal output on 4 probe points and the
             case point - behaviour, not class identity); default-constructed instance == explicit
             default arguments; instance after change_args(B) == fresh instance(B), bit for bit.
  legacy     |1/J_legacy - M| <= 1e-12 |M| with voigt_compliance_offset = 1/voigt_modulus_scale, for w > 0 in the
             physical range and outside the legacy functions' own float_eps guards (|eta w| <= 2.2e-16 or
             |J eta w zeta| <= 2.2e-16, where they substitute 1e-100 on purpose; the size of that excluded region is
             reported under the label `legacy:guard_excluded`).

Tolerances: law 1e-13 relative - worst deviation on 32 000 generated in-range points of the unchanged tree: 6.7e-16
  (Sundberg-Cooper; Andrade 4.6e-16, Burgers 5.3e-16, Maxwell 3.5e-16), i.e. 150x margin; legacy 1e-12 (worst 9.2e-16);
  |M|/mu - 1 <= 4.4e-16 seen, bound 1e-12; smallest Re M/|M| seen 1e-26 and still positive (no cancellation in the sign).
  A wrong coefficient / dropped term changes M by >= 1e-4 relative somewhere in the w tau window, usually by O(1).

Sensitivity (tools/mut.py on the generated C, `-- --cases 4000 --shards 4`, 9-25 s each)
  models.c  Sundberg: `/ voigt_modulus_scale` dropped                          CAUGHT law + highfreq SundbergCooper
  models.c  Burgers voigt_param imaginary part -1.0 -> +1.0                     CAUGHT law + bounded Burgers
  models.c  Andrade alpha_factorial tgamma(alpha + 1.) -> tgamma(alpha)         CAUGHT law + highfreq Andrade
  models.c  Andrade alpha_factorial only set when still 0 (missing update)      CAUGHT consistent/change_args only
  models.c  first zero-frequency guard returns (0,1) instead of (0,0) (Newton)  CAUGHT extreme zero/tiny frequency
  models.c  find_rheology: alias 'viscous' compared with 'maxwell'              CAUGHT consistent/lookup (+AttributeError)
  base.c    _vectorize_frequency reads frequency_ptr[0] for every i             CAUGHT consistent/vectorize_frequency
  base.c    _vectorize_modulus_viscosity reads viscosity_ptr[i-1]               CAUGHT consistent/vectorize_modulus_viscosity
  base.c    prange body: index kept in a shared (static volatile) variable      CAUGHT consistent/vectorize_frequency, only in
            across the model call (data race, window = one model evaluation)    cases with >= 2 threads (4..128 elements wrong)
  compliance_models.py  voigt imag_j: voigt_comp**2 -> voigt_comp               CAUGHT legacy Voigt/Burgers/Sundberg (py_func + jitted)
  base.c    frequency passed through a shared static volatile written and read    MISSED by one call per case; CAUGHT since every
            back in the next instruction (race window ~1 ns)                    array case repeats the call 25x under the same team
                                                                                (consistent/vectorize_not_reproducible, 1..25 of 25)
  seeded/C07-4 (wrappers work in blocks of 2^20; vectorize_frequency keeps writing to &output[0]): MISSED while array
            lengths stopped at 3000, CAUGHT by the long-array cases (consistent/vectorize_frequency: elements beyond
            2^20 never written, head overwritten), lengths <= 2^20 and vectorize_modulus_viscosity still pass
  MISSED (stated, not hidden): base.c `firstprivate/lastprivate(i)` clause removed - gcc -O3 keeps i in a register, the
  recompiled binary behaves identically (equivalent mutant at the machine level).
"""
import ctypes
import json
import math
import os
import subprocess
import sys

import numpy as np
from hypothesis import strategies as st

from oracles import rheology_mp as R
from vlib import env
from vlib.result import Collector, HarnessError, repo_call

# libgomp reads these when it is loaded (first import of a TidalPy extension, which happens lazily in _mods()):
# without them the 2..16 team threads of every array case busy-wait at the barrier (measured: 15 CPU-minutes per
# quick run on a loaded machine, 2 with them) and disturb the other shards.
os.environ.setdefault('OMP_WAIT_POLICY', 'PASSIVE')
os.environ.setdefault('GOMP_SPINCOUNT', '0')

ID = 'C07'
TECHNIQUE = ('property-based testing (Hypothesis) against the published compliance laws evaluated in mpmath (50 digits); '
             'differential scalar / array helpers / name lookup / legacy functions, OpenMP team size varied at run time')
LEVEL = 'exploration'
LEVEL_TEXT = ('Generated-input exploration: every model is compared with 1/J of its published law on tens of thousands of '
              '(frequency, modulus, viscosity, parameter) points covering the stated physical range and every guard edge, plus '
              'passivity, |M| <= mu, the high-frequency limit, bit-equality of scalar / array / lookup / change_args routes for '
              '1..16 OpenMP threads, and the legacy functions.  Says the property holds on everything generated, not for all reals.')
LEVEL_NOTE = ('Trusts mpmath and the transcription of the laws in oracles/rheology_mp.py (self-tested on the Maxwell textbook value, '
              'on (ix)^-a, on the values pinned by the repository tests and on the limits).  The binary under test is the one built '
              'from the generated C present in /repo.  Thread counts are set with omp_set_num_threads of the process-wide libgomp and '
              'verified through /proc/self/task; scheduling inside the team is the OS\'s.')
CASES = {'quick': 20300, 'thorough': 2000000}
SHARDS = {'quick': 10, 'thorough': 16}
TIMEOUT = {'quick': 900, 'thorough': 6 * 3600}

LAW_TOL = 1e-13
LEGACY_TOL = 1e-12
BOUND_TOL = 1e-12
FLOAT_EPS = float(np.finfo(np.float64).eps)
ARRAY_REPEATS = 25
LONG_N = 3000              # above this length the inputs are drawn from a pool of POOL distinct values (see _evaluate_array)
POOL = 4096
MAX_N = 3 * 2 ** 20 + 8

RULE = ('Hypothesis draws four 64-bit words per case, decoded into: model (7), w in 10^[-12,2] (or a guard edge / out-of-range '
        'value), mu in 10^[3,13], eta in 10^[0,30] (half of the cases tied to w tau in 10^[-2,2]), alpha in (0.02,0.98), zeta in '
        '10^[-3,3], Voigt scales in 10^[-2,2], lookup alias, optional change_args history; array cases: helper, length 1..3000, '
        '1..16 OpenMP threads (about 1 array case in 30 is long: 2^k+-few for k=12..21, or in (2^20, 3*2^20], built by indexing 4096 independent draws). A scalar case is non-trivial when 0.01 < w tau < 100 inside the physical range (both parts of M '
        'significant; for Elastic/Newton/Voigt: any in-range case with all three inputs not powers of ten); an array case when '
        'length >= 2 x threads and threads >= 2 (prange really splits); distinct = distinct case hash.')
ASSUMPTIONS = ['laws: Maxwell J=1/mu-i/(eta w); Voigt M=mu_v+i w eta_v; Burgers J_M+1/M_v; Andrade J_M+(1/mu)Gamma(1+a)(i w tau zeta)^-a; '
               'Sundberg-Cooper Andrade+1/M_v; Elastic M=mu; Newton M=i w eta (Henning+2009, Efroimsky 2012, Renaud&Henning 2018)',
               'mpmath 50 digits; |M-1/J| <= 1e-13|M|; legacy 1e-12; |M| <= mu(1+1e-12); highfreq |M-mu|/mu <= e/(1-e)+1e-12',
               'negative frequency means |w| (pinned by the repository tests); guards: |w|<1e-17, |w|>1e8, mu<1e-3 return the documented limits',
               'legacy functions are compared outside their own float_eps guards only; voigt_compliance_offset = 1/voigt_modulus_scale']

MODELS = R.MODELS
_M64 = 2 ** 64 - 1


# ---------------------------------------------------------------------------------------------------------
# access to the code under test
# ---------------------------------------------------------------------------------------------------------

_cache = {}
_PROBES = [(1e-6, 5.0e10, 1.0e18), (3.3e-9, 7.7e9, 1.2e21), (12.5, 4.4e4, 8.8e3), (2.0e-4, 1.0e11, 3.0e14)]


def _mods():
    if 'rm' not in _cache:
        env.quiet_tidalpy()
        import warnings
        with warnings.catch_warnings():
            warnings.simplefilter('ignore')
            from TidalPy.rheology import models as rm
            from TidalPy.rheology import find_rheology
            from TidalPy.rheology.complex_compliance import compliance_models as legacy
        _cache['rm'] = rm
        _cache['find'] = find_rheology
        _cache['legacy'] = legacy
    return _cache['rm'], _cache['find'], _cache['legacy']


def _gomp():
    """The process-wide GNU OpenMP runtime, or None when it cannot be loaded (extension built without OpenMP or
    against another runtime): the array cases then still run, with whatever team size the build uses, and are
    labelled `threads:unverified` - the statement quantifies over thread counts, it does not demand OpenMP."""
    if 'gomp' not in _cache:
        try:
            g = ctypes.CDLL('libgomp.so.1')
            g.omp_get_max_threads.restype = ctypes.c_int
        except (OSError, AttributeError):
            g = None
        _cache['gomp'] = g
    return _cache['gomp']


def _os_threads():
    try:
        return len(os.listdir('/proc/self/task'))
    except OSError:
        return -1


def _instance(model, args, via=None, change_from=None):
    rm, find, _ = _mods()
    cls = find(via) if via is not None else getattr(rm, model)
    if R.NARGS[model] == 0:
        return cls()
    if change_from is not None:
        inst = cls(tuple(change_from))
        inst.change_args(tuple(args))
        return inst
    return cls(tuple(args))


def warm():
    _mods()


def selftest():
    R.selftest()
    assert _fl('inf') == math.inf and _fl(1e-18) == 1e-18


def _fl(v):
    return float(v)


def _js(v):
    """float -> JSON-safe value"""
    v = float(v)
    if math.isinf(v):
        return 'inf' if v > 0 else '-inf'
    return v


# ---------------------------------------------------------------------------------------------------------
# generator
# ---------------------------------------------------------------------------------------------------------

class _Rng:
    def __init__(self, words):
        s = 0x9E3779B97F4A7C15
        for w in words:
            s = ((s ^ (int(w) & _M64)) * 0xBF58476D1CE4E5B9 + 0x94D049BB133111EB) & _M64
        self.s = s

    def u64(self):
        self.s = (self.s + 0x9E3779B97F4A7C15) & _M64
        z = self.s
        z = ((z ^ (z >> 30)) * 0xBF58476D1CE4E5B9) & _M64
        z = ((z ^ (z >> 27)) * 0x94D049BB133111EB) & _M64
        return z ^ (z >> 31)

    def below(self, n):
        return self.u64() % n

    def unit(self):
        return (self.u64() >> 11) / 2.0 ** 53

    def unif(self, lo, hi):
        return lo + (hi - lo) * self.unit()

    def logu(self, lo, hi):
        return 10.0 ** self.unif(lo, hi)

    def pick(self, seq):
        return seq[self.u64() % len(seq)]


_EDGE_W = [0.0, -0.0, 1e-18, -1e-18, math.nextafter(1e-17, 0.0), 1e-17, math.nextafter(1e-17, 1.0), 1e8,
           math.nextafter(1e8, 0.0), math.nextafter(1e8, math.inf), -math.nextafter(1e8, math.inf), math.inf, -math.inf,
           5e-324, 1.7e308]


def _gen_args(r, model):
    sm, sv = r.logu(-2.0, 2.0), r.logu(-2.0, 2.0)
    alpha, zeta = r.unif(0.02, 0.98), r.logu(-3.0, 3.0)
    if r.below(6) == 0:
        sm, sv, alpha, zeta = r.pick([(5.0, 0.02, 0.3, 1.0), (1.0, 1.0, 0.5, 1.0), (5.0, 0.02, 0.2, 100.0)])
    if model in ('Voigt', 'Burgers'):
        return [sm, sv]
    if model == 'Andrade':
        return [alpha, zeta]
    if model == 'SundbergCooper':
        return [sm, sv, alpha, zeta]
    return []


def _gen_point(r):
    """(w, mu, eta) inside the physical range; half of them with w tau in the transition window"""
    mu = r.logu(3.0, 13.0)
    w = r.logu(-12.0, 2.0)
    if r.below(2):
        eta = r.logu(-2.0, 2.0) * mu / w
        eta = min(1e30, max(1.0, eta))
    else:
        eta = r.logu(0.0, 30.0)
    return w, mu, eta


def _gen_alias(r, model):
    a = r.pick(R.ALIASES[model])
    k = r.below(5)
    if k == 0:
        a = a.upper()
    elif k == 1:
        a = a.capitalize()
    elif k == 2:
        a = '  ' + a + ' '
    elif k == 3:
        a = ''.join(ch.upper() if i % 2 else ch for i, ch in enumerate(a)) + '\t'
    return a


def _decode(words):
    r = _Rng(words)
    model = r.pick(['Elastic', 'Newton', 'Maxwell', 'Maxwell', 'Voigt', 'Burgers', 'Burgers', 'Burgers', 'Andrade', 'Andrade',
                    'Andrade', 'SundbergCooper', 'SundbergCooper', 'SundbergCooper', 'SundbergCooper'])
    args = _gen_args(r, model)
    if r.below(68) == 0:
        # array case (about 300 of 20300)
        w, mu, eta = _gen_point(r)
        n = r.pick([1, 2, 3, 7, 16, 17, 64, 100, 257, 1000, 2999, 3000]) if r.below(2) else 1 + r.below(3000)
        if r.below(30) == 0:
            # long array (about 10 per quick run): around a power of two (plausible internal block / chunk sizes) or
            # anywhere in (2^20, 3 x 2^20]
            n = (2 ** (12 + r.below(10)) + r.pick([-1, 0, 1, 3])) if r.below(2) else (2 ** 20 + 1 + r.below(2 ** 21))
        return {'kind': 'array', 'model': model, 'args': args, 'which': r.pick(['frequency', 'modvisc']),
                'n': int(n), 'threads': int(r.pick([1, 2, 3, 4, 5, 6, 7, 8, 9, 10, 11, 12, 13, 14, 15, 16])),
                'w': w, 'mu': mu, 'eta': eta, 'words': [int(r.u64()), int(r.u64())]}
    w, mu, eta = _gen_point(r)
    k = r.below(24)
    if k < 3:
        kk = r.below(4)
        if kk < 2:
            w = r.pick(_EDGE_W)
        elif kk == 2:
            mu = r.pick([1e-4, 9.99e-4, math.nextafter(1e-3, 0.0), 1e-3, 1e-300, 0.0])
        else:
            w = -w
    elif k < 5:
        w = r.logu(-17.0, -12.0) if r.below(2) else r.logu(2.0, 8.0)
    case = {'kind': 'scalar', 'model': model, 'args': args, 'w': _js(w), 'mu': mu, 'eta': eta,
            'via': _gen_alias(r, model), 'change_from': None}
    if R.NARGS[model] and r.below(4) == 0:
        # the instance's previous arguments: independent of the new ones, or (half of the histories) sharing a random subset of
        # components with them - a setter that skips work "when alpha did not change" is only exercised by such a history
        prev = _gen_args(r, model)
        if r.below(2):
            prev = [a if r.below(2) else b for a, b in zip(args, prev)]
            case_shared = True
        else:
            case_shared = False
        case['change_from'] = prev
        case['shared_components'] = case_shared
    return case


def strategy(tier):
    w = st.integers(0, _M64)
    return st.tuples(w, w, w, w).map(_decode)


def fixed_cases(tier):
    out = []
    for model in MODELS:
        args = list(R.DEFAULT_ARGS[model])
        for w in (0.0, -0.0, math.inf, -math.inf, 1e-6, -1e-6, 1e-18, -1e-19, 1e9, 2e8, 1e-17, 1e8):
            for alias in R.ALIASES[model]:
                out.append({'kind': 'scalar', 'model': model, 'args': args, 'w': _js(w), 'mu': 5.0e10, 'eta': 1.0e18,
                            'via': alias, 'change_from': None})
        out.append({'kind': 'scalar', 'model': model, 'args': args, 'w': 1e-6, 'mu': 1e-4, 'eta': 1.0e18,
                    'via': model, 'change_from': None})
        out.append({'kind': 'scalar', 'model': model, 'args': args, 'w': 1e2, 'mu': 1e3, 'eta': 1.0e30,
                    'via': model, 'change_from': None})
        out.append({'kind': 'scalar', 'model': model, 'args': args, 'w': 1e-12, 'mu': 1e13, 'eta': 1.0,
                    'via': model, 'change_from': None})
        out.append({'kind': 'default_args', 'model': model})
        for which in ('frequency', 'modvisc'):
            for n, k in ((3000, 16), (17, 4), (1, 8)):
                out.append({'kind': 'array', 'model': model, 'args': args, 'which': which, 'n': n, 'threads': k,
                            'w': 1e-6, 'mu': 5.0e10, 'eta': 1.0e18, 'words': [12345 + n, 678 + k]})
    # long arrays around and beyond plausible internal block sizes, both helpers (thorough: more lengths, every model)
    lengths = [2 ** 16 + 1, 2 ** 20, 2 ** 20 + 1, 2 ** 21 + 3]
    long_models = ['Maxwell', 'SundbergCooper']
    if tier == 'thorough':
        lengths += [2 ** 12 + 1, 2 ** 14, 2 ** 18 + 1, 2 ** 19, 2 ** 20 - 1, 2 ** 21, 2 ** 21 + 1, 3 * 2 ** 20]
        long_models = MODELS
    for im, model in enumerate(long_models):
        for il, n in enumerate(lengths):
            for iw, which in enumerate(('frequency', 'modvisc')):
                out.append({'kind': 'array', 'model': model, 'args': list(R.DEFAULT_ARGS[model]), 'which': which, 'n': n,
                            'threads': [1, 4, 16, 2, 8, 3][(im + il + iw) % 6], 'w': 1e-6, 'mu': 5.0e10, 'eta': 1.0e18,
                            'words': [777 + n, 31 + im + 2 * iw]})
    out.append({'kind': 'legacy_jit', 'words': [20240607, 7], 'n': 240})
    out.append({'kind': 'omp_env', 'threads': 4, 'n': 1500})
    return out


def required_labels(tier):
    lb = ['model:' + m for m in MODELS]
    lb += ['window:transition', 'window:low', 'window:high', 'edge:zero_frequency', 'edge:inf_frequency', 'edge:tiny_frequency',
           'edge:huge_frequency', 'edge:near_frequency_guard', 'edge:small_modulus', 'negative_frequency',
           'beyond_physical_range', 'route:change_args', 'route:change_args_partial', 'route:alias', 'array:frequency', 'array:modvisc', 'array:long', 'len:>2^20', 'len:2^16..2^20',
           'legacy:compared', 'legacy:guard_excluded', 'legacy:jitted', 'highfreq:checked', 'omp_env']
    lb += ['threads:%d' % k for k in range(1, 17)]
    return lb


def in_domain(case):
    try:
        k = case['kind']
        if k == 'legacy_jit':
            return 1 <= case['n'] <= 2000
        if k == 'omp_env':
            return 1 <= case['threads'] <= 16 and 1 <= case['n'] <= 5000
        if case['model'] not in MODELS:
            return False
        if k == 'default_args':
            return True
        args = case['args']
        if len(args) != R.NARGS[case['model']]:
            return False
        sm, sv, alpha, zeta = R.split_args(case['model'], args)
        if sm is not None and not (1e-2 <= sm <= 1e2 and 1e-2 <= sv <= 1e2):
            return False
        if alpha is not None and not (0.02 <= alpha <= 0.98 and 1e-3 <= zeta <= 1e3):
            return False
        mu, eta = float(case['mu']), float(case['eta'])
        if not (1.0 <= eta <= 1e30 and 0.0 <= mu <= 1e13):
            return False
        w = _fl(case['w'])
        if math.isnan(w):
            return False
        if k == 'array':
            return 1 <= case['n'] <= MAX_N and 1 <= case['threads'] <= 16 and case['which'] in ('frequency', 'modvisc') \
                and 1e-12 <= w <= 1e2 and 1e3 <= mu
        if case.get('change_from') is not None and len(case['change_from']) != len(args):
            return False
        return k == 'scalar' and isinstance(case['via'], str)
    except Exception:
        return False


def shrink_hints(case):
    out = []
    if case.get('kind') == 'scalar':
        for key, val in (('change_from', None), ('via', case['model'])):
            if case.get(key) != val:
                c = dict(case)
                c[key] = val
                out.append(c)
        d = R.DEFAULT_ARGS[case['model']]
        if list(case['args']) != list(d):
            c = dict(case)
            c['args'] = list(d)
            out.append(c)
    if case.get('kind') == 'array':
        for n in (1, 2, 16, 2 ** 16 + 1, 2 ** 20 + 1, case['n'] // 2, case['n'] - 1):
            if 1 <= n < case['n']:
                c = dict(case)
                c['n'] = n
                out.append(c)
        for k in (1, 2, case['threads'] // 2):
            if 1 <= k < case['threads']:
                c = dict(case)
                c['threads'] = k
                out.append(c)
    return out


# ---------------------------------------------------------------------------------------------------------
# evaluation
# ---------------------------------------------------------------------------------------------------------

def _bits(z):
    z = complex(z)
    return (np.float64(z.real).tobytes(), np.float64(z.imag).tobytes())


def _same_bits(a, b):
    a, b = complex(a), complex(b)
    if math.isnan(a.real) or math.isnan(a.imag) or math.isnan(b.real) or math.isnan(b.imag):
        return (math.isnan(a.real) == math.isnan(b.real)) and (math.isnan(a.imag) == math.isnan(b.imag)) and \
            (math.isnan(a.real) or a.real == b.real) and (math.isnan(a.imag) or a.imag == b.imag)
    return _bits(a) == _bits(b)


def _in_range(w, mu, eta):
    return 1e-12 <= abs(w) <= 1e2 and 1e3 <= mu <= 1e13 and 1.0 <= eta <= 1e30


def _law_clauses(c, model, args, w, mu, eta, got, where='scalar'):
    """law / passive / bounded / highfreq for one in-range point (w may be negative: |w| is meant)."""
    wa = abs(w)
    sig = {'model': model, 'route': where}
    if math.isnan(got.real) or math.isnan(got.imag):
        c.fail(dict(sig, clause='passive', what='nan'), '%s(%r,%r,%r; %r) = %r' % (model, w, mu, eta, args, got))
        return None
    exact = R.modulus(model, wa, mu, eta, args)
    d = abs(R.mpc(R.mpf(got.real), R.mpf(got.imag)) - exact) if (math.isfinite(got.real) and math.isfinite(got.imag)) else R.mpf('inf')
    rel = float(d / abs(exact))
    c.check(rel <= LAW_TOL, dict(sig, clause='law'),
            '%s(w=%r, mu=%r, eta=%r; args=%r) = %r; 1/J of the law = (%s, %s); relative deviation %.3e > %.0e'
            % (model, w, mu, eta, args, got, R.ctx.nstr(exact.real, 18), R.ctx.nstr(exact.imag, 18), rel, LAW_TOL))
    c.check(got.real >= 0.0 and got.imag >= 0.0, dict(sig, clause='passive', what='negative_part'),
            '%s(w=%r, mu=%r, eta=%r; args=%r) = %r has a negative part (energy generation)' % (model, w, mu, eta, args, got))
    if model in R.MAXWELL_FAMILY:
        c.check(abs(got) <= mu * (1.0 + BOUND_TOL), dict(sig, clause='bounded'),
                '%s(w=%r, mu=%r, eta=%r; args=%r): |M| = %r exceeds the unrelaxed rigidity' % (model, w, mu, eta, args, abs(got)))
        e = R.highfreq_bound(model, wa, mu, eta, args)
        if e <= 0.5:
            c.label('highfreq:checked')
            lim = float(e / (1 - e)) + 1e-12
            dev = abs(got - mu) / mu
            c.check(dev <= lim, dict(sig, clause='highfreq'),
                    '%s(w=%r, mu=%r, eta=%r; args=%r): |M-mu|/mu = %.3e but the compliance terms only allow %.3e'
                    % (model, w, mu, eta, args, dev, lim))
    return rel


_LEGACY_NAME = {'Elastic': 'elastic', 'Newton': 'newton', 'Maxwell': 'maxwell', 'Voigt': 'voigt', 'Burgers': 'burgers',
                'Andrade': 'andrade', 'SundbergCooper': 'sundberg'}


def _legacy_args(model, args):
    sm, sv, alpha, zeta = R.split_args(model, args)
    if model in ('Voigt', 'Burgers'):
        return (1.0 / sm, sv)
    if model == 'Andrade':
        return (alpha, zeta)
    if model == 'SundbergCooper':
        return (1.0 / sm, sv, alpha, zeta)
    return ()


def _legacy_guarded(model, w, mu, eta, args):
    """True when the legacy function's own float_eps guard replaces a quantity by 1e-100 / 1e100."""
    comp = 1.0 / mu
    if abs(w) <= FLOAT_EPS:
        return True
    if model in ('Newton', 'Maxwell', 'Burgers', 'Andrade', 'SundbergCooper', 'Elastic') and abs(eta * w) <= FLOAT_EPS:
        return True
    if model in ('Andrade', 'SundbergCooper'):
        _, _, alpha, zeta = R.split_args(model, args)
        if abs(comp * eta * w * zeta) <= FLOAT_EPS:
            return True
    return False


def _legacy_clause(c, model, args, w, mu, eta, got, jitted=False):
    _, _, legacy = _mods()
    if _legacy_guarded(model, w, mu, eta, args):
        c.label('legacy:guard_excluded')
        return
    f = getattr(legacy, _LEGACY_NAME[model])
    if not jitted:
        f = getattr(f, 'py_func', f)
    with repo_call('legacy.' + _LEGACY_NAME[model]):
        j = complex(f(w, 1.0 / mu, eta, *_legacy_args(model, args)))
    c.label('legacy:jitted' if jitted else 'legacy:compared')
    if j == 0 or math.isnan(j.real) or math.isnan(j.imag):
        c.fail({'model': model, 'clause': 'legacy', 'what': 'degenerate'}, 'legacy %s(%r, 1/%r, %r, %r) = %r'
               % (_LEGACY_NAME[model], w, mu, eta, args, j))
        return
    m_leg = 1.0 / j
    if math.isinf(got.imag) or math.isinf(got.real):
        return
    rel = abs(m_leg - got) / abs(got) if got != 0 else abs(m_leg)
    c.check(rel <= LEGACY_TOL, {'model': model, 'clause': 'legacy', 'what': 'differs', 'jitted': bool(jitted)},
            'legacy %s(w=%r, J=1/%r, eta=%r, %r): 1/J = %r but %s returns %r (relative %.3e)'
            % (_LEGACY_NAME[model], w, mu, eta, _legacy_args(model, args), m_leg, model, got, rel))


def _evaluate_scalar(case):
    rm, find, _ = _mods()
    model, args = case['model'], [float(a) for a in case['args']]
    w, mu, eta = _fl(case['w']), float(case['mu']), float(case['eta'])
    c = Collector(labels=['model:' + model], nontrivial=False)
    # ---- routes to an instance
    c.label('route:alias')
    with repo_call('construct'):
        ref = _instance(model, args)
    with repo_call('find_rheology'):
        inst = _instance(model, args, via=case['via'], change_from=case.get('change_from'))
    # the looked-up model must *behave* as the named one (no identity requirement): same output on a probe set
    with repo_call(model + '.__call__'):
        probe_bad = [(pw, pm, pe, complex(ref(pw, pm, pe)), complex(inst(pw, pm, pe))) for pw, pm, pe in _PROBES
                     if not _same_bits(ref(pw, pm, pe), inst(pw, pm, pe))]
    c.check(not probe_bad, {'model': model, 'clause': 'consistent',
                            'what': 'change_args' if case.get('change_from') is not None else 'lookup'},
            'find_rheology(%r)%s does not behave as %s%r: at (w, mu, eta) = %r direct %r, looked-up %r'
            % ((case['via'], '' if case.get('change_from') is None else ' + change_args from %r' % (case['change_from'],),
                model, tuple(args)) + ((probe_bad[0][:3], probe_bad[0][3], probe_bad[0][4]) if probe_bad else ((), 0, 0))))
    if case.get('change_from') is not None:
        c.label('route:change_args')
        if any(float(a) == float(b) for a, b in zip(case['change_from'], args)):
            c.label('route:change_args_partial')
    with repo_call(model + '.__call__'):
        got = complex(ref(w, mu, eta))
        got2 = complex(inst(w, mu, eta))
    what = 'change_args' if case.get('change_from') is not None else 'lookup'
    c.check(_same_bits(got, got2), {'model': model, 'clause': 'consistent', 'what': what},
            '%s%r(w=%r, mu=%r, eta=%r): direct instance gives %r, instance via find_rheology(%r)%s gives %r'
            % (model, tuple(args), w, mu, eta, got, case['via'],
               '' if case.get('change_from') is None else ' + change_args from %r' % (case['change_from'],), got2))
    # ---- array helpers with one element
    with repo_call(model + '.vectorize'):
        o1 = np.full(1, complex(math.nan, math.nan), dtype=np.complex128)
        ref.vectorize_frequency(np.array([w], dtype=np.float64), mu, eta, o1)
        o2 = np.full(1, complex(math.nan, math.nan), dtype=np.complex128)
        ref.vectorize_modulus_viscosity(w, np.array([mu], dtype=np.float64), np.array([eta], dtype=np.float64), o2)
    c.check(_same_bits(got, o1[0]), {'model': model, 'clause': 'consistent', 'what': 'vectorize_frequency'},
            '%s: scalar %r vs vectorize_frequency %r at (w=%r, mu=%r, eta=%r)' % (model, got, complex(o1[0]), w, mu, eta))
    c.check(_same_bits(got, o2[0]), {'model': model, 'clause': 'consistent', 'what': 'vectorize_modulus_viscosity'},
            '%s: scalar %r vs vectorize_modulus_viscosity %r at (w=%r, mu=%r, eta=%r)' % (model, got, complex(o2[0]), w, mu, eta))
    # ---- value
    wa = abs(w)
    ext = R.documented_limit(model, w, mu, eta, args)
    if ext is not None:
        # documented extreme-value branch, a factor >= 10 inside it, physical mu and eta: the documented constant
        lb = ('edge:zero_frequency' if wa == 0 else 'edge:tiny_frequency') if wa < 1.0 else \
             ('edge:inf_frequency' if math.isinf(wa) else 'edge:huge_frequency')
        c.label(lb)
        c.check(got.real == ext.real and got.imag == ext.imag, {'model': model, 'clause': 'extreme', 'what': lb},
                '%s(w=%r, mu=%r, eta=%r; args=%r) = %r; documented limit value %r' % (model, w, mu, eta, args, got, ext))
        return c.result()
    if mu < 1e3:
        c.label('edge:small_modulus')
    if 1e-18 < wa < 1e-16 or 1e7 < wa < 1e9:
        c.label('edge:near_frequency_guard')
    if w < 0:
        c.label('negative_frequency')
    if not _in_range(w, mu, eta):
        c.label('beyond_physical_range')       # the statement is silent here: route consistency (above) only
        return c.result()
    wt = wa * eta / mu
    c.label('window:transition' if 0.01 < wt < 100 else ('window:low' if wt <= 0.01 else 'window:high'))
    if model in R.MAXWELL_FAMILY:
        c.nontrivial = 0.01 < wt < 100
    else:
        c.nontrivial = not all(abs(math.log10(v) - round(math.log10(v))) < 1e-12 for v in (wa, mu, eta))
    _law_clauses(c, model, args, w, mu, eta, got)
    if w > 0:
        _legacy_clause(c, model, args, w, mu, eta, got)
    return c.result()


def _array_inputs(case):
    r = _Rng(case['words'])
    n = int(case['n'])
    w0, mu0, eta0 = float(case['w']), float(case['mu']), float(case['eta'])
    if case['which'] == 'frequency':
        w = np.empty(n, dtype=np.float64)
        for i in range(n):
            k = r.below(50)
            if k == 0:
                w[i] = r.pick(_EDGE_W)
            elif k == 1:
                w[i] = -r.logu(-12.0, 2.0)
            elif k < 25:
                w[i] = w0 * r.logu(-2.0, 2.0)
            else:
                w[i] = r.logu(-12.0, 2.0)
        return w, None, None
    mu = np.empty(n, dtype=np.float64)
    eta = np.empty(n, dtype=np.float64)
    for i in range(n):
        k = r.below(50)
        mu[i] = r.pick([1e-4, 0.0, 9.99e-4, 1e-3]) if k == 0 else (mu0 * r.logu(-1.0, 1.0) if k < 25 else r.logu(3.0, 13.0))
        eta[i] = eta0 * r.logu(-2.0, 2.0) if k < 25 else r.logu(0.0, 30.0)
        eta[i] = min(1e30, max(1.0, eta[i]))
        if k and mu[i] > 1e13:
            mu[i] = 1e13
    return None, mu, eta


def _set_threads(k):
    g = _gomp()
    if g is None:
        return None
    g.omp_set_num_threads(int(k))
    return g.omp_get_max_threads()


def _pool_index(words, n, pool):
    """n pseudo-random indices into the pool: vectorised splitmix64 of the case words (pure function of the case)."""
    seed = (int(words[0]) * 0x9E3779B97F4A7C15 + int(words[-1]) + 0x632BE59BD9B4E019) & _M64
    with np.errstate(over='ignore'):
        z = np.uint64(seed) + np.arange(1, n + 1, dtype=np.uint64) * np.uint64(0x9E3779B97F4A7C15)
        z = (z ^ (z >> np.uint64(30))) * np.uint64(0xBF58476D1CE4E5B9)
        z = (z ^ (z >> np.uint64(27))) * np.uint64(0x94D049BB133111EB)
        z = z ^ (z >> np.uint64(31))
    return (z % np.uint64(pool)).astype(np.int64)


def _mismatch(out, ref):
    """boolean array: element differs bit-wise (NaN == NaN whatever the payload)"""
    a, b = out.view(np.float64), ref.view(np.float64)
    eq = (out.view(np.uint64) == ref.view(np.uint64)) | (np.isnan(a) & np.isnan(b))
    return ~(eq.reshape(-1, 2).all(axis=1))


def _evaluate_array(case):
    """Array helper == scalar call, element by element, for every length.

    n <= LONG_N: every element is an independent draw and is compared with its own scalar call.  Longer arrays
    (up to 3 x 2^20) are built by indexing a pool of POOL independent draws with pseudo-random indices; the reference
    is the scalar call on each pool value, indexed the same way - still an element-wise, bit-exact comparison of all n
    outputs (the output buffer is pre-filled with NaN, so an element the helper never wrote differs as well), at the
    price of POOL scalar calls instead of n."""
    model, args = case['model'], [float(a) for a in case['args']]
    n, k = int(case['n']), int(case['threads'])
    which = case['which']
    c = Collector(labels=['model:' + model, 'array:' + which], nontrivial=(k >= 2 and n >= 2 * k))
    w0, mu0, eta0 = float(case['w']), float(case['mu']), float(case['eta'])
    long_case = n > LONG_N
    if long_case:
        c.label('array:long', 'len:>2^20' if n > 2 ** 20 else ('len:2^16..2^20' if n >= 2 ** 16 else 'len:<2^16'))
        pw, pmu, peta = _array_inputs(dict(case, n=POOL))
        idx = _pool_index(case['words'], n, POOL)
        wv = None if pw is None else np.ascontiguousarray(pw[idx])
        muv = None if pmu is None else np.ascontiguousarray(pmu[idx])
        etav = None if peta is None else np.ascontiguousarray(peta[idx])
    else:
        wv, muv, etav = _array_inputs(case)
        pw, pmu, peta, idx = wv, muv, etav, None
    with repo_call('construct'):
        inst = _instance(model, args)
    out = np.full(n, complex(math.nan, math.nan), dtype=np.complex128)
    repeats = (ARRAY_REPEATS if not long_case else 1) if k > 1 else 1
    try:
        got_k = _set_threads(k)
        unstable = 0
        with repo_call(model + '.vectorize_' + which):
            if which == 'frequency':
                inst.vectorize_frequency(wv, mu0, eta0, out)
            else:
                inst.vectorize_modulus_viscosity(w0, muv, etav, out)
            nthreads = _os_threads()
            # repeat under the same team size: every repetition must reproduce the first result bit for bit
            rep = np.empty_like(out)
            for _ in range(repeats):
                rep.fill(complex(math.nan, math.nan))
                if which == 'frequency':
                    inst.vectorize_frequency(wv, mu0, eta0, rep)
                else:
                    inst.vectorize_modulus_viscosity(w0, muv, etav, rep)
                if _mismatch(rep, out).any():
                    unstable += 1
            del rep
    finally:
        _set_threads(1)
    if got_k == k and (k == 1 or nthreads >= k):
        c.label('threads:%d' % k)
    else:
        # team size could not be confirmed (no libgomp / prange removed / other runtime): coverage information only
        c.label('threads:unverified')
        c.nontrivial = False
    c.check(unstable == 0, {'model': model, 'clause': 'consistent', 'what': 'vectorize_not_reproducible'},
            '%s.vectorize_%s with %d threads, n=%d: %d of %d repetitions differ from the first call' % (model, which, k, n, unstable, repeats))
    # scalar reference: one scalar call per independent draw, then element by element over the whole output
    npool = len(pw) if which == 'frequency' else len(pmu)
    pool_ref = np.empty(npool, dtype=np.complex128)
    with repo_call(model + '.__call__'):
        for i in range(npool):
            pool_ref[i] = inst(float(pw[i]), mu0, eta0) if which == 'frequency' else inst(w0, float(pmu[i]), float(peta[i]))
    nbad, first, unwritten = 0, None, 0
    step = 1 << 18
    for lo in range(0, n, step):
        hi = min(n, lo + step)
        ref = pool_ref[lo:hi] if idx is None else pool_ref[idx[lo:hi]]
        mm = _mismatch(out[lo:hi], ref)
        if mm.any():
            nbad += int(mm.sum())
            o = out[lo:hi]
            unwritten += int((mm & np.isnan(o.real) & np.isnan(o.imag) & ~np.isnan(ref.real)).sum())
            if first is None:
                j = int(np.argmax(mm))
                first = (lo + j, complex(ref[j]), complex(o[j]))
    c.check(nbad == 0, {'model': model, 'clause': 'consistent', 'what': 'vectorize_' + ('frequency' if which == 'frequency' else 'modulus_viscosity')},
            '%s.vectorize_%s with %d threads, n=%d: %d element(s) differ from the scalar call (%d of them never written: still the NaN '
            'the buffer was pre-filled with), first: index %d scalar %r array %r'
            % ((model, which, k, n, nbad, unwritten) + (first if first else (0, 0, 0))))
    # three elements against the law as well
    for i in sorted({0, n // 2, n - 1}):
        w, mu, eta = (float(wv[i]), mu0, eta0) if which == 'frequency' else (w0, float(muv[i]), float(etav[i]))
        if _in_range(w, mu, eta):
            _law_clauses(c, model, args, w, mu, eta, complex(out[i]), where='array')
    return c.result()


def _evaluate_default_args(case):
    rm, _, _ = _mods()
    model = case['model']
    c = Collector(labels=['model:' + model, 'route:default_args'], nontrivial=False)
    with repo_call('construct'):
        a = getattr(rm, model)()
        b = _instance(model, list(R.DEFAULT_ARGS[model]))
    for w, mu, eta in ((1e-6, 5e10, 1e18), (3.3e-9, 7.7e9, 1.2e21), (12.5, 4.4e4, 8.8e3)):
        with repo_call(model + '.__call__'):
            x, y = complex(a(w, mu, eta)), complex(b(w, mu, eta))
        c.check(_same_bits(x, y), {'model': model, 'clause': 'consistent', 'what': 'default_args'},
                '%s() gives %r, %s%r gives %r' % (model, x, model, R.DEFAULT_ARGS[model], y))
        _law_clauses(c, model, list(R.DEFAULT_ARGS[model]), w, mu, eta, x, where='default_args')
    return c.result()


def _evaluate_legacy_jit(case):
    r = _Rng(case['words'])
    c = Collector(labels=['legacy:batch'], nontrivial=True)
    for i in range(int(case['n'])):
        model = MODELS[i % len(MODELS)]
        args = _gen_args(r, model)
        w, mu, eta = _gen_point(r)
        with repo_call('construct'):
            inst = _instance(model, args)
        with repo_call(model + '.__call__'):
            got = complex(inst(w, mu, eta))
        c.label('model:' + model)
        _legacy_clause(c, model, args, w, mu, eta, got, jitted=True)
    return c.result()


_OMP_CHILD = r'''
import sys, json
sys.path.insert(0, %(verif)r)
from vlib import env
env.setup()
import numpy as np
from props import c07_rheology as P
n = %(n)d
bad = []
for model in P.MODELS:
    args = list(P.R.DEFAULT_ARGS[model])
    for which in ('frequency', 'modvisc'):
        case = {'kind': 'array', 'model': model, 'args': args, 'which': which, 'n': n, 'threads': 0,
                'w': 1e-6, 'mu': 5.0e10, 'eta': 1.0e18, 'words': [99, n]}
        wv, muv, etav = P._array_inputs(case)
        inst = P._instance(model, args)
        out = np.full(n, complex(float('nan'), float('nan')), dtype=np.complex128)
        if which == 'frequency':
            inst.vectorize_frequency(wv, 5.0e10, 1.0e18, out)
        else:
            inst.vectorize_modulus_viscosity(1e-6, muv, etav, out)
        for i in range(n):
            s = inst(float(wv[i]), 5.0e10, 1.0e18) if which == 'frequency' else inst(1e-6, float(muv[i]), float(etav[i]))
            if not P._same_bits(s, out[i]):
                bad.append([model, which, i, repr(complex(s)), repr(complex(out[i]))])
print('RESULT ' + json.dumps({'bad': bad[:10], 'nbad': len(bad), 'max_threads': (P._gomp().omp_get_max_threads() if P._gomp() is not None else None),
                              'os_threads': P._os_threads()}))
'''


def _evaluate_omp_env(case):
    k, n = int(case['threads']), int(case['n'])
    c = Collector(labels=['omp_env'], nontrivial=True)
    child_env = dict(os.environ)
    child_env['OMP_NUM_THREADS'] = str(k)
    child_env['VERIF_REPO'] = env.REPO
    p = subprocess.run([env.PY, '-c', _OMP_CHILD % {'verif': env.VERIF, 'n': n}], env=child_env, stdin=subprocess.DEVNULL,
                       capture_output=True, text=True, timeout=600, cwd=env.VERIF)
    line = [ln for ln in p.stdout.splitlines() if ln.startswith('RESULT ')]
    if p.returncode is not None and p.returncode < 0:
        c.fail({'clause': 'consistent', 'what': 'omp_env_subprocess', 'kind': 'killed_by_signal'},
               'subprocess with OMP_NUM_THREADS=%d died with signal %d inside the array helpers\n%s'
               % (k, -p.returncode, (p.stdout + p.stderr)[-1500:]))
        return c.result()
    if p.returncode != 0 or not line:
        raise HarnessError('omp_env child failed rc=%r\n%s' % (p.returncode, (p.stdout + p.stderr)[-1500:]))
    res = json.loads(line[0][7:])
    if res['max_threads'] == k and (k == 1 or res['os_threads'] >= k):
        c.label('threads_env:%d' % k)
    else:
        c.label('threads_env:unverified')
    c.check(res['nbad'] == 0, {'clause': 'consistent', 'what': 'vectorize_under_OMP_NUM_THREADS'},
            'OMP_NUM_THREADS=%d: %d array element(s) differ from the scalar call: %r' % (k, res['nbad'], res['bad']))
    return c.result()


def evaluate(case):
    kind = case['kind']
    if kind == 'scalar':
        return _evaluate_scalar(case)
    if kind == 'array':
        return _evaluate_array(case)
    if kind == 'default_args':
        return _evaluate_default_args(case)
    if kind == 'legacy_jit':
        return _evaluate_legacy_jit(case)
    if kind == 'omp_env':
        return _evaluate_omp_env(case)
    raise ValueError('unknown kind %r' % kind)
