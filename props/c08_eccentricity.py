"""C08 - eccentricity tables equal squared Hansen coefficients to their stated order.

What is checked (exactly the statement, nothing more):
  for every published (l, N)  (l = 2..7, N = 2,4,..,20, plus N = 22 for l = 2), every p = 0..l and
  every q with |q| <= N/2 + 2 (plus any further key the table itself carries):
    * a cell present in the table equals the Taylor expansion of G_lpq(e)^2 =
      [X^{-(l+1),(l-2p)}_{l-2p+q}(e)]^2 coefficient by coefficient through e^N; a cell written as a
      closed form (non-zero coefficients beyond e^N) equals it through e^40 ("all orders" within the
      representable budget); a polynomial cell carries nothing beyond e^N;
    * a cell absent from the table has an exact series that vanishes through e^N;
    * the lookup dictionaries (`eccentricity_truncations[N][l]`, the by-name module functions, and the
      multi-degree helpers `eccentricity_functions_lookup[N][l_max]`) return exactly these tables for
      every l <= l_max - decided on the interpreted (`.py_func`) code with exact series, and on the
      numba-compiled code at generated eccentricities.
  `eccentricity_truncations[22][l >= 3]` (aliases the l = 2 table under a FIXME) is NOT claimed:
  N = 22 is published for l = 2 only (quantifier of the property).

How a polynomial identity is decided by evaluation
  Every table function's un-jitted `.py_func` is called ONCE with `oracles.series.Series.variable(40)`
  (exact truncated power series over fractions.Fraction; float literals are converted exactly;
  `-1/(e2-1.0)**3`-style closed forms are expanded by series inversion).  The call returns all
  coefficients of every cell.  The multi-degree helpers are run the same way through `_dejit`: the
  `.py_func` code object is re-bound to a copy of its globals in which every numba Dispatcher reachable
  as a bare name or as an attribute of a TidalPy module (tables, OTHER helpers, at any depth) is replaced,
  recursively and lazily, by the interpreted twin of the callee (cached, cycle-safe; no repository state
  is modified).  So a helper that delegates to another helper is still evaluated exactly.  If numba
  nevertheless receives the Series (exception raised by numba typing/lowering, not by the table code), the
  case is NOT a violation: it falls back to comparing the compiled helper at 8 eccentricities in (0, 0.6]
  (array and scalar calls) with the exact series for every (l,p,q), key sets included, label
  `lookup:numeric_fallback` (and `exhaustive` is then reported false).  Exceptions raised by the
  interpreted table/helper code itself (KeyError from a dropped entry, ...) remain failures.
  `C08_FORCE_NUMERIC_FALLBACK=1` forces that path (used to test it).
  The TABLE-level evaluation has the same treatment (`getattr(f, 'py_func', f)`, so plain un-jitted functions
  work too): if a Series cannot go through a table (numba error, numpy ufunc / math function / comparison
  applied to e => TypeError, anything raised inside oracles/series.py), the function is called as users
  call it with FLOAT input at the same 8 eccentricities (array + scalar) and compared with the oracle-only
  reference, label `table:numeric_fallback`; an exception on float input is a failure.  The generated
  compiled cases then use the oracle-only reference as well (`compiled:oracle_only_reference`).
  Closed form := a k = l-2p+q = 0 cell carrying terms beyond e^N; every other cell is compared through e^N
  only and whatever it carries beyond e^N is unconstrained (label `cell:extra_order`; the compiled value is
  then compared with exact-through-e^N plus the interpreted twin's own higher terms).  The by-name routes
  `orderl{l}.eccentricity_funcs_trunc{N}` / `eccentricity_funcs_l{l}_trunc{N}` are internal names: checked
  when present, skipped with a `route:*_absent` label otherwise.

Argument forms (the documented type is FloatArray = float | ndarray)
  Every table route (dict entry, by-name, package alias) and every lookup helper is additionally run, in
  every tier, on the interpreted twin with ndarray eccentricities of length 1, length 5 and 0-d
  (`_array_route_py`, label `array_py`): each element must equal the exact oracle (compiled-value
  tolerance) AND the float route of the same function (SAME_RTOL x scale; measured: bit-identical or 1 ulp),
  and the caller's array must be bit-for-bit unchanged (`input_array_modified`).  The interpreted twin is the
  source numba compiles (same in-place/aliasing semantics), needs no compilation and therefore covers ALL
  l = 2..7 and N even in the quick tier; this is what bounds the compile cost.  Generated cases add
  `kind: interp` (twin, all l and N, forms scalar | array | array0d) next to `kind: compiled`, where the
  compiled code sees scalar, array and (N <= 4 in quick, all N in thorough) 0-d array arguments; quick
  compiles l <= 3 at every N and all l <= 7 at N <= 4 (a few seconds), thorough everything.
  Found by this: seeded change C08-3 (closed-form denominator built with `denominator = base; denominator *=
  base` - exact for floats, squares the shared buffer for ndarrays, l = 7 closed-form cells only).

Configuration dimension "numba disabled" (documented switch `[numba] use_numba = false`)
  One persistent worker subprocess per shard (fresh interpreter, `vlib.env.setup()`, then
  `TidalPy.config['numba']['use_numba'] = False` before any TidalPy.tides module is imported; the worker
  proves the fallback is active - `performance.numba.use_numba` is False and tables/helpers are plain
  Python functions - or the run is a harness error) evaluates, with NO compilation, every table route and
  every lookup helper (all l, N; folded into the enumerated `table` / `lookup_py` cases, label `nonumba`) on
  floats (0, 0.3, 0.85), arrays of length 1 and 5 and a 0-d array, and Hypothesis-generated
  `kind: nonumba` cases (path dispatch | lookup, any l, N, form, e).  The values travel back as JSON lines
  over a private pipe pair and are judged in the parent by the same exact oracle / compiled-value
  tolerance / key-set rule as every other route (`where: nonumba_*`); exceptions raised by a call are
  failures; the caller's array must be unchanged.  The unchanged tree passes completely in this
  configuration.  Found by this: seeded change C08-5 (bare `@njit` on a one-argument helper: identity
  function when TidalPy's pure-Python njit fallback is active).

Oracles
  exact      `oracles.hansen`: X^{n,m}_k from the eccentric-anomaly integral expanded as a Laurent
             polynomial in exp(iE) with power-series-in-e rational coefficients, order 24.  For the
             k = l-2p+q = 0 cells (the ones TidalPy writes as closed forms) the shards use the finite
             true-anomaly closed form P_lp(e) (1-e^2)^-(l-1/2) expanded to order 40, which `selftest()`
             proves equal to the integral oracle through e^40 for every (l,p) on every run.
             Self-tested (exit 2 on failure) against Kaula / Murray-Dermott textbook series (G_200,
             G_20-1, G_201, G_202, G_21+-1, G_212, G_300, G_310, G_311, G_20-2 = 0), G_210 = (1-e^2)^-3/2
             to order 40, the independent true-anomaly closed forms for all k = 0 cells of l = 2..7 to
             order 40, and mpmath quadrature of the defining mean-anomaly integral (Kepler's equation
             solved numerically) at four (l,p,q,e) points (agreement < 1e-24).
  compiled   numba-compiled dispatcher / helper value at a generated double e  vs  the exact
             truncated polynomial sum_{k<=N} c_k e^k (polynomial cells) or the exact rational closed form
             P(e)^2/(1-e^2)^(2l-1) (closed cells), both evaluated in exact rational arithmetic at the
             binary value of e.

Tolerances (calibrated on the unchanged tree)
  COEF_RTOL = 5e-13 relative per coefficient, |c_table - c_exact| <= 5e-13 |c_exact| (an exact 0 must be
      exactly 0; closed-form cells turn out to be exactly rational and match with zero deviation).
      The tables are 15-significant-digit decimal literals, i.e. <= 5e-15 relative.  Measured over all
      19 525 non-zero coefficients: 19 521 are within 5.0e-15; the four e^22 coefficients of the l=2, N=22
      table  G^2_{2,0,1}=G^2_{2,2,-1} (0.0289420044285592, exact 0.02894200442855997) and
      G^2_{2,0,2}=G^2_{2,2,-2} (-0.15239674828622, 14 digits) deviate by 2.7e-14 / 7.2e-15 (float noise of
      whatever generated that table; harmless).  Margin over the worst: 19x.  A one-unit slip in any of the
      first 12 significant digits is >= 1e-12 relative, i.e. is caught.  (The design's
      1e-12*max(1,|c|) would have let slips in small coefficients through, so the relative form is used.)
  VAL_RTOL = 1e-13 x sum_k |c_k| e^k for polynomial cells of the compiled code (measured worst 5.8e-15,
      dominated by the literals' own rounding; margin 17x);
  CLOSED_RTOL = 16 ulp x |value| x (1 + (2l-1)/(1-e^2)) for closed-form cells (the factor is the
      conditioning of (e^2-1)^-(2l-1) in e^2; measured worst 0.5 ulp x that scale, 4.2e-15 relative at
      l=7, e=0.899; margin 32x).  Calibration set: every (l<=3, N) plus (4,12), (5,20), (7,8), (7,20), 255
      eccentricities each (0, 0.9, 210 in [0,0.9] with 60 of them in [0.8,0.9], 40 log-uniform in
      1e-8..1e-1), array and scalar signatures.  A wrong table behind a lookup differs by O(1) x scale.
  UNDERFLOW_FLOOR = 1e-300 absolute: for e < ~1e-27 the powers e^k are subnormal and carry no relative
      precision (found by Hypothesis on the first run: e = 3.7e-27, N = 18 - rounding, not a defect).
  SAME_RTOL = 4 ulp x scale between helper output and dispatcher output (measured: bit-identical).

Sensitivity (tools/mut.py on a scratch copy, `-- --cases 1600`; all CAUGHT by the quick tier, log in
/verif/out/mut_c08.log; in brackets the clause(s) that fired)
  M1  orderl5.py trunc18 p=0,q=-4: 1.22969144527851e-5*e18 -> 1.22969144537851e-5 (10th digit of an e^18
      coefficient)                                                [coefficient: truncations, lookup_py]
  M2  orderl3.py trunc2: results[3][1] = results[0][-1] -> results[0][1] (swapped alias)
                                                [coefficient: truncations, lookup_py; compiled_value]
  M3a orderl4.py trunc6: alias line results[3][3] = results[1][-3] removed (dropped q entry)
                                                [absent_cell_nonzero]
  M3b orderl4.py trunc8: dict entry p=1, q=-3 removed (an alias refers to it)   [exception KeyError]
  M4  mode_calc_helper/__init__.py: lookup[8][4] -> eccentricity_truncation_6_maxl_4
                                                [coefficient + absent_cell_nonzero: lookup_py]
  M5  eccentricity_funcs/__init__.py: eccentricity_truncations[10][5] -> eccentricity_funcs_l5_trunc8
                                                [coefficient + absent_cell_nonzero: truncations]
  M6  eccen_calc_orderl3.py truncation_12_maxl_3: 2: orderl2.eccentricity_funcs_trunc12 -> trunc10
                                                [lookup_py; compiled_value + compiled_keys: lookup]
  M7  orderl4.py closed form -0.25*(3.0*e2 + 2.0)**2/(e2-1.0)**7 -> (3.0*e2 + 1.0)
                                                [coefficient + closed_form_tail]
  M8  orderl2.py trunc4 p=0,q=1: -53.8125*e4 -> +53.8125*e4     [coefficient; compiled_value]
No fixes/revert-*.diff concerns these files.
"""
import math
import os
import subprocess
import sys
import types
from fractions import Fraction

from hypothesis import strategies as st

from oracles import hansen as H
from oracles.series import Series
from vlib.result import Collector, HarnessError, repo_call

ID = 'C08'
TECHNIQUE = ('exhaustive enumeration of all (l,N,p,q) table cells evaluated on exact rational power-series arguments against '
             'independently computed Hansen coefficients, plus property-based testing (Hypothesis) of the numba-compiled '
             'dispatchers/lookup helpers at generated eccentricities')
LEVEL = 'exploration'
LEVEL_TEXT = ('Every coefficient of every published table cell (61 tables, ~5 400 (l,N,p,q) cells incl. absent ones, ~20 000 '
              'non-zero coefficients) and every lookup-helper level is compared with the exact rational Taylor coefficient of '
              'the squared Hansen coefficient (finite space, enumerated completely on the interpreted code); the compiled '
              'code is compared with the exact value at generated (l,N,e) points only (exploration, not for all doubles).')
LEVEL_NOTE = ('Trusts: the independent Hansen oracle (self-tested against textbook series, closed forms and mpmath quadrature on '
              'every run), python fractions, that `.py_func` is the source numba compiles, and "all orders" for closed-form '
              'cells means through e^40.  The ndarray argument route of every table/helper is exercised on the interpreted '
              'twin (3 shapes) and, with numba disabled through the documented config switch, in a worker subprocess, in '
              'every tier; the COMPILED code is exercised for l <= 3 (all N) and l <= 7 (N <= 4) in the '
              'quick tier and for all l, N in the thorough tier.')
CASES = {'quick': 16000, 'thorough': 400000}
SHARDS = {'quick': 16, 'thorough': 16}
TIMEOUT = {'quick': 1500, 'thorough': 4 * 3600}
SHRINK_BUDGET = (40, 120.0)

SERIES_ORDER = 40
POLY_ORDER = 24
COEF_RTOL = Fraction(5, 10 ** 13)
VAL_RTOL = 1e-13
CLOSED_RTOL = 16 * 2.0 ** -52
SAME_RTOL = 4 * 2.0 ** -52
UNDERFLOW_FLOOR = 1e-300   # absolute: a term c_k e^k whose power is subnormal has lost its relative precision
E_MAX = 0.9
LS = (2, 3, 4, 5, 6, 7)
NS = (2, 4, 6, 8, 10, 12, 14, 16, 18, 20, 22)
COMPILED_LMAX = {'quick': 3, 'thorough': 7}

RULE = ('Enumerated (fixed cases, complete): one case per published table (l,N) - dispatcher dict entry and by-name function run '
        'on an exact series argument, all p=0..l, |q|<=N/2+2 compared coefficient by coefficient - and one case per lookup '
        'helper (N,l_max), all levels l<=l_max; each also on ndarray arguments (len 1, len 5, 0-d) of the interpreted '
        'twin vs oracle and vs float route, input array unchanged.  Generated (Hypothesis): kind in {compiled (quick: l<=3, '
        'or l<=7 at N<=4), interp (all l,N)}, path in {dispatch, lookup}, N, l, '
        'scalar e, 0-d array or array of 1..5 e, e in [0,0.9] (mixture: 0, uniform, near 0, near 0.9); compiled value vs exact rational '
        'value.  Non-trivial: enumerated case with >=1 present non-zero cell; generated case with at least one e>0 (at e=0 '
        'only constant terms are exercised).  Distinct = distinct case dict (hash).')
ASSUMPTIONS = ['G_lpq(e) = X^{-(l+1),(l-2p)}_{l-2p+q}(e) (Kaula 1966), oracle in oracles/hansen.py, exact rationals',
               'coefficient tolerance 5e-13 relative (15-digit decimal literals; measured worst 2.7e-14 in the l=2,N=22 table)',
               'compiled-value tolerance 1e-13 x sum|c_k|e^k (poly) / 16 ulp x |v|(1+(2l-1)/(1-e^2)) (closed forms), 1e-300 floor',
               'closed-form cells compared through e^40', 'N=22 claimed for l=2 only (FIXME aliases not claimed)']


def published(l, N):
    return l in LS and N in NS and (N != 22 or l == 2)


# ---------------------------------------------------------------------------------------------------
# repository access
# ---------------------------------------------------------------------------------------------------

_repo = {}


def _mods():
    if not _repo:
        import importlib
        import logging
        logging.getLogger('TidalPy').setLevel(logging.ERROR)
        ef = importlib.import_module('TidalPy.tides.eccentricity_funcs')
        logging.getLogger('TidalPy').setLevel(logging.ERROR)
        for h in logging.getLogger('TidalPy').handlers:
            h.setLevel(logging.ERROR)
        mh = importlib.import_module('TidalPy.tides.modes.mode_calc_helper')
        _repo['ef'] = ef
        _repo['mh'] = mh
        _repo['order'] = {l: importlib.import_module('TidalPy.tides.eccentricity_funcs.orderl%d' % l) for l in LS}
        _repo['calc'] = {l: importlib.import_module('TidalPy.tides.modes.mode_calc_helper.eccen_calc_orderl%d' % l)
                         for l in LS}
    return _repo


def _py(f):
    return getattr(f, 'py_func', f)


_dejit_cache = {}


def _is_dispatcher(x):
    return callable(x) and hasattr(x, 'py_func') and type(x).__module__.split('.')[0] == 'numba'


class _ModuleProxy:
    """Attribute view of a repository module in which every numba Dispatcher (at any attribute depth, e.g.
    `eccen_calc_orderl6.eccentricity_truncation_16_maxl_6`, `orderl5.eccentricity_funcs_trunc8`) is
    replaced by its interpreted twin running under the same substitution."""

    def __init__(self, mod):
        object.__setattr__(self, '_mod', mod)

    def __getattr__(self, name):
        return _subst(getattr(object.__getattribute__(self, '_mod'), name))

    def __repr__(self):
        return '<dejit proxy of %r>' % (object.__getattribute__(self, '_mod'),)


def _subst(v):
    if _is_dispatcher(v):
        return _dejit(v)
    if isinstance(v, types.ModuleType) and v.__name__.split('.')[0] == 'TidalPy':
        return _ModuleProxy(v)
    return v


def _dejit(fn):
    """Interpreted twin of a jitted function: its `.py_func` code object re-bound to a copy of its globals in
    which every reachable numba Dispatcher (bare imported name or attribute of a TidalPy module) is replaced,
    recursively and lazily, by the twin of the callee - so a helper may call tables or OTHER helpers and an
    exact Series argument never reaches numba.  Twins are cached per py_func (the cache entry is created
    before the callee globals are resolved, which also terminates call cycles).  Repository module state is
    not modified."""
    pf = _py(fn)
    key = id(pf)
    hit = _dejit_cache.get(key)
    if hit is not None:
        return hit[1]
    holder = {}

    def twin(*args, **kwargs):
        f = holder.get('f')
        if f is None:
            g = {name: _subst(val) for name, val in pf.__globals__.items()}
            f = holder['f'] = types.FunctionType(pf.__code__, g, pf.__name__, pf.__defaults__, pf.__closure__)
            f.__kwdefaults__ = pf.__kwdefaults__
        return f(*args, **kwargs)
    twin.__name__ = getattr(pf, '__name__', 'twin')
    _dejit_cache[key] = (pf, twin)
    return twin


def _numba_raised(exc):
    """True when the exception comes out of numba's typing/lowering/dispatch machinery (a Series reached a
    compiled function), False when the interpreted table/helper code itself raised (KeyError, ...)."""
    import traceback
    seen = set()
    e = exc
    while e is not None and id(e) not in seen:
        seen.add(id(e))
        if type(e).__module__.split('.')[0] in ('numba', 'llvmlite'):
            return True
        for fs in traceback.extract_tb(e.__traceback__):
            fn = fs.filename.replace(os.sep, '/')
            if '/numba/' in fn or '/llvmlite/' in fn:
                return True
        e = e.__cause__ or e.__context__
    return False


class _ExactUnavailable(Exception):
    """The function cannot be evaluated on a Series argument (harness limitation, not a verdict)."""


def _exact_unavailable(exc):
    """Does this exception, raised while a Series travelled through repository code, mean "the exact
    evaluation is impossible here" rather than "the table code is broken"?  Yes when it comes out of numba
    (typing/lowering: a Series reached compiled code), out of oracles/series.py (unsupported operation) or is
    a TypeError / AttributeError / NotImplementedError (numpy ufunc, math.*, comparison, `.shape`, ... applied
    to a Series).  The numeric fallback then calls the function with FLOAT input, where any exception of the
    table code is a failure again - so a genuinely broken table cannot hide behind this.  KeyError,
    IndexError, NameError, ... raised by the interpreted table code stay failures directly."""
    import traceback
    if _numba_raised(exc):
        return True
    if isinstance(exc, (TypeError, AttributeError, NotImplementedError)):
        return True
    tb = traceback.extract_tb(exc.__traceback__)
    return bool(tb) and tb[-1].filename.replace(os.sep, '/').endswith('oracles/series.py')


_VAR = Series.variable(SERIES_ORDER)
_series_cache = {}


def _table_series(fn):
    """fn.py_func(exact series) -> ({p: {q: Series}}, n_aliased), cached per function object; works for
    numba dispatchers and plain functions alike.  Raises _ExactUnavailable (also cached) when a Series
    cannot go through the function."""
    pf = _py(fn)
    key = id(pf)
    if key in _series_cache and _series_cache[key][1] is None:
        raise _ExactUnavailable(_series_cache[key][2])
    if key not in _series_cache:
        try:
            if os.environ.get('C08_FORCE_NUMERIC_FALLBACK'):
                raise _ExactUnavailable('forced by C08_FORCE_NUMERIC_FALLBACK')
            with repo_call('table.py_func(series)'):
                raw = _dejit(fn)(_VAR)
        except _ExactUnavailable as e:
            _series_cache[key] = (pf, None, str(e))
            raise
        except Exception as e:  # noqa
            cause = getattr(e, 'exc', e)
            if not _exact_unavailable(cause):
                raise
            _series_cache[key] = (pf, None, '%s: %s' % (type(cause).__name__, cause))
            raise _ExactUnavailable(_series_cache[key][2])
        out = {}
        ident = {}
        for p in raw:
            out[p] = {}
            for q in raw[p]:
                v = raw[p][q]
                if not isinstance(v, Series):
                    v = Series.constant(v, SERIES_ORDER)
                out[p][q] = v
                ident.setdefault(id(raw[p][q]), []).append((p, q))
        aliased = sum(len(v) - 1 for v in ident.values())
        _series_cache[key] = (pf, out, aliased)
    return _series_cache[key][1], _series_cache[key][2]


# ---------------------------------------------------------------------------------------------------
# exact oracle
# ---------------------------------------------------------------------------------------------------

_k0_cache = {}


def _exact(l, p, q, closed=False):
    """Exact coefficients of G_lpq^2.

    k = l-2p+q != 0: eccentric-anomaly-integral oracle through e^24 (e^40 if a closed form is claimed).
    k = 0 (the cells TidalPy writes as closed forms): square of the finite true-anomaly closed form
    through e^40; `selftest()` proves on every run that this equals the integral oracle to e^40 for
    every (l, p), so the shards need not repeat the expensive order-40 expansion."""
    k = l - 2 * p + q
    if k == 0:
        key = (l, p)
        if key not in _k0_cache:
            g = H.g_closed_k0_series(l, p, SERIES_ORDER)
            _k0_cache[key] = tuple(H._mul(g, g, SERIES_ORDER))
        return _k0_cache[key]
    return H.g2_lpq(l, p, q, SERIES_ORDER if closed else POLY_ORDER)


def selftest():
    H.selftest(quad=True)       # includes: integral oracle == closed forms to e^40 for all k=0 cells
    # series class: exact float conversion, inversion, integer powers
    e = Series.variable(12)
    e2 = e * e
    s = -1 / (e2 - 1.0) ** 3
    assert s.coeffs(8) == [1, 0, 3, 0, 6, 0, 10, 0, 15]
    assert (0.1 * e)[1] == Fraction(0.1) != Fraction(1, 10)
    assert (e ** 8)[8] == 1 and (e ** 13).is_zero()
    t = -0.25 * e2 * (e2 + 2.0) ** 2 / (e2 - 1.0) ** 7
    assert t[2] == 1 and t[4] == 8
    assert ((1 - e2).sqrt() ** 2) == Series({0: 1, 2: -1}, 12)
    try:
        math.sqrt(e)
    except TypeError:
        pass
    else:
        raise AssertionError('Series must not be convertible to float')
    # closed rational form agrees with the order-40 series at a small e
    v = H.g2_closed_k0_value(5, 2, Fraction(1, 64))
    w = H.series_value(H.g2_lpq(5, 2, -1, 40), Fraction(1, 64))
    assert abs(v - w) < Fraction(1, 10 ** 60)


# ---------------------------------------------------------------------------------------------------
# exhaustive part
# ---------------------------------------------------------------------------------------------------

def _check_table(c, l, N, res, where, counts):
    """Compare one table result {p:{q:Series}} for degree l, truncation N with the exact oracle."""
    qmax = N // 2 + 2
    sig = {'where': where, 'l': l}
    bad_coef, bad_absent, bad_tail, bad_key = [], [], [], []
    keys_p = sorted(res)
    for p in keys_p:
        if not (isinstance(p, int) and 0 <= p <= l):
            bad_key.append('p=%r' % (p,))
    for p in range(l + 1):
        row = res.get(p, {})
        qs = set(range(-qmax, qmax + 1)) | set(row)
        for q in sorted(qs):
            if q not in row:
                ex = _exact(l, p, q)
                nz = [(i, ex[i]) for i in range(N + 1) if ex[i] != 0]
                counts['absent'] += 1
                if nz:
                    bad_absent.append('(p=%d,q=%d) missing but exact G^2 has %s*e^%d' % (p, q, nz[0][1], nz[0][0]))
                continue
            s = row[q]
            # closed forms = the k = l-2p+q = 0 cells written with terms beyond e^N: equal "to all orders"
            # (through e^40).  Any other cell is compared through e^N only; what it carries beyond e^N is
            # not constrained by the statement (counted under 'extra_order').
            closed = s.degree() > N and (l - 2 * p + q) == 0
            ex = _exact(l, p, q, closed)
            upto = SERIES_ORDER if closed else N
            counts['closed' if closed else 'poly'] += 1
            if s.degree() > N and not closed:
                counts['extra_order'] += 1
            if s.is_zero():
                counts['present_zero'] += 1
            for i in range(upto + 1):
                a = s[i]
                b = ex[i]
                if a == b:
                    if b != 0:
                        counts['coef'] += 1
                    continue
                counts['coef'] += 1
                if abs(a - b) > COEF_RTOL * abs(b):
                    (bad_coef if i <= N else bad_tail).append(
                        '(p=%d,q=%d) e^%d: table %.17g exact %.17g (%s)' % (p, q, i, float(a), float(b), b))
    if bad_key:
        c.fail(dict(sig, clause='unexpected_key'), 'l=%d N=%d %s: %s' % (l, N, where, '; '.join(bad_key[:8])))
    if bad_absent:
        c.fail(dict(sig, clause='absent_cell_nonzero'),
               'l=%d N=%d %s: %d cell(s): %s' % (l, N, where, len(bad_absent), '; '.join(bad_absent[:8])))
    if bad_coef:
        c.fail(dict(sig, clause='coefficient'),
               'l=%d N=%d %s: %d coefficient(s) differ through e^N: %s' % (l, N, where, len(bad_coef), '; '.join(bad_coef[:8])))
    if bad_tail:
        c.fail(dict(sig, clause='closed_form_tail'),
               'l=%d N=%d %s: %d coefficient(s) beyond e^N differ: %s' % (l, N, where, len(bad_tail), '; '.join(bad_tail[:8])))


def _new_counts():
    return {'absent': 0, 'closed': 0, 'poly': 0, 'coef': 0, 'present_zero': 0, 'extra_order': 0}


def _count_labels(c, counts, aliased, pre):
    # measured counts travel to the evidence file as '<name>=<value>' labels (summed in extra_coverage)
    c.label('%s_present=%d' % (pre, counts['closed'] + counts['poly']), '%s_absent=%d' % (pre, counts['absent']),
            '%s_coef=%d' % (pre, counts['coef']), '%s_closed=%d' % (pre, counts['closed']),
            '%s_aliased=%d' % (pre, aliased))
    if counts['closed']:
        c.label('cell:closed')
    if counts['poly']:
        c.label('cell:poly')
    if counts['absent']:
        c.label('cell:absent')
    if aliased:
        c.label('cell:aliased')
    if counts['present_zero']:
        c.label('cell:present_zero')
    if counts['extra_order']:
        c.label('cell:extra_order')


ARRAY_SHAPES = (('len1', [0.4]), ('len5', [0.0, 0.05, 0.3, 0.6, 0.85]), ('0d', [0.25]))


def _array_route_py(c, fn, N, levels_of, where):
    """The documented argument type is FloatArray: run the interpreted twin (the source numba compiles; no
    compilation needed, so ALL tables/helpers get this in every tier) with ndarray eccentricities of length
    1, length 5 and 0-d, and require (a) every element == exact oracle (compiled-value tolerance), (b) every
    element == the float route of the same function within SAME_RTOL x scale, (c) the caller's array is
    bit-for-bit unchanged.  `levels_of(out, n)` -> {l: {(p,q): [values]}}."""
    import numpy as np
    twin = _dejit(fn)
    c.label('array_py')
    for name, es in ARRAY_SHAPES:
        arr = np.asarray(es[0] if name == '0d' else es, dtype=np.float64)
        keep = arr.tobytes()
        with np.errstate(all='ignore'):
            with repo_call('%s.py_func(ndarray %s)' % (where, name)):
                per = levels_of(twin(arr), len(es))
            with repo_call('%s.py_func(float)' % where):
                perf = [levels_of(twin(float(x)), 1) for x in es]
        c.check(arr.tobytes() == keep, {'clause': 'input_array_modified', 'where': where + '_array_py'},
                'N=%d %s: the caller\'s %s eccentricity array was modified: now %r' % (N, where, name, arr))
        for l in sorted(per):
            if not published(l, N):
                continue
            ref, _ = _compare_level(c, l, N, per[l], es, where + '_array_py')
            bad = []
            for key in sorted(set(per[l]) & set(ref)):
                for i, x in enumerate(es):
                    if i >= len(per[l][key]) or l not in perf[i] or key not in perf[i][l]:
                        continue
                    a = per[l][key][i]
                    b = perf[i][l][key][0]
                    if not (a == b or abs(a - b) <= SAME_RTOL * ref[key][i][2] + UNDERFLOW_FLOOR):
                        bad.append('(p=%d,q=%d) e=%r: array route %.17g float route %.17g' % (key[0], key[1], x, a, b))
            if bad:
                c.fail({'clause': 'array_route_differs_from_float_route', 'where': where + '_array_py', 'l': l},
                       'l=%d N=%d %s (%s): %d element(s): %s' % (l, N, where, name, len(bad), '; '.join(bad[:6])))


def _table_numeric_fallback(c, fn, l, N, where):
    """Exact evaluation of this table function is impossible: compare the function as users call it (compiled
    dispatcher, or the plain function if it is not jitted) at 8 eccentricities in (0, 0.6], array and scalar
    call, with the exact series for every (p,q) (oracle-only reference, compiled-value tolerance, key sets
    included).  An exception on FLOAT input is a failure of the table code."""
    import numpy as np
    c.label('table:numeric_fallback')
    arr = np.asarray(FALLBACK_E, dtype=np.float64)
    with repo_call('%s(float) l=%d N=%d' % (where, l, N)):
        got = _to_plain(_call_compiled(fn, arr), len(FALLBACK_E))
        scal = [_to_plain(_call_compiled(fn, float(x)), 1) for x in FALLBACK_E]
    _compare_level(c, l, N, got, FALLBACK_E, where + '_numeric', direct=True)
    for x, o in zip(FALLBACK_E, scal):
        before = len(c.fails)
        _compare_level(c, l, N, o, [x], where + '_numeric', direct=True)
        if len(c.fails) > before:
            break
    return len(got)


def _eval_table(case):
    l, N = int(case['l']), int(case['N'])
    m = _mods()
    c = Collector(labels=['table', 'l:%d' % l, 'N:%d' % N])
    counts = _new_counts()
    with repo_call('eccentricity_truncations[N][l]'):
        fn = m['ef'].eccentricity_truncations[N][l]
    # the dict entry is the published interface; the by-name routes are checked when they exist
    byname = getattr(m['order'].get(l), 'eccentricity_funcs_trunc%d' % N, None)
    byname2 = getattr(m['ef'], 'eccentricity_funcs_l%d_trunc%d' % (l, N), None)
    if byname is None:
        c.label('route:by_name_absent')
    if byname2 is None:
        c.label('route:package_alias_absent')
    aliased = 0
    ncell_numeric = 0
    seen = []
    for f, where in ((fn, 'truncations'), (byname, 'by_name'), (byname2, 'package_alias')):
        if f is None or any(_py(f) is g for g in seen):
            continue
        seen.append(_py(f))
        first = where == 'truncations'
        try:
            res, al = _table_series(f)
        except _ExactUnavailable:
            n = _table_numeric_fallback(c, f, l, N, where)
            if first:
                ncell_numeric = n
            continue
        _check_table(c, l, N, res, where, counts if first else _new_counts())
        if first:
            aliased = al
        _array_route_py(c, f, N, lambda out, n, _l=l: {_l: _to_plain(out, n)}, where)
        _nonumba_route(c, where, N, l, NN_CALLS, 'nonumba_' + where)
    _count_labels(c, counts, aliased, 'nt')
    if ncell_numeric:
        c.label('nt_numeric_cells=%d' % ncell_numeric)
    c.nontrivial = counts['coef'] > 0 or ncell_numeric > 0
    return c.result()


def _eval_lookup_py(case):
    N, lmax = int(case['N']), int(case['lmax'])
    m = _mods()
    c = Collector(labels=['lookup_py', 'lmax:%d' % lmax, 'N:%d' % N])
    with repo_call('eccentricity_functions_lookup[N][lmax]'):
        helper = m['mh'].eccentricity_functions_lookup[N][lmax]
    raw = None
    if not os.environ.get('C08_FORCE_NUMERIC_FALLBACK'):
        try:
            with repo_call('helper.py_func(series)'):
                raw = _dejit(helper)(_VAR)
        except Exception as e:  # noqa
            cause = getattr(e, 'exc', e)
            if not _exact_unavailable(cause):
                raise               # the interpreted table / helper code itself raised: a genuine failure
            raw = None
    if raw is None:
        return _lookup_numeric_fallback(c, helper, N, lmax)
    levels = sorted(raw)
    c.check(levels == list(range(2, lmax + 1)), {'clause': 'lookup_levels', 'where': 'lookup_py'},
            'lookup[%d][%d] returned levels %r, expected 2..%d' % (N, lmax, levels, lmax))
    counts = _new_counts()
    for l in levels:
        if not published(l, N):
            continue
        res = {p: {q: (v if isinstance(v, Series) else Series.constant(v, SERIES_ORDER)) for q, v in row.items()}
               for p, row in raw[l].items()}
        _check_table(c, l, N, res, 'lookup_py', counts)
    _array_route_py(c, helper, N, lambda out, n: {int(k): _to_plain(out[k], n) for k in out}, 'lookup_py')
    _nonumba_route(c, 'lookup', N, lmax, NN_CALLS, 'nonumba_lookup')
    _count_labels(c, counts, 0, 'nl')
    c.nontrivial = counts['coef'] > 0
    return c.result()


# ---------------------------------------------------------------------------------------------------
# compiled part
# ---------------------------------------------------------------------------------------------------

_ref_cache = {}


def _cells(l, N):
    """[(p, q, closed, (D, integer numerators of the reference coefficients))] per table cell, or None when the
    table cannot be evaluated exactly."""
    key = (l, N)
    if key not in _ref_cache:
        fn = _mods()['ef'].eccentricity_truncations[N][l]
        try:
            res, _ = _table_series(fn)
        except _ExactUnavailable:
            _ref_cache[key] = None          # callers switch to the oracle-only ("direct") reference
            return None
        out = []
        for p in sorted(res):
            for q in sorted(res[p]):
                s = res[p][q]
                closed = s.degree() > N and (l - 2 * p + q) == 0
                ex = list(_exact(l, p, q)[:N + 1])
                if not closed and s.degree() > N:
                    # terms beyond e^N of a non-closed cell are unconstrained by the statement; the compiled
                    # code must merely agree with its own interpreted twin there
                    ex += [s[i] for i in range(N + 1, s.degree() + 1)]
                out.append((p, q, closed, _int_poly(ex)))
        _ref_cache[key] = out
    return _ref_cache[key]


def _int_poly(ex):
    """Common denominator D and integer numerators n_k with c_k = n_k / D."""
    D = 1
    for ck in ex:
        D = D * ck.denominator // math.gcd(D, ck.denominator)
    return D, [int(ck * D) for ck in ex]


def _direct_cells(l, N, keys):
    """Reference cells built from the oracle alone (no interpreted table needed): k = 0 -> closed form."""
    return [(p, q, (l - 2 * p + q) == 0, _int_poly(_exact(l, p, q)[:N + 1])) for (p, q) in sorted(keys)]


def _reference(l, N, evals, cells=None):
    """{(p,q): [(ref float, tolerance, error scale) per e]}: exact rational evaluation at the binary value of e
    (integer arithmetic: e = a/b with b a power of two; int/int true division is correctly rounded)."""
    out = {}
    pows = []
    cells = _cells(l, N) if cells is None else cells
    top = max([N] + [len(ip[1]) - 1 for _, _, closed, ip in cells if not closed])
    for x in evals:
        a, b = float(x).as_integer_ratio()
        pa = [1]
        pb = [1]
        for _ in range(top):
            pa.append(pa[-1] * a)
            pb.append(pb[-1] * b)
        pows.append((pa, pb))
    for p, q, closed, ip in cells:
        lst = []
        for x, (pa, pb) in zip(evals, pows):
            if closed:
                v = H.g2_closed_k0_value(l, p, Fraction(x))
                fv = v.numerator / v.denominator
                scale = fv * (1.0 + (2 * l - 1) / (1.0 - float(x) ** 2))
                lst.append((fv, CLOSED_RTOL * scale + UNDERFLOW_FLOOR, scale))
            else:
                D, nk = ip
                M = len(nk) - 1
                num = 0
                mag = 0
                for k, n in enumerate(nk):
                    if n:
                        t = n * pa[k] * pb[M - k]
                        num += t
                        mag += abs(t)
                den = D * pb[M]
                scale = mag / den
                lst.append((num / den, VAL_RTOL * scale + UNDERFLOW_FLOOR, scale))
        out[(p, q)] = lst
    return out


def _to_plain(out, n):
    """numba typed dict {p:{q: float|ndarray}} -> {(p,q): [float]*n}"""
    res = {}
    for p in out:
        row = out[p]
        for q in row:
            v = row[q]
            if hasattr(v, 'shape') and getattr(v, 'shape', ()) != ():
                vals = [float(x) for x in v]
            else:
                vals = [float(v)]
            res[(int(p), int(q))] = vals
    return res


def _compare_level(c, l, N, got, evals, where, direct=False):
    """direct=False: reference cells/key set = the (exactly verified) interpreted table.
    direct=True : reference from the oracle alone; key set: every absent (p,q) of the grid must vanish
                  through e^N, every present key is compared (k = 0 as closed form, else truncated polynomial)."""
    sig = {'clause': 'compiled_value', 'where': where, 'l': l}
    if not direct and _cells(l, N) is None:
        direct = True
        c.label('compiled:oracle_only_reference')
    if direct:
        qmax = N // 2 + 2
        okkeys = {k for k in got if 0 <= k[0] <= l}
        ref = _reference(l, N, evals, _direct_cells(l, N, okkeys))
        missing = []
        for p in range(l + 1):
            for q in range(-qmax, qmax + 1):
                if (p, q) not in got and any(x != 0 for x in _exact(l, p, q)[:N + 1]):
                    missing.append((p, q))
        extra = sorted(set(got) - okkeys)
        c.check(not missing and not extra, {'clause': 'compiled_keys', 'where': where, 'l': l},
                'l=%d N=%d %s: cells missing although exact G^2 is non-zero through e^N: %r; keys outside p=0..l: %r'
                % (l, N, where, missing[:8], extra[:6]))
        gk = rk = okkeys
    else:
        ref = _reference(l, N, evals)
        gk, rk = set(got), set(ref)
        c.check(gk == rk, {'clause': 'compiled_keys', 'where': where, 'l': l},
                'l=%d N=%d %s: compiled keys differ from interpreted table: missing %r extra %r'
                % (l, N, where, sorted(rk - gk)[:6], sorted(gk - rk)[:6]))
    bad = []
    worst = 0.0
    for key in sorted(gk & rk):
        vals = got[key]
        if len(vals) != len(evals):
            bad.append('%r: %d values for %d eccentricities' % (key, len(vals), len(evals)))
            continue
        for x, g, (r, tol, scale) in zip(evals, vals, ref[key]):
            d = abs(g - r)
            ok = (d <= tol) if math.isfinite(g) else False
            if scale > 0 and math.isfinite(g):
                worst = max(worst, d / scale)
            if not ok:
                bad.append('(p=%d,q=%d) e=%r: compiled %.17g exact %.17g |diff|=%.3g tol=%.3g'
                           % (key[0], key[1], x, g, r, d, tol))
    if bad:
        c.fail(sig, 'l=%d N=%d %s: %d value(s) off: %s' % (l, N, where, len(bad), '; '.join(bad[:6])))
    return ref, worst


def _call_compiled(fn, arg):
    """fn(arg); an OSError raised by numba's on-disk cache I/O (the shared cache directory can be pruned by
    a concurrently running tool) is infrastructure, not the code under test: recreate the directory and
    retry, then give up with a harness error - never a violation."""
    import traceback
    for attempt in range(3):
        try:
            return fn(arg)
        except OSError as e:
            tb = ''.join(traceback.format_tb(e.__traceback__))
            if 'numba/core/caching.py' not in tb:
                raise
            last = e
            try:
                os.makedirs(os.environ.get('NUMBA_CACHE_DIR', '/tmp/c08-nbcache'), exist_ok=True)
            except OSError:
                pass
    raise HarnessError('numba cache I/O failed three times: %r' % (last,))


FALLBACK_E = [0.03, 0.09, 0.17, 0.26, 0.34, 0.43, 0.52, 0.6]


def _lookup_numeric_fallback(c, helper, N, lmax):
    """Exact evaluation of the helper was impossible (numba refused the Series somewhere the generic
    de-jitting could not reach): compare the COMPILED helper at 8 eccentricities in (0, 0.6], scalar and
    array call, with the exact series for every (l,p,q) (oracle-only reference, compiled-value tolerance,
    key sets included).  A truncation level off by one changes values by ~e^N x coefficient, i.e. >= 1e-9 x
    scale at e = 0.6, N <= 22 - four orders above the tolerance."""
    import numpy as np
    c.label('lookup:numeric_fallback')
    arr = np.asarray(FALLBACK_E, dtype=np.float64)
    with repo_call('compiled eccentricity_functions_lookup[%d][%d]' % (N, lmax)):
        out = _call_compiled(helper, arr)
        levels = sorted(int(k) for k in out)
        per = {int(k): _to_plain(out[k], len(FALLBACK_E)) for k in out}
        scal = []
        for x in FALLBACK_E:
            o = _call_compiled(helper, float(x))
            scal.append({int(k): _to_plain(o[k], 1) for k in o})
    c.check(levels == list(range(2, lmax + 1)), {'clause': 'lookup_levels', 'where': 'lookup_numeric'},
            'compiled lookup[%d][%d] returned levels %r, expected 2..%d' % (N, lmax, levels, lmax))
    ncell = 0
    for l in levels:
        if not published(l, N):
            continue
        _compare_level(c, l, N, per[l], FALLBACK_E, 'lookup_numeric', direct=True)
        ncell += len(per[l])
        for x, o in zip(FALLBACK_E, scal):
            if sorted(o) != levels or l not in o:
                c.fail({'clause': 'lookup_levels', 'where': 'lookup_numeric'}, 'scalar call e=%r returned levels %r' % (x, sorted(o)))
                continue
            before = len(c.fails)
            _compare_level(c, l, N, o[l], [x], 'lookup_numeric', direct=True)
            if len(c.fails) > before:
                break               # one report per level is enough
    c.label('nl_numeric_cells=%d' % ncell)
    c.nontrivial = ncell > 0
    return c.result()


def _arg(case):
    import numpy as np
    evals = [float(x) for x in case['e']]
    if case['form'] == 'scalar':
        evals = evals[:1]
        return evals, evals[0]
    if case['form'] == 'array0d':
        evals = evals[:1]
        return evals, np.asarray(evals[0], dtype=np.float64)
    return evals, np.asarray(evals, dtype=np.float64)


def _eval_compiled(case):
    m = _mods()
    N, l = int(case['N']), int(case['l'])
    path = case['path']
    evals, arg = _arg(case)
    interp = case['kind'] == 'interp'       # interpreted twin (all l in every tier) instead of the compiled code
    run = (lambda f, a: _dejit(f)(a)) if interp else _call_compiled
    keep = arg.tobytes() if hasattr(arg, 'tobytes') else None
    c = Collector(labels=[('interp:' if interp else 'compiled:') + path, 'l:%d' % l, 'N:%d' % N, case['form']],
                  nontrivial=any(x > 0.0 for x in evals))
    emax = max(evals)
    c.label('e:zero' if emax == 0.0 else 'e:small' if emax < 0.1 else 'e:large' if emax > 0.7 else 'e:mid')
    if 0.0 in evals:
        c.label('e:has_zero')
    worst = 0.0
    if path == 'dispatch':
        with repo_call('compiled eccentricity_truncations[%d][%d]' % (N, l)):
            out = run(m['ef'].eccentricity_truncations[N][l], arg)
            got = _to_plain(out, len(evals))
        _, worst = _compare_level(c, l, N, got, evals, 'interp_dispatch' if interp else 'dispatch')
    else:
        lmax = l
        with repo_call('compiled eccentricity_functions_lookup[%d][%d]' % (N, lmax)):
            out = run(m['mh'].eccentricity_functions_lookup[N][lmax], arg)
            levels = sorted(int(k) for k in out)
            per = {int(k): _to_plain(out[k], len(evals)) for k in out}
        c.check(levels == list(range(2, lmax + 1)), {'clause': 'lookup_levels', 'where': 'lookup'},
                'compiled lookup[%d][%d] returned levels %r' % (N, lmax, levels))
        for ll in levels:
            if not published(ll, N):
                continue
            ref, w = _compare_level(c, ll, N, per[ll], evals, 'interp_lookup' if interp else 'lookup')
            worst = max(worst, w)
            with repo_call('compiled eccentricity_truncations[%d][%d]' % (N, ll)):
                direct = _to_plain(run(m['ef'].eccentricity_truncations[N][ll], arg), len(evals))
            bad = []
            if set(direct) != set(per[ll]):
                bad.append('key sets differ')
            for key in sorted(set(direct) & set(per[ll]) & set(ref)):
                for x, a, b, (r, tol, scale) in zip(evals, per[ll][key], direct[key], ref[key]):
                    if not (a == b or abs(a - b) <= SAME_RTOL * scale + UNDERFLOW_FLOOR):
                        bad.append('(p=%d,q=%d) e=%r: helper %.17g dispatcher %.17g' % (key[0], key[1], x, a, b))
            if bad:
                c.fail({'clause': 'lookup_differs_from_dispatcher', 'l': ll},
                       'N=%d lmax=%d l=%d: %s' % (N, lmax, ll, '; '.join(bad[:6])))
    if keep is not None:
        c.check(arg.tobytes() == keep, {'clause': 'input_array_modified', 'where': ('interp_' if interp else '') + path},
                'N=%d l=%d %s: the caller\'s eccentricity array was modified: %r -> %r' % (N, l, path, evals, arg))
    if os.environ.get('C08_CALIBRATE'):
        c.label('worst<=1e%d' % (math.ceil(math.log10(worst)) if worst > 0 else -99))
    return c.result()


# ---------------------------------------------------------------------------------------------------
# configuration dimension "numba disabled" (documented switch [numba] use_numba = false)
# ---------------------------------------------------------------------------------------------------
# A worker subprocess (fresh interpreter, vlib.env.setup(), `TidalPy.config['numba']['use_numba'] = False`
# BEFORE any TidalPy.tides module is imported) evaluates tables / helpers on float, ndarray and 0-d
# arguments and sends the values back; the parent judges them with the same oracle and tolerance as every
# other route.  No numba compilation happens there.  Requests/replies are JSON lines over a private pipe
# pair (not stdin: env.setup() points fd 0 at /dev/null).

_NN = {}


def _nonumba_worker_main(rfd, wfd):
    import json
    import traceback
    import numpy as np
    import TidalPy
    TidalPy.config['numba']['use_numba'] = False
    import TidalPy.utilities.performance.numba as perf
    import importlib
    ef = importlib.import_module('TidalPy.tides.eccentricity_funcs')
    mh = importlib.import_module('TidalPy.tides.modes.mode_calc_helper')
    order = {l: importlib.import_module('TidalPy.tides.eccentricity_funcs.orderl%d' % l) for l in LS}
    inp = os.fdopen(rfd, 'r')
    out = os.fdopen(wfd, 'w')

    def plain(f):
        return isinstance(f, types.FunctionType) and not hasattr(f, 'py_func')

    def send(obj):
        out.write(json.dumps(obj) + '\n')
        out.flush()

    send({'ready': True, 'use_numba': bool(perf.use_numba), 'njit_is_numba': getattr(perf.njit, '__module__', '') != perf.__name__,
          'sample_plain': plain(ef.eccentricity_truncations[2][2]) and plain(mh.eccentricity_functions_lookup[2][2])})

    def flat(tab, n):
        cells = []
        for p in tab:
            for q in tab[p]:
                v = tab[p][q]
                a = np.asarray(v, dtype=np.float64)
                cells.append([int(p), int(q), [float(x) for x in a.ravel()], type(v).__name__])
        return cells

    for line in inp:
        req = json.loads(line)
        if req.get('quit'):
            break
        rep = {'results': []}
        try:
            N, l, route = req['N'], req['l'], req['route']
            if route == 'truncations':
                fn = ef.eccentricity_truncations[N][l]
            elif route == 'by_name':
                fn = getattr(order[l], 'eccentricity_funcs_trunc%d' % N, None)
            elif route == 'package_alias':
                fn = getattr(ef, 'eccentricity_funcs_l%d_trunc%d' % (l, N), None)
            else:
                fn = mh.eccentricity_functions_lookup[N][l]
            if fn is None:
                rep['absent'] = True
            else:
                rep['plain'] = plain(fn)
                for call in req['calls']:
                    es = call['e']
                    arg = float(es[0]) if call['form'] == 'scalar' else \
                        np.asarray(es[0] if call['form'] == 'array0d' else es, dtype=np.float64)
                    keep = arg.tobytes() if hasattr(arg, 'tobytes') else None
                    try:
                        with np.errstate(all='ignore'):
                            o = fn(arg)
                        if route == 'lookup':
                            vals = {str(int(k)): flat(o[k], len(es)) for k in o}
                        else:
                            vals = {str(l): flat(o, len(es))}
                        rep['results'].append({'values': vals, 'modified': keep is not None and arg.tobytes() != keep})
                    except Exception as e:  # noqa - reported to the parent as a failure of the call
                        rep['results'].append({'error': {'type': type(e).__name__, 'msg': str(e)[:300],
                                                         'tb': traceback.format_exc()[-1200:]}})
        except Exception as e:  # noqa
            rep['error'] = {'type': type(e).__name__, 'msg': str(e)[:300], 'tb': traceback.format_exc()[-1200:]}
        send(rep)


def _nonumba_worker():
    import atexit
    import json
    from vlib import env
    w = _NN.get('w')
    if w is not None and w['proc'].poll() is None:
        return w
    p2c_r, p2c_w = os.pipe()
    c2p_r, c2p_w = os.pipe()
    code = ('import sys; sys.path.insert(0, %r); from vlib import env; env.setup(); '
            'from props import c08_eccentricity as m; m._nonumba_worker_main(int(sys.argv[1]), int(sys.argv[2]))' % env.VERIF)
    childenv = dict(os.environ, VERIF_CACHE_ROLE='c08-nonumba')
    import tempfile
    errf = tempfile.TemporaryFile()
    proc = subprocess.Popen([env.PY, '-c', code, str(p2c_r), str(c2p_w)], cwd=env.VERIF, env=childenv,
                            stdin=subprocess.DEVNULL, stdout=subprocess.DEVNULL, stderr=errf,
                            pass_fds=(p2c_r, c2p_w))
    os.close(p2c_r)
    os.close(c2p_w)
    w = {'proc': proc, 'to': os.fdopen(p2c_w, 'w'), 'from': os.fdopen(c2p_r, 'r')}
    line = w['from'].readline()
    if not line:
        proc.wait()
        errf.seek(0)
        err = errf.read().decode(errors='replace')[-1500:]
        raise HarnessError('numba-disabled worker did not start:\n%s' % err)
    hello = json.loads(line)
    if hello.get('use_numba') or not hello.get('sample_plain'):
        raise HarnessError('numba-disabled configuration is not active in the worker: %r' % (hello,))
    _NN['w'] = w
    atexit.register(shard_teardown)
    return w


def shard_teardown():
    w = _NN.pop('w', None)
    if w is not None:
        try:
            w['to'].write('{"quit": true}\n')
            w['to'].flush()
            w['proc'].wait(timeout=5)
        except Exception:  # noqa
            w['proc'].kill()


def _nonumba_request(route, N, l, calls):
    import json
    for attempt in range(2):
        w = _nonumba_worker()
        try:
            w['to'].write(json.dumps({'route': route, 'N': N, 'l': l, 'calls': calls}) + '\n')
            w['to'].flush()
            line = w['from'].readline()
            if line:
                return json.loads(line)
        except (BrokenPipeError, OSError):
            pass
        _NN.pop('w', None)
        try:
            w['proc'].kill()
        except Exception:  # noqa
            pass
    raise HarnessError('numba-disabled worker died twice on request %s N=%s l=%s' % (route, N, l))


NN_CALLS = ([{'form': 'scalar', 'e': [x]} for x in (0.0, 0.3, 0.85)]
            + [{'form': 'array', 'e': [0.4]}, {'form': 'array', 'e': [0.0, 0.05, 0.3, 0.6, 0.85]}, {'form': 'array0d', 'e': [0.25]}])


def _nonumba_route(c, route, N, l, calls, where):
    """Values of one table/helper with numba disabled, judged by the same oracle/tolerance as every route.
    Returns False when the route does not exist (by-name functions)."""
    rep = _nonumba_request(route, N, l, calls)
    if rep.get('absent'):
        return False
    sig = {'where': where, 'l': l}
    if rep.get('error'):
        c.fail({'kind': 'exception', 'type': rep['error']['type'], 'where': where + ' (numba disabled) lookup of the function'},
               rep['error']['tb'])
        return True
    if not rep.get('plain'):
        c.label('nonumba:still_a_dispatcher')
    c.label('nonumba')
    for call, res in zip(calls, rep['results']):
        if 'error' in res:
            c.fail({'kind': 'exception', 'type': res['error']['type'], 'where': where + ' (numba disabled)'},
                   'route=%s N=%d l=%d form=%s e=%r\n%s' % (route, N, l, call['form'], call['e'], res['error']['tb']))
            continue
        es = [float(x) for x in call['e']]
        if call['form'] != 'array':
            es = es[:1]
        c.check(not res['modified'], dict(sig, clause='input_array_modified'),
                'N=%d %s: the caller\'s %s eccentricity array was modified (numba disabled)' % (N, route, call['form']))
        levels = sorted(int(k) for k in res['values'])
        if route == 'lookup':
            c.check(levels == list(range(2, l + 1)), {'clause': 'lookup_levels', 'where': where},
                    'lookup[%d][%d] (numba disabled) returned levels %r' % (N, l, levels))
        for ll in levels:
            if not published(ll, N):
                continue
            got = {(p, q): vals for p, q, vals, _t in res['values'][str(ll)]}
            _compare_level(c, ll, N, got, es, where)
    return True


def _eval_nonumba(case):
    N, l = int(case['N']), int(case['l'])
    path = case['path']
    es = [float(x) for x in case['e']]
    if case['form'] != 'array':
        es = es[:1]
    c = Collector(labels=['nonumba:' + path, 'l:%d' % l, 'N:%d' % N, case['form']], nontrivial=any(x > 0.0 for x in es))
    emax = max(es)
    c.label('e:zero' if emax == 0.0 else 'e:small' if emax < 0.1 else 'e:large' if emax > 0.7 else 'e:mid')
    _nonumba_route(c, 'truncations' if path == 'dispatch' else 'lookup', N, l, [{'form': case['form'], 'e': es}],
                   'nonumba_' + path)
    return c.result()


# ---------------------------------------------------------------------------------------------------
# module interface
# ---------------------------------------------------------------------------------------------------

def evaluate(case):
    kind = case['kind']
    if kind == 'table':
        return _eval_table(case)
    if kind == 'lookup_py':
        return _eval_lookup_py(case)
    if kind == 'nonumba':
        return _eval_nonumba(case)
    return _eval_compiled(case)


def in_domain(case):
    try:
        if case['kind'] == 'table':
            return published(case['l'], case['N'])
        if case['kind'] == 'lookup_py':
            return case['N'] in NS and case['lmax'] in LS and (case['N'] != 22 or case['lmax'] == 2)
        if case['kind'] not in ('compiled', 'interp', 'nonumba') or case['path'] not in ('dispatch', 'lookup') \
                or case['form'] not in ('scalar', 'array', 'array0d'):
            return False
        if not published(case['l'], case['N']):
            return False
        es = case['e']
        return 1 <= len(es) <= 5 and all(isinstance(x, float) and 0.0 <= x <= E_MAX for x in es)
    except Exception:
        return False


# two compiled-path witnesses (also make the evidence samples show what a generated case looks like)
WITNESSES = [{'kind': 'compiled', 'path': 'dispatch', 'N': 4, 'l': 2, 'form': 'scalar', 'e': [0.3]},
             {'kind': 'compiled', 'path': 'lookup', 'N': 4, 'l': 3, 'form': 'array', 'e': [0.0, 0.05, 0.6]},
             {'kind': 'interp', 'path': 'lookup', 'N': 20, 'l': 7, 'form': 'array', 'e': [0.0, 0.2, 0.85]},
             {'kind': 'nonumba', 'path': 'lookup', 'N': 10, 'l': 6, 'form': 'array', 'e': [0.0, 0.3, 0.7]}]


def fixed_cases(tier):
    tables = [{'kind': 'table', 'l': l, 'N': N} for l in LS for N in NS if published(l, N)]
    lookups = [{'kind': 'lookup_py', 'N': N, 'lmax': lm} for lm in LS for N in NS if (N != 22 or lm == 2)]
    # most expensive first so that the stride split over shards is balanced
    allc = tables + lookups

    def cost(d):
        w = d['l'] + 1 if d['kind'] == 'table' else sum(l + 1 for l in range(2, d['lmax'] + 1))
        return w * (d['N'] + 5)
    allc.sort(key=lambda d: (-cost(d), d['kind'], d['N'], d.get('l', 0), d.get('lmax', 0)))
    return WITNESSES + allc


def _shard_index():
    """(shard, nshards) when running inside vlib.shard, else (0, 1)."""
    a = sys.argv
    try:
        if len(a) >= 8 and a[0].endswith('shard.py'):
            return int(a[4]), int(a[5])
    except ValueError:
        pass
    return 0, 1


def _compiled_ls(tier, N):
    """Degrees whose COMPILED code the tier exercises at truncation N.  Quick: l <= 3 at every N plus all
    l <= 7 at N <= 4 (cheap to compile); thorough: everything.  (The interpreted twin covers all l, N, and
    all three argument forms in every tier.)"""
    if N == 22:
        return [2]
    lm = 7 if (tier == 'thorough' or N <= 4) else COMPILED_LMAX[tier]
    return list(range(2, lm + 1))


FORM_COST = {'scalar': 1.0, 'array0d': 1.0, 'array': 2.3}


def _units(tier):
    units = [(N, form) for N in NS for form in ('scalar', 'array', 'array0d')
             if form != 'array0d' or tier == 'thorough' or N <= 4]

    def cost(u):
        N, form = u
        return (N + 2) * sum(l + 1 for l in _compiled_ls(tier, N)) / 7.0 * FORM_COST[form]
    units.sort(key=lambda u: (-cost(u), u))
    return units, cost


def _my_units(tier):
    units, cost = _units(tier)
    shard, nshards = _shard_index()
    if nshards <= 1:
        return units
    bins = [[0.0, []] for _ in range(nshards)]
    for u in units:                      # longest-processing-time-first, deterministic
        b = min(range(nshards), key=lambda i: (bins[i][0], i))
        bins[b][0] += cost(u)
        bins[b][1].append(u)
    mine = bins[shard][1]
    return mine or [units[shard % len(units)]]


def strategy(tier):
    units = _my_units(tier)
    e_one = st.one_of(st.just(0.0), st.floats(0.0, E_MAX), st.floats(0.0, E_MAX), st.floats(0.0, 0.1),
                      st.floats(0.7, E_MAX), st.floats(1e-12, 1e-3))

    def e_list(form):
        return st.lists(e_one, min_size=1, max_size=5 if form == 'array' else 1)

    def for_unit(u):
        N, form = u
        return st.fixed_dictionaries({'kind': st.just('compiled'), 'path': st.sampled_from(['dispatch', 'dispatch', 'lookup']),
                                      'N': st.just(N), 'l': st.sampled_from(_compiled_ls(tier, N)), 'form': st.just(form),
                                      'e': e_list(form)})

    def interp(nf):
        N, form = nf
        return st.fixed_dictionaries({'kind': st.just('interp'), 'path': st.sampled_from(['dispatch', 'lookup']),
                                      'N': st.just(N), 'l': st.sampled_from([2] if N == 22 else list(LS)),
                                      'form': st.just(form), 'e': e_list(form)})
    compiled = st.sampled_from(units).flatmap(for_unit)
    nf = st.tuples(st.sampled_from(NS), st.sampled_from(['scalar', 'array', 'array', 'array0d']))
    interpreted = nf.flatmap(interp)
    nonumba = nf.flatmap(interp).map(lambda d: dict(d, kind='nonumba'))
    return st.one_of(compiled, compiled, compiled, compiled, interpreted, nonumba)


def required_labels(tier):
    req = ['table', 'lookup_py', 'array_py', 'nonumba', 'nonumba:dispatch', 'nonumba:lookup', 'compiled:dispatch', 'compiled:lookup', 'interp:dispatch', 'interp:lookup',
           'scalar', 'array', 'array0d', 'e:zero', 'e:small', 'e:mid',
           'e:large', 'cell:closed', 'cell:poly', 'cell:absent', 'cell:aliased']
    req += ['l:%d' % l for l in LS] + ['N:%d' % N for N in NS] + ['lmax:%d' % l for l in LS]
    return req


def extra_coverage(tier, merged):
    lab = merged['labels']
    tot = {}
    for k, n in lab.items():
        if k[:3] in ('nt_', 'nl_') and '=' in k:
            name, v = k.split('=')
            tot[name] = tot.get(name, 0) + int(v) * n
    expected = len(fixed_cases(tier))
    n_tables = lab.get('table', 0)
    n_lookups = lab.get('lookup_py', 0)
    complete = (merged.get('fixed_cases', 0) == expected and n_tables == sum(1 for l in LS for N in NS if published(l, N))
                and n_lookups == expected - n_tables - len(WITNESSES) and not lab.get('lookup:numeric_fallback')
                and not lab.get('table:numeric_fallback')
                and not any('"exception"' in k for k in merged.get('fail_sig_counts', {})))
    return {'exhaustive': bool(complete),
            'explanation': ('exhaustive refers to the enumerated part: every published table (l,N) and every lookup helper '
                            '(N,l_max) run once on an exact power-series argument, all (p,q) cells compared coefficient-wise; '
                            'the ndarray route of every table/helper is run on the interpreted twin (3 shapes); the compiled code is '
                            'sampled (generated cases): %s' % ('all l, N' if tier == 'thorough' else 'l<=3 at every N, l<=7 at N<=4')),
            'enumerated': {'tables': n_tables, 'lookup_helpers': n_lookups,
                           'table_cells_present': tot.get('nt_present', 0), 'table_cells_absent': tot.get('nt_absent', 0),
                           'table_cells_closed_form': tot.get('nt_closed', 0), 'table_cells_aliased': tot.get('nt_aliased', 0),
                           'table_nonzero_coefficients_compared': tot.get('nt_coef', 0),
                           'helper_level_cells_present': tot.get('nl_present', 0),
                           'helper_level_cells_absent': tot.get('nl_absent', 0),
                           'helper_level_nonzero_coefficients_compared': tot.get('nl_coef', 0)}}


# ---- numba cache warm-up ---------------------------------------------------------------------------

def _warm_N(N, lmax):
    import numpy as np
    m = _mods()
    arr = np.asarray([0.1, 0.3])
    for l in _compiled_ls('quick', N):
        args = [0.3, arr] + ([np.asarray(0.3)] if N <= 4 else [])
        for a in args:
            m['ef'].eccentricity_truncations[N][l](a)
            m['mh'].eccentricity_functions_lookup[N][l](a)


def warm():
    """Compile what the quick tier uses (l <= 3, all N, scalar + array), one process per N, <= 8 at a time."""
    from vlib import env
    code = ('import sys; sys.path.insert(0, %r); from vlib import env; env.setup(); '
            'from props import c08_eccentricity as m; m._warm_N(int(sys.argv[1]), %d)' % (env.VERIF, COMPILED_LMAX['quick']))
    pending = list(NS)[::-1]
    running = []
    while pending or running:
        while pending and len(running) < 8:
            N = pending.pop(0)
            running.append(subprocess.Popen([env.PY, '-c', code, str(N)], cwd=env.VERIF, stdin=subprocess.DEVNULL,
                                            stdout=subprocess.DEVNULL, stderr=subprocess.DEVNULL))
        running[0].wait()
        running = [p for p in running if p.poll() is None]
