"""C09 - inclination functions and degree coefficients equal Kaula's definitions.

What is enumerated / generated
  Every case names a degree l (2..7) and a call path and carries a list of obliquities; `evaluate`
  checks ALL (m, p), 0 <= m, p <= l, of that degree (199 cells over l = 2..7) in the full table, the
  obliquity-off table and `get_universal_coeffs(l)`.  `fixed_cases` enumerates every (l, path) with a
  fixed grid of 65 obliquities k*pi/64 (the entries are trigonometric polynomials of degree <= 2l <= 14,
  so agreement at 29 distinct angles already implies identity; 65 are used), which makes the
  (l, m, p, table) enumeration exhaustive; Hypothesis adds generated obliquities in [0, pi]
  (uniform, plus 0, pi, pi/2 and angles within 10^-k of 0 and pi) on top.

Call paths
  py          `calc_inclination.py_func` (un-jitted source) with python floats and with a 1-D array
  jit_scalar  the numba dispatcher users call, float argument
  jit_array   the numba dispatcher, 1-D float64 array argument
  multi_py    the stacked multi-degree helpers that deliver the tables to the package: route 1 the public
              `mode_calc_helper.inclination_functions_lookup[use_obliquity][L]`, route 2 the module functions
              `inclin_calc_orderl{L}.inclination_on/off_maxl_L` when they are other objects; un-jitted body (calling
              whatever dispatchers it calls).  For every degree 2..L: ON result at I == F_lmp(I)^2; OFF result, called
              with the same generated NON-ZERO obliquity (which it is documented to ignore), == F_lmp(0)^2 with the
              cells that vanish at I = 0 absent or zero.  A route that does not exist is labelled (`lookup:absent`,
              `multi:absent`) and not judged; keys beyond 2..L are not judged.
  multi_jit   the same routes, compiled
  selector    `inclination_funcs.get_inclination_func(l, flag)`, the package's selector (degree, obliquity on/off) -> table
              function, with the flag given as each of True, numpy.True_, np.any(obliquity != 0.) (a numpy.bool_), 1,
              False, numpy.False_, 0, positionally and by keyword; the returned function is evaluated at the generated
              obliquities (dispatcher with scalars, un-jitted with the array) and must be F_lmp(I)^2 (truthy flag) or
              F_lmp(0)^2 (falsy flag).  A non-bool flag type that the selector rejects with KeyError/TypeError is labelled
              and not judged.
  (`.py_func` is taken as getattr(f, 'py_func', f): a plain function is used as it is)
  Quick tier: py, jit_scalar, multi_py, multi_jit for every l / L = 2..7; jit_array for l <= 4 (numba cold compile of
  the l = 7 array signature is 18 s); thorough tier: everything.

Oracles
  full    table[(m,p)](I) == Kaula (1966) eq. 3.62 F_lmp(I)^2, evaluated by /verif/oracles/kaula.py
          (exact rational monomial coefficients, 40-digit mpmath evaluation, squared, rounded once).
          The oracle self-test validates the transcription of eq. 3.62 against the l = 2 closed forms
          (F_220(0) = 3, F_201 = 3/4 sin^2 I - 1/2, ...), (2l-1)!!, P_l(0)P_l(cos I) and against the
          DEFINING rotation identity of F_lmp for every (l, m) (see the oracle's docstring).
          The key set must contain every (m,p), 0 <= m, p <= l (extra keys are not judged).
  off     every key of the obliquity-off table: value == the full table evaluated at I = 0 and == F_lmp(0)^2 (exact
          rational -> double), both within TOL*scale; every key the off table omits: F_lmp(0)^2 (exact rational) and
          the full table at I = 0 are 0 within TOL*scale (the double evaluation of e.g. l = 5 (1,1) leaves 8.8e-30 from
          cancellation: legitimate rounding of an exactly-zero value; an off table implemented as full(0.0) is
          therefore accepted).  Shape and extra keys of the off table are not judged.
  coeffs  get_universal_coeffs(l)[m] == (2 - delta_0m)(l-m)!/(l+m)! (exact Fraction -> double) within 4 ulp (a
          faithful evaluation through factorial quotients rounds once or twice; a wrong digit is >= 1e-5 relative),
          keys 0..l present, through the dispatcher and through the un-jitted function.

Tolerance (calibrated on the unchanged tree, 1527 angles per degree incl. 0, pi/2, pi, 10^-k and pi-10^-k, un-jitted
and compiled):
  |table - oracle| <= TOL * max(1, max_I F_lmp^2),  TOL = 1e-10.
  Worst deviation measured: 7.9e-16 (l=2), 1.6e-15 (l=3), 5.2e-15 (l=4), 8.2e-14 (l=5), 8.0e-13 (l=6, cell (2,3),
  without the defective cell), 1.8e-12 (l=7, cells (1,5)/(3,4): the hand-expanded polynomials in sin(I/2), cos I
  cancel 3-4 digits near I = 2.7).  DESIGN planned 1e-11, which leaves only 6x over the l=7 worst case; 1e-10 leaves
  55x and is still > 4 orders of magnitude below the effect of any single wrong digit/exponent in a table entry (a
  slip changes the entry by >= 1e-3 of its maximum at generic angles; see the mutations below).

Known finding KF-C09-l6-m3-p3 (genuine defect, .py, NOT repaired here: proposed patch
/verif/out/proposed-fix-C09-1.diff): orderl6.py (3,3) ends in `*cos_i_half` where Kaula's F_633^2 needs
`*cos_i_half**4` (F_633 = 17325/8 sin^3 I cos I (2/11 - sin^2 I / 4)); at I = 2.6 the table gives 44948.0,
the definition 860.35.  Its signature names the cell, so any other cell still raises a VIOLATION.

Sensitivity (tools/mut.py, scratch copy, quick tier with --cases 2000), all CAUGHT (the first three and the
orderl4 one re-run with the final generator):
  orderl2.py   0.140625 -> 0.146025 (first occurrence, cell (0,0))           -> full l=2 (0,0)
  orderl2.py   cos_i_half**6 -> cos_i_half**5  (cell (1,0))                    -> full l=2 (1,0)
  universal_coeffs.py  1. / 2520. -> 1. / 2250.                               -> coeffs l=4 m=3
  orderl5.py   off table `(3, 1): 2756.25` -> 2765.25                         -> off l=5 (3,1)
  orderl7.py   (7, 0) `18261468225.0*cos_i_half**28` -> **27                   -> full l=7 (7,0)
  inclin_calc_orderl4.py  `4: orderl4.calc_inclination(obliquity)` -> orderl3  -> multi L=4
  orderl4.py   first `sin_i**2` -> `sin_i**3`                                   -> full l=4
  proposed-fix-C09-1.diff applied: known finding no longer reproduced, rc 0.
"""
import math
import warnings

import numpy as np
from hypothesis import strategies as st

from vlib.result import Collector, repo_call

ID = 'C09'
TECHNIQUE = ('property-based testing (Hypothesis) + exhaustive (l,m,p) enumeration against an independent '
             'mpmath implementation of Kaula eq. 3.62')
LEVEL = 'exploration'
LEVEL_TEXT = ('Every one of the 199 (l,m,p) cells, l=2..7, of the full and obliquity-off tables and every (l,m) universal '
              'coefficient is compared with an independent exact/40-digit evaluation of Kaula\'s definition at 65 fixed and '
              'thousands of generated obliquities in [0,pi] (a degree<=14 trigonometric polynomial is fixed by 29 points), '
              'through the un-jitted source and through the numba dispatchers; it says the tables equal the definition at '
              'the tolerance stated, not that every double in [0,pi] was tried.')
LEVEL_NOTE = ('Trusts mpmath sin/cos at 40 digits, python integer/Fraction arithmetic and the transcription of Kaula eq. 3.62 in '
              'oracles/kaula.py, which is itself validated on every run against closed forms and the defining rotation identity; '
              'quick tier exercises the compiled array signature only for l<=4.')
CASES = {'quick': 3000, 'thorough': 600000}
SHARDS = {'quick': 8, 'thorough': 16}
TOL = 1e-10
COEFF_ULP = 4.0
EPS = 2.0 ** -52
RULE = ('fixed: every (l in 2..7, call path) with the 65-angle grid k*pi/64; generated: l in 2..7, call path, 1..6 '
        'obliquities from [0,pi] (uniform (hash-spread) | 0 | pi | pi/2 | 10^-k | pi-10^-k, k in 1..12). Every case checks all (m,p) of its '
        'degree in the full table, the off table and the universal coefficients. Non-trivial = the case contains an obliquity '
        'strictly inside (0,pi) other than pi/2; distinct = distinct (l, path, obliquity list).')
ASSUMPTIONS = ['oracle: Kaula 1966 eq. 3.62 with exact rational coefficients, mpmath 40 digits (oracles/kaula.py), self-tested',
               'tolerance |table-oracle| <= 1e-10*max(1,max_I F^2): 55x the worst rounding error measured (1.8e-12, l=7)',
               'off-table values: TOL*scale against full(0) and exact F(0)^2; universal coefficients: exact rational -> double, 4 ulp',
               'a trigonometric polynomial of degree <= 14 is determined by 29 points; 65 fixed + generated are used per cell']

PATHS_ALL = ['py', 'jit_scalar', 'jit_array', 'multi_py', 'multi_jit', 'selector']
GRID = [math.pi * k / 64 for k in range(65)]

warnings.filterwarnings('ignore', message='.*parallel=True.*')
try:  # numba's own warning class (raised at compile time of the `parallel=True` tables)
    from numba.core.errors import NumbaPerformanceWarning
    warnings.simplefilter('ignore', NumbaPerformanceWarning)
except Exception:  # pragma: no cover
    pass


def _oracle():
    from oracles import kaula
    return kaula


def _tables():
    from TidalPy.tides import inclination_funcs as IF
    return IF.inclination_functions_on, IF.inclination_functions_off


def _py(f):
    """un-jitted twin of a numba dispatcher; the function itself when numba is off / it is a plain function"""
    return getattr(f, 'py_func', f)


def _helpers(L):
    """(on, off) multi-degree helpers, or None when the module-internal helper does not exist (best-effort extra)."""
    import importlib
    try:
        mod = importlib.import_module('TidalPy.tides.modes.mode_calc_helper.inclin_calc_orderl%d' % L)
        return getattr(mod, 'inclination_on_maxl_%d' % L), getattr(mod, 'inclination_off_maxl_%d' % L)
    except (ImportError, AttributeError):
        return None


def _lookup():
    """(on_by_L, off_by_L) of the public lookup `mode_calc_helper.inclination_functions_lookup`, or None."""
    try:
        from TidalPy.tides.modes.mode_calc_helper import inclination_functions_lookup as lk
        return lk[True], lk[False]
    except (ImportError, KeyError):
        return None


SELECTOR_FLAGS = ['True', 'np.True_', 'np.any(obliquity!=0)', '1', 'False', 'np.False_', '0']


def _selector_flags(angles):
    """(name, flag value, expected truthiness): how callers hand the obliquity on/off switch to the selector."""
    any_nonzero = np.any(np.asarray(angles, dtype=float) != 0.0)        # numpy.bool_, as a caller's `np.any(obliquity != 0.)`
    return [('True', True, True), ('np.True_', np.True_, True), ('np.any(obliquity!=0)', any_nonzero, bool(any_nonzero)),
            ('1', 1, True), ('False', False, False), ('np.False_', np.False_, False), ('0', 0, False)]


def _allowed(tier, l, path):
    # only the compiled ARRAY signature of the big tables is expensive (l = 7: 18 s cold); the stacked helpers are called with
    # scalars, whose per-degree dispatchers the jit_scalar path compiles anyway (12 s for all six degrees, cold)
    if tier == 'thorough' or path != 'jit_array':
        return True
    return l <= 4


def selftest():
    _oracle().selftest()


def in_domain(case):
    try:
        return (case['l'] in range(2, 8) and case['path'] in PATHS_ALL and 1 <= len(case['obl']) <= 65
                and all(0.0 <= float(x) <= math.pi for x in case['obl']))
    except Exception:
        return False


def _fill(d):
    """Continuous obliquities are a blake2b hash of what Hypothesis drew (st.floats and wide st.integers are deliberately
    biased towards 0, boundaries and tiny magnitudes); Hypothesis chooses the degree, the call path, how many angles
    and which of them sit on special values, plus salts.  Every random choice still comes from the seeded strategy."""
    import hashlib
    import json
    h = hashlib.blake2b(json.dumps(d, sort_keys=True, default=repr).encode(), digest_size=32).digest()
    out = []
    for j, kind in enumerate(d['angles']):
        w = hashlib.blake2b(h + j.to_bytes(4, 'little'), digest_size=8).digest()
        u = (int.from_bytes(w, 'little') >> 11) / float(1 << 53)
        k = 1 + int(u * 12) % 12
        out.append({'u': math.pi * u, 'zero': 0.0, 'pi': math.pi, 'half': math.pi / 2, 'near0': 10.0 ** -k,
                    'nearpi': math.pi - 10.0 ** -k}[kind])
    return {'l': d['l'], 'path': d['path'], 'obl': out}


def strategy(tier):
    if tier == 'quick':
        paths = ['py'] * 4 + ['jit_scalar'] * 2 + ['jit_array', 'multi_py', 'multi_jit', 'selector']
    else:
        paths = ['py'] * 3 + ['jit_scalar'] * 2 + ['jit_array'] * 2 + ['multi_py', 'multi_jit', 'selector']

    def fix(c):
        if not _allowed(tier, c['l'], c['path']):
            c = dict(c, path='py')
        return c
    angle = st.sampled_from(['u'] * 8 + ['zero', 'pi', 'half', 'near0', 'nearpi'])
    return st.fixed_dictionaries({'l': st.sampled_from([2, 3, 4, 5, 6, 7]), 'path': st.sampled_from(paths),
                                  'angles': st.lists(angle, min_size=1, max_size=6),
                                  'salt': st.tuples(st.integers(0, 2 ** 48), st.floats(0.0, 1.0), st.integers(0, 1023))}
                                 ).map(_fill).map(fix)


def fixed_cases(tier):
    out = []
    for path in PATHS_ALL:
        for l in range(2, 8):
            if _allowed(tier, l, path):
                out.append({'l': l, 'path': path, 'obl': list(GRID)})
    return out


def required_labels(tier):
    return ['l:%d' % l for l in range(2, 8)] + ['path:' + p for p in PATHS_ALL] + \
           ['grid:l%d' % l for l in range(2, 8)] + ['multi:L%d' % l for l in range(2, 8)] + \
           ['route:lookup', 'multi:off_called_with_nonzero_obliquity', 'obl:zero'] + \
           ['selector:flag=%s' % f for f in SELECTOR_FLAGS] + ['selector:positional', 'selector:keyword', 'selector:array', 'selector:scalar', 'obl:pi', 'obl:interior', 'obl:near_zero', 'obl:near_pi']


def extra_coverage(tier, merged):
    n_fixed = len(fixed_cases(tier))
    cells = sum((l + 1) ** 2 for l in range(2, 8))
    ok = merged.get('fixed_cases', 0) == n_fixed and all(merged['labels'].get('grid:l%d' % l) for l in range(2, 8))
    return {'exhaustive': bool(ok),
            'exhaustive_over': 'all (l,m,p), l=2..7, 0<=m,p<=l (%d cells) x {full table, off table} and all (l,m) universal '
                               'coefficients (33), each at the 65-angle grid through every call path allowed in this tier; '
                               'obliquity itself is sampled (continuous)' % cells,
            'cells': cells, 'grid_angles_per_cell': len(GRID), 'fixed_cases_expected': n_fixed}


def warm():
    on, off = _tables()
    for l in range(2, 8):
        on[l](0.3)
        off[l](0.3)
        on[l](np.array([0.3, 0.4]))
        off[l](np.array([0.3, 0.4]))
    for L in range(2, 8):
        hp = _helpers(L)
        if hp is not None:
            hp[0](0.3)
            hp[1](0.3)
    lk = _lookup()
    if lk is not None:
        for L in range(2, 8):
            lk[0][L](0.3)
            lk[1][L](0.3)
    from TidalPy.tides.universal_coeffs import get_universal_coeffs
    get_universal_coeffs(2)


def _cache_safe(f, *args):
    """Call a numba dispatcher; if numba's on-disk cache directory vanished underneath us (another harness process
    pruned /verif/.nbcache while this one was compiling) recreate it and retry - infrastructure, not the code under test."""
    import os
    for attempt in range(3):
        try:
            return f(*args)
        except OSError as ex:
            from vlib.result import HarnessError
            if 'nbcache' not in str(ex) or attempt == 2:
                raise HarnessError('numba cache I/O failed: %s' % ex)
            if ex.filename:
                os.makedirs(os.path.dirname(str(ex.filename)), exist_ok=True)


def _ulps(a, b):
    a, b = float(a), float(b)
    if a == b:
        return 0.0
    if not (math.isfinite(a) and math.isfinite(b)):
        return float('inf')
    return abs(a - b) / (EPS * max(abs(a), abs(b)))


def _keys(l):
    return {(m, p) for m in range(l + 1) for p in range(l + 1)}


def _as_plain(table):
    """numba typed dict / dict -> {(int,int): np.ndarray}"""
    return {(int(k[0]), int(k[1])): np.asarray(v, dtype=float) for k, v in table.items()}


def _check_full(c, l, table, angles, shape, where):
    """table: {(m,p): array over `angles`}; compared with the oracle cell by cell."""
    kaula = _oracle()
    keys = _keys(l)
    got = set(table.keys())
    c.check(keys <= got, {'clause': 'full', 'l': l, 'kind': 'keys'},
            '%s: l=%d table lacks (m,p) entries %s' % (where, l, sorted(keys - got)))
    worst = {}
    for j, x in enumerate(angles):
        ref = kaula.F2_table(l, x)
        for key in keys & got:
            arr = table[key]
            if arr.size != len(angles):
                c.fail({'clause': 'full', 'l': l, 'kind': 'shape'},
                       '%s: l=%d %s has %d values for %d obliquities' % (where, l, key, arr.size, len(angles)))
                return
            v = float(arr.reshape(-1)[j])
            scale = max(1.0, kaula.max_F2(l, key[0], key[1]))
            d = abs(v - ref[key]) / scale
            if not (d <= TOL):
                if key not in worst or not (d <= worst[key][0]):
                    worst[key] = (d, x, v, ref[key])
    for key, (d, x, v, r) in sorted(worst.items()):
        c.fail({'clause': 'full', 'l': l, 'm': key[0], 'p': key[1]},
               '%s: F^2_%d%d%d(I=%r) table=%r Kaula=%r |diff|/max(1,maxF^2)=%.3e > %.0e' % (where, l, key[0], key[1], x, v, r, d, TOL))


def _check_off(c, l, off_table, full_at_zero, shape, where):
    """"the obliquity-off tables equal the full tables evaluated at I=0 (omitted entries being exactly zero there)":
    listed entries are compared with the full table at I = 0 and with F_lmp(0)^2, both within TOL*scale (an off table
    implemented as full(0.0) is as good as one of typed-in constants: its (l=5,(1,1)) entry is 8.8e-30, not 0.0);
    omitted entries must have F_lmp(0)^2 and full(0) within TOL*scale of zero.  Neither the array shape of the off
    table (it ignores its argument's value) nor extra keys are judged."""
    kaula = _oracle()
    keys = _keys(l)
    got = set(off_table.keys())
    for key in sorted(keys):
        z = kaula.exact_at_zero(l, key[0], key[1])
        ref = float(z * z)
        scale = max(1.0, kaula.max_F2(l, key[0], key[1]))
        f0 = float(full_at_zero[key]) if key in full_at_zero else None
        sig = {'clause': 'off', 'l': l, 'm': key[0], 'p': key[1]}
        if key in got:
            vals = np.asarray(off_table[key], dtype=float).reshape(-1)
            if not vals.size:
                continue
            d = float(np.max(np.abs(vals - ref)))
            c.check(d <= TOL * scale, sig, '%s: off table l=%d %s = %r, F_lmp(0)^2 = %r (F_lmp(0) = %s exactly), |diff| = %.3e > %.0e*%.3g'
                    % (where, l, key, float(vals[0]), ref, z, d, TOL, scale))
            if f0 is not None:
                d0 = float(np.max(np.abs(vals - f0)))
                c.check(d0 <= TOL * scale, dict(sig, kind='full_at_zero'),
                        '%s: off table l=%d %s = %r but full table at I=0 gives %r' % (where, l, key, float(vals[0]), f0))
        else:
            c.check(ref <= TOL * scale, dict(sig, kind='omitted_nonzero'),
                    '%s: off table omits l=%d %s but F_lmp(0)^2 = %r (F_lmp(0) = %s)' % (where, l, key, ref, z))
            if f0 is not None:
                c.check(abs(f0) <= TOL * scale, dict(sig, kind='omitted_full_nonzero'),
                        '%s: off table omits l=%d %s but the full table at I=0 gives %r' % (where, l, key, f0))


def _check_coeffs(c, l):
    from TidalPy.tides.universal_coeffs import get_universal_coeffs
    kaula = _oracle()
    for name, fn in (('jit', get_universal_coeffs), ('py', _py(get_universal_coeffs))):
        with repo_call('get_universal_coeffs.%s' % name):
            tab = {int(k): float(v) for k, v in _cache_safe(fn, l).items()}
        c.check(set(tab) >= set(range(l + 1)), {'clause': 'coeffs', 'l': l, 'kind': 'keys'},
                'get_universal_coeffs(%d) lacks m in %s' % (l, sorted(set(range(l + 1)) - set(tab))))
        for m in range(l + 1):
            if m not in tab:
                continue
            ref = kaula.universal_coeff(l, m)
            u = _ulps(tab[m], float(ref))
            c.check(u <= COEFF_ULP, {'clause': 'coeffs', 'l': l, 'm': m},
                    'get_universal_coeffs(%d)[%d] (%s) = %r, (2-d0m)(l-m)!/(l+m)! = %s = %r (%.3g ulp)'
                    % (l, m, name, tab[m], ref, float(ref), u))


def _eval_selector(c, l, angles, arr, stack):
    """`inclination_funcs.get_inclination_func(l, flag)` is the package's selector (degree, obliquity on/off) -> table
    function.  For every way a caller hands it the switch (python bool, numpy.bool_ - e.g. np.any(obliquity != 0.) -, int;
    positional and keyword) the returned function is evaluated at the generated obliquities (compiled with scalars, un-jitted
    with the array) and must be Kaula's F_lmp(I)^2 for a truthy flag and the obliquity-0 table F_lmp(0)^2 for a falsy one -
    the same oracles as every other route.  A flag type the selector REJECTS with KeyError/TypeError is labelled, not judged
    (only python True/False are required to be accepted)."""
    import inspect
    try:
        from TidalPy.tides.inclination_funcs import get_inclination_func
    except (ImportError, AttributeError):
        c.label('selector:absent')
        return
    try:
        names = [p for p in inspect.signature(get_inclination_func).parameters][:2]
    except (TypeError, ValueError):
        names = []
    n = len(angles)
    on, _ = _tables()
    with repo_call('calc_inclin_l%d(0.0)' % l):
        zero = {k: float(v) for k, v in _as_plain(_cache_safe(on[l], 0.0)).items()}
    verdicts = {}       # (id(function), expected truthiness) -> list of failures; identical selections are evaluated once
    for fname, flag, truthy in _selector_flags(angles):
        c.label('selector:flag=%s' % fname)
        styles = [('positional', (l, flag), {})]
        if len(names) == 2:
            styles.append(('keyword', (), {names[0]: l, names[1]: flag}))
        for style, a, kw in styles:
            c.label('selector:' + style)
            where = 'get_inclination_func(%s%s) [%s flag %s of type %s]' % (l, ', ...', style, fname, type(flag).__name__)
            try:
                with repo_call(where):
                    fn = get_inclination_func(*a, **kw)
            except Exception as ex:     # noqa
                cause = getattr(ex, 'exc', ex)
                if type(flag) is not bool and isinstance(cause, (KeyError, TypeError)):
                    c.label('selector:rejects_flag_type:%s' % type(flag).__name__)
                    continue
                raise
            key = (id(fn), truthy)
            if key not in verdicts:
                sub = Collector()
                with repo_call(where + ' -> table(I)'):
                    tab_s = stack([_as_plain(_cache_safe(fn, x)) for x in angles])
                    tab_a = _as_plain(_py(fn)(arr))
                for tab, how in ((tab_s, 'scalar'), (tab_a, 'array')):
                    if truthy:
                        _check_full(sub, l, tab, angles, (n,), where + '(%s obliquity)' % how)
                    else:
                        _check_off(sub, l, tab, zero, (n,), where + '(%s obliquity)' % how)
                verdicts[key] = sub.fails
            fails = verdicts[key]
            for f_ in fails[:6]:
                c.fails.append({'signature': dict(f_['signature'], route='selector'), 'detail': where + ': ' + f_['detail']})
            if len(fails) > 3:
                c.fail({'clause': 'selector', 'l': l, 'flag': fname, 'style': style, 'kind': 'wrong_table'},
                       '%s returned a function that is not the %s table of degree %d (%d cells differ); first: %s'
                       % (where, 'full F_lmp(I)^2' if truthy else 'obliquity-off F_lmp(0)^2', l, len(fails), fails[0]['detail'][:300]))
    c.label('selector:scalar', 'selector:array')


def evaluate(case):
    l = int(case['l'])
    path = case['path']
    angles = [float(x) for x in case['obl']]
    on, off = _tables()
    interior = any(0.0 < x < math.pi and x != math.pi / 2 for x in angles)
    c = Collector(nontrivial=interior)
    c.label('l:%d' % l, 'path:' + path)
    if len(angles) == len(GRID):
        c.label('grid:l%d' % l)
    for x in angles:
        if x == 0.0:
            c.label('obl:zero')
        elif x == math.pi:
            c.label('obl:pi')
        elif x < 1e-3:
            c.label('obl:near_zero')
        elif x > math.pi - 1e-3:
            c.label('obl:near_pi')
        else:
            c.label('obl:interior')
    arr = np.asarray(angles, dtype=float)
    n = len(angles)

    def stack(tabs):
        """list of per-angle scalar tables -> {(m,p): array(n)}"""
        keys = set(tabs[0].keys())
        return {k: np.asarray([float(t[k]) for t in tabs]) for k in keys if all(k in t for t in tabs)}

    if path in ('py', 'jit_scalar', 'jit_array'):
        f = _py(on[l]) if path == 'py' else on[l]
        g = _py(off[l]) if path == 'py' else off[l]
        where = 'calc_inclin_l%d[%s]' % (l, path)
        with repo_call(where):
            if path == 'jit_array':
                full = _as_plain(_cache_safe(f, arr))
                offt = _as_plain(_cache_safe(g, arr))
                zero = _as_plain(_cache_safe(f, np.zeros(1)))
                zero = {k: v.reshape(-1)[0] for k, v in zero.items()}
            else:
                full = stack([_as_plain(_cache_safe(f, x)) for x in angles])
                offt = stack([_as_plain(_cache_safe(g, x)) for x in angles])
                zero = {k: float(v) for k, v in _as_plain(_cache_safe(f, 0.0)).items()}
        _check_full(c, l, full, angles, (n,), where)
        _check_off(c, l, offt, zero, (n,), where)
        if path == 'py':
            # the same un-jitted source with an array argument (the documented FloatArray use)
            with repo_call(where + '.array'):
                full_a = _as_plain(f(arr))
                off_a = _as_plain(g(arr))
            _check_full(c, l, full_a, angles, (n,), where + '.array')
            _check_off(c, l, off_a, zero, (n,), where + '.array')
    elif path == 'selector':
        _eval_selector(c, l, angles, arr, stack)
    else:
        # The stacked multi-degree helpers deliver the tables to the rest of the package (find_mode_manipulators,
        # quick_tides, the OOP tides classes) through the public `mode_calc_helper.inclination_functions_lookup[flag][L]`.
        # Route 1 = that lookup, route 2 = the module-level functions inclin_calc_orderl{L}.inclination_on/off_maxl_L when
        # they are other objects.  A route that does not exist is labelled and not judged.  For every degree 2..L the ON
        # result at obliquity I must be Kaula's F_lmp(I)^2 and the OFF result - called with the SAME generated, non-zero
        # obliquity, which it is documented to ignore - must be the obliquity-0 definition F_lmp(0)^2 (cells that vanish
        # at I = 0 absent or zero).  Keys beyond 2..L are not judged.
        L = l
        routes = []
        lk = _lookup()
        if lk is not None and L in lk[0] and L in lk[1]:
            routes.append(('inclination_functions_lookup[True|False][%d]' % L, lk[0][L], lk[1][L]))
        else:
            c.label('lookup:absent')
        hp = _helpers(L)
        if hp is not None and not (routes and hp[0] is routes[0][1] and hp[1] is routes[0][2]):
            routes.append(('inclin_calc_orderl%d.inclination_on/off_maxl_%d' % (L, L), hp[0], hp[1]))
        if not routes:
            c.label('multi:absent')
        c.label('multi:L%d' % L)
        if any(x != 0.0 for x in angles):
            c.label('multi:off_called_with_nonzero_obliquity')
        for rname, fon, foff in routes:
            c.label('route:lookup' if rname.startswith('inclination_functions_lookup') else 'route:module')
            if path == 'multi_py':
                fon, foff = _py(fon), _py(foff)
            where = '%s[%s]' % (rname, path)
            with repo_call(where):
                ron = [_cache_safe(fon, x) for x in angles]
                roff = [_cache_safe(foff, x) for x in angles]
                rzero = _cache_safe(fon, 0.0)
                degs_on = [sorted(int(k) for k in r.keys()) for r in ron]
                degs_off = [sorted(int(k) for k in r.keys()) for r in roff]
                degs_on.append(sorted(int(k) for k in rzero.keys()))
            want = list(range(2, L + 1))
            c.check(all(set(want) <= set(d) for d in degs_on) and all(set(want) <= set(d) for d in degs_off),
                    {'clause': 'multi', 'L': L, 'kind': 'degrees'},
                    '%s returned degrees %s / %s, which do not contain %s' % (where, degs_on[0], degs_off[0], want))
            for ll in want:
                if not all(ll in d for d in degs_on + degs_off):
                    continue
                with repo_call(where):
                    full = stack([_as_plain(r[ll]) for r in ron])
                    offt = stack([_as_plain(r[ll]) for r in roff])
                    zero = {k: float(v) for k, v in _as_plain(rzero[ll]).items()}
                sub_on, sub_off = Collector(), Collector()
                _check_full(sub_on, ll, full, angles, (n,), where + '[l=%d]' % ll)
                _check_off(sub_off, ll, offt, zero, (n,), where + '[off, l=%d, called with obliquity %s]' % (ll, angles[:3]))
                # a cell that is wrong in the per-degree table is reported under its own signature; a helper that returns
                # another table (wrong degree, or the ON table where the OFF table belongs) shows up as many wrong cells
                c.fails.extend(sub_on.fails)
                c.fails.extend(sub_off.fails)
                for tab, sub in (('on', sub_on), ('off', sub_off)):
                    if len(sub.fails) > 3:
                        c.fail({'clause': 'multi', 'L': L, 'l': ll, 'table': tab, 'kind': 'wrong_table'},
                               '%s: the %s entry for degree %d is not the degree-%d %s table (%d cells differ); first: %s'
                               % (where, tab, ll, ll, tab, len(sub.fails), sub.fails[0]['detail'][:300]))
    _check_coeffs(c, l)
    return c.result()
