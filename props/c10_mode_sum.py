"""C10 - mode-summed tidal heating and torques: consistency, limits, sign, grouping invariance.

Generated (kind `single`: through `quick_tidal_dissipation`; kind `direct`: calculate_terms / collapse_modes called directly,
assembled the way quick_tidal_dissipation does with scalar or all-array inputs, the mode terms / unique frequencies / tidal
susceptibility computed ONCE and collapsed three times on the same objects - the case's rheology, a second generated rheology,
the first again - as a caller looping over rheologies, temperatures or layers, or the object API between orbit updates, does)
  host mass 10^[22,30] kg, target R 10^[5,7.8] m, rho 10^[2.7,4.1], a/R 10^[0.6,3] (n follows from Kepler),
  spin: synchronous (spin_frequency=None), or spin/n in [-3,3] with {+-1, 3/2, 2, 1/2, 0, +-3} over-represented
  (spin/n = 1 passed explicitly is the "synchronous without object identity" path), e = 0 | [0,0.5] | [0,0.12],
  obliquity None | 0 | [0,pi/2], l_max 2..3 (thorough 2..7), truncation 2..20, rheology maxwell, burgers,
  andrade, sundberg, voigt, newton, andrade_freq, sundberg_freq, elastic, off (with generated parameters,
  viscosity 10^[10,24], shear 10^[7,11.5]), CPL (k2, Q) and CTL (k2, dt = default 1/(Q n) or 10^[-2,2] x that),
  tidal_scale 1 | [0.05,1], scalar inputs or arrays of 1..4 elements (all inputs arrays; thorough also
  only-e / only-n / only-viscosity arrays).  Each shard process draws from a fixed subset of 2-3 rheologies and 2
  truncation levels (numba compile cost); the union over shards covers every value.

Oracles (all element-wise for arrays)
  identity    heating == M_host (n dUdM - spin dUdO), |residual| <= 1e-10 * S, S = G M^2 R^5/a^6 *
              sum_modes |u K| (|(l-2p+q) n| + |m spin|) from the harness's own mode list (accounts for
              cancellation).  Measured worst 9e-16 S.  Also tidal_torque == M_host dUdO (1e-12 relative).
  all_zero    e = 0, obliquity None or 0, synchronous => heating, dUdM, dUdw, dUdO are exactly 0 (obliquity None) or below
              1e-20 G M^2 R^5 n/a^6 max|Im k_l| (obliquity passed as 0.0: two l = 5 inclination expressions evaluate a vanishing
              bracket to 5e-17 at I = 0, F^2 ~ 1e-29; a mode that fails to cancel would give >= 1e-3 of that unit).
  closed_form synchronous, truncation 2, l_max 2, obliquity None or 0 =>
              heating == (21/2)(-Im k2) G M^2 R^5 n e^2 / a^6 with the closed-form k2(n) and - when every mode frequency
              is |w| = n (spin_frequency=None, no obliquity argument), so that the returned per-degree value is k2(n)
              however modes are grouped - with the returned k2 (its Im taken as is or x tidal_scale: whether the scale is
              folded into the reported number is not part of the statement); 1e-10 relative (measured 4e-16).
  sign        passive rheology (Im J <= 0 at every mode frequency, evaluated by the harness; CPL: Q > 0; CTL: dt >= 0)
              and e inside the truncation's validity range - operationally |Hh_N - Hh_20| <= 0.1 Hh_20 where Hh_N, Hh_20 are
              the *harness* sums at the case's truncation and at e^20 - => heating >= -1e-12 * sum|mode terms|.
  grouping    differential test: the harness sums every (l,m,p,q) mode separately (tides_common.mode_sum: no
              grouping by frequency, tables from the un-jitted per-degree functions chosen by name, own universal
              coefficients, own closed-form Love number, rheology .py_func); heating, dUdM, dUdw, dUdO must agree to
              1e-10 * sum|mode terms| each (measured worst 2e-15).  A wrong coefficient / lost term moves them
              by >= 1e-3 of the scale.
  direct      every one of the three collapse_modes calls: grouping (harness sum for that rheology), identity, closed_form; the
              third call must reproduce the first bit for bit (`repeatable`).
  inputs_not_mutated  no argument object of calculate_terms, collapse_modes or quick_tidal_dissipation (ndarrays, dicts of
              arrays / of tuples of arrays, typed dicts) is changed by the call: deep snapshot before, bit-wise comparison after.
  history     (array cases of kind `single`) after the case's call, two more quick_tidal_dissipation calls at the same (truncation,
              l_max) with the SAME ndarray objects (eccentricity, obliquity, orbital/spin frequency, viscosity, shear) overwritten
              in place with the next generated state - second one with e exactly 0 - nothing else evaluated in between; each must
              equal, bit for bit in every numeric entry of the result, a call with fresh arrays of the same values, and satisfies
              the closed_form / all_zero clauses.  Cost: 4 repository calls, no harness sum (C10 quick CPU unchanged within noise).
  ctl_default the package-default CTL parameters (static_k2, fixed_q, fixed_dt of tides.models.global_approx, from
              TidalPy.defaultc or TidalPy.config; clause discarded if neither layout exists) through quick_tidal_dissipation
              and through a synchronous `simple_tidal` world with use_ctl=True (skipped with a label if the object API
              cannot be driven).  CTL is passive by construction (a time lag), so inside the truncation's validity range
              (harness sums for |fixed_dt|, same 10 % rule) heating >= -1e-12 * sum|mode terms|.
              (Fixed finding KF-C10-ctl-default-dt, 2e2c7f6: the default fixed_dt was negative.)

Non-trivial: non-synchronous, e > 0.01, >= 5 distinct non-zero mode frequencies.

Generator domain notes: e, spin/n and obliquity are either exactly 0 or >= 1e-6, 1e-6, 1e-3 - with e ~ 1e-150 the products
e^2 F^2 K reach the subnormal range inside the repository (and the harness) and legitimately lose relative precision.
Repository calls go through tides_common.call_repo, which repeats a call that dies with numba's *run-time parfor shape
assertion* (`AssertionError: Sizes of ... do not match`): seen sporadically only in cold-cache multi-process runs, on
equal-length inputs, never on replay - a numba runtime artefact, not an input property (label numba_transient_retry).

Findings of this check
  KF-C10-zero-dissipation-q   FIXED (35fe97c): collapse_modes raised ZeroDivisionError when no mode of a degree dissipates
                              (rheology 'elastic' / 'off' with scalar viscosity & shear).  Any exception is now a failure
                              again (only the Newton one below is matched by known_findings.json).
  KF-C10-ctl-default-dt       FIXED (2e2c7f6): defaultc.py fixed_dt = -7.27e-08 made the default CTL world an energy source.
  KF-C10-newton-zero-frequency KNOWN (not repairable: the suite pins J(0) = 0): rheology 'newton' returns J = 0 for
                              |w| <= eps; any state with a zero-frequency mode (3:2, 2:1, 1:2 ... resonance with e > 0,
                              spin == n passed as arrays, spin ~ 0) raises "complex division by zero" in
                              complex_love_general.  Classified only when the rheology is newton, the harness enumeration
                              has a zero-frequency mode, the message is a complex division and the innermost repository
                              frame is the collapse_modes call.
An unclassified exception is re-evaluated once in a fresh process (tides_common.second_opinion, label
`reevaluated_in_fresh_process`) because of the sporadic numba artefact above; a deterministic exception reproduces there
and is reported as a failure.

Sensitivity (tools/mut.py, quick tier --cases 2000; all CAUGHT)
  mode_manipulation.py 'dUdO_term = uni_multiplier * m * mode_sign' -> '(m + 1)'      -> identity, grouping
  mode_manipulation.py 'universal_coeff_by_m[m] / 1.5' -> '/ 1.'                       -> closed_form, grouping
  mode_manipulation.py 'mode_frequency = np.abs(mode)' -> '= mode'                      -> sign, identity, grouping
  mode_manipulation.py 'freq_sig = (n_sig, m_sig)' -> '(abs(n_sig), m_sig)' (modes of different frequency share a
                       Love number)                                                       -> grouping
  mode_manipulation.py 'heating_term_new = heating_term_old + heating_term' -> '= heating_term' -> grouping, identity
  dissipation.py '(3. / 2.) * G * host_mass**2' -> '(3. / 2.) * G * host_mass' (first)    -> closed_form, grouping
  fixes/revert-35fe97c.diff, fixes/revert-2e2c7f6.diff                                    -> exception, sign(ctl_default)
  seeded/C10-5 (eccentricity tables memoised on the identity of the input array) -> history, all_zero/closed_form (history)
  seeded/C10-3 (collapse_modes divides the caller's susceptibility array by M_host in place) -> inputs_not_mutated, direct
  seeded/C10-1 (synchronous regrouping merges modes of different frequency), C10-2 (dUdO accumulates dUdw) -> grouping, identity
  (DESIGN's `n_sig = abs(n_coeff)` removal only changes how many signatures share a frequency, i.e. is an equivalent
   mutant; no check fires on it.)
"""
import math

import numpy as np
from hypothesis import strategies as st

from vlib.result import Collector, RepoRaised, discard, repo_call
from props import tides_common as tc

ID = 'C10'
TECHNIQUE = ('property-based testing (Hypothesis): algebraic invariant + closed-form limit + sign invariant + '
             'differential test against an ungrouped mode-by-mode reference sum')
LEVEL = 'exploration'
LEVEL_TEXT = ('Generated-input exploration over spin state, e, obliquity, l_max, truncation level, rheology (incl. CPL/CTL) and '
              'scalar/array calls; every returned heating/potential-derivative tuple is compared with an independent ungrouped '
              'mode sum and with the identities of the statement. Says the property held on everything generated.')
LEVEL_NOTE = ('The reference sum reuses the repository F^2_lmp / G^2_lpq tables (un-jitted .py_func, C07/C09 check those) and the '
              'rheology functions as inputs; universal coefficients, frequencies, signs, the homogeneous Love number and the '
              'summation are independent. Validity range of a truncation is defined operationally by the harness sums (10 % of e^20).')
CASES = {'quick': 4000, 'thorough': 100000}
SHARDS = {'quick': 16, 'thorough': 16}
# coverage-guided shards (vlib/fuzz_shard.py): libFuzzer drives the same strategy, guided by branch coverage of the pure-Python
# driver that routes scalar / array / None / period-or-frequency arguments (the numeric kernels are numba-jitted and not instrumented)
FUZZ = {'instrument': ['TidalPy.toolbox.quick_tides'], 'shards': {'quick': 0, 'thorough': 4},
        'cases': {'quick': 0, 'thorough': 4000}}
TOL = 1.0e-10
SIGN_TOL = 1.0e-12
RULE = ('Hypothesis draws the orbital/spin state, body, rheology and call shape described in the module docstring (a/R, e, spin/n with '
        'resonances and synchronous over-represented, obliquity, l_max, truncation, rheology parameters, scalar|array). A case is '
        'non-trivial when it is non-synchronous, e > 0.01 and the mode list has >= 5 distinct non-zero frequencies; distinct = '
        'distinct argument hash.')
ASSUMPTIONS = ['identity/grouping tolerance 1e-10 x sum of absolute per-mode terms (harness mode list)',
               'closed form 1e-10 relative', 'sign: heating >= -1e-12 x sum|terms| when passive and |Hh_N-Hh_20| <= 0.1 Hh_20 (harness sums)',
               'passive := Im J(|w|) <= 0 at every mode frequency (CPL: Q>0, CTL: dt>=0)',
               'G = 6.6743e-11 (asserted equal to TidalPy.constants.G and scipy.constants.G)']
TIMEOUT = {'quick': 1800, 'thorough': 6 * 3600}


def selftest():
    tc.selftest_common()


def strategy(tier):
    single = tc.tide_case_strategy(tier, kinds=('single',))
    direct = tc.tide_case_strategy(tier, kinds=('direct',), array_fraction=1)
    ctl = tc.tide_case_strategy(tier, kinds=('ctl_default',))
    return tc.weighted([single, direct, ctl], [50, 10, 1])


def _base_case(**over):
    body = {'log_R': math.log10(1.8216e6), 'log_rho': math.log10(3528.0), 'moi_factor': 0.378, 'rheology': 'maxwell',
            'rheo_inputs': [], 'tidal_scale': 1.0, 'fixed_k2': 0.3, 'log_fixed_q': 2.0, 'dt_factor': None,
            'sync': True, 'use_obl': False}
    body.update(over.pop('body', {}))
    pt = {'e': 0.0041, 'log_a_over_R': math.log10(4.217e8 / 1.8216e6), 'spin_ratio': [1.5, 1.0], 'obl': [0.0, 0.0],
          'log_visc': [16.0, 16.0], 'log_shear': [10.7, 10.7]}
    pt.update(over.pop('pt', {}))
    case = {'kind': 'single', 'l_max': 2, 'trunc': 2, 'as_array': False, 'log_host_mass': math.log10(1.898e27),
            'bodies': [body, dict(body)], 'pts': [pt]}
    case.update(over)
    return case


def fixed_cases(tier):
    out = [_base_case(),                                                     # Io-like, synchronous, e^2: closed form
           _base_case(pt={'e': 0.0}),                                        # all-zero clause
           _base_case(body={'sync': False}, pt={'e': 0.2}, trunc=10, l_max=3),   # 3:2 resonance
           _base_case(body={'sync': False, 'use_obl': True}, pt={'e': 0.1, 'obl': [0.4, 0.0], 'spin_ratio': [-1.0, 1.0]},
                      trunc=6, l_max=3),
           _base_case(body={'rheology': 'cpl'}), _base_case(body={'rheology': 'ctl'}),
           _base_case(kind='ctl_default', body={'rheology': 'ctl'}, pt={'e': 0.05}),
           _base_case(kind='ctl_default', body={'rheology': 'ctl', 'sync': False}, pt={'e': 0.1, 'spin_ratio': [2.3, 1.0]},
                      trunc=6),
           # direct calculate_terms / collapse_modes route, scalar and array susceptibility
           _base_case(kind='direct', pt={'e': 0.05}), _base_case(kind='direct', pt={'e': 0.05}, as_array='all'),
           _base_case(kind='direct', body={'sync': False, 'use_obl': True}, pt={'e': 0.2, 'obl': [0.3, 0.1]}, as_array='all',
                      trunc=6, l_max=3),
           # witnesses of the two exception findings
           _base_case(body={'rheology': 'elastic'}, pt={'e': 0.05}),
           _base_case(body={'rheology': 'newton', 'sync': False}, pt={'e': 0.05, 'spin_ratio': [1.5, 1.0]})]
    return out


def required_labels(tier):
    return ['spin:sync_none', 'spin:sync_explicit', 'spin:resonance', 'spin:retrograde', 'spin:generic', 'e:zero', 'e:pos',
            'obl:none', 'obl:zero', 'obl:on', 'scalar', 'array', 'clause:closed_form', 'clause:all_zero',
            'clause:sign_checked', 'sign:outside_validity', 'kind:ctl_default', 'ctl_default:oop_checked', 'kind:direct', 'history:checked',
            'direct:array_susceptibility', 'direct:scalar_susceptibility', 'l_max:2', 'l_max:3'] + \
        ['rheo:' + r for r in tc.DISSIPATIVE + tc.NONDISSIPATIVE] + \
        (['trunc:%d' % t for t in tc.TRUNCS] if tc.shard_info() is None else [])


def in_domain(case):
    return case.get('kind') in ('single', 'direct', 'ctl_default') and tc.case_in_domain(case)


def _full(v, k):
    return np.asarray(v, dtype=float) * np.ones(k)


def _ctl_defaults():
    """(static_k2, fixed_q, fixed_dt) of the package-default global_approx tides: parsed from
    TidalPy.defaultc.default_config_str (the source from which the per-user TidalPy_Configs.toml is written on first use),
    else taken from TidalPy.config; None when neither layout is found (the clause is then discarded, not failed)."""
    for getter in (_defaults_from_source, _defaults_from_config):
        try:
            cfg = getter()
            vals = float(cfg['static_k2']), float(cfg['fixed_q']), float(cfg['fixed_dt'])
            if all(math.isfinite(v) for v in vals) and vals[1] > 0.0 and vals[0] > 0.0:
                return vals
        except Exception:       # noqa - a layout change of the configuration is not a violation of C10
            continue
    return None


def _defaults_from_source():
    import toml
    from TidalPy.defaultc import default_config_str
    return toml.loads(default_config_str)['tides']['models']['global_approx']


def _defaults_from_config():
    import TidalPy
    return TidalPy.config['tides']['models']['global_approx']


def evaluate(case):
    return tc.second_opinion('c10_mode_sum', _evaluate, case)


def _evaluate(case):
    if case['kind'] == 'direct':
        return _evaluate_direct(case)
    from TidalPy.toolbox.quick_tides import quick_tidal_dissipation
    su = tc.Setup(case, dual=False)
    b = su.bodies[0]
    k = su.k
    ctl_default = case['kind'] == 'ctl_default'
    if ctl_default:
        defaults = _ctl_defaults()
        if defaults is None:
            return discard('ctl_default_unavailable', ['kind:ctl_default'])
        b.rheology = 'ctl'
        b.fixed_k2, b.fixed_q, b.fixed_dt = defaults
    ms = tc.mode_sum(su, b)
    lab = ['kind:' + case['kind'], 'rheo:' + b.rheology, 'l_max:%d' % su.l_max, 'trunc:%d' % su.trunc,
           'array' if su.as_array else 'scalar']
    if su.as_array:
        lab.append('array:' + str(su.as_array))
    if not ms.finite:
        return discard('nonfinite_compliance', lab)
    explicit_sync = (not b.sync) and bool(np.all(b.spin == su.n))
    sync = b.sync or explicit_sync
    ratio = b.ratio
    if b.sync:
        lab.append('spin:sync_none')
    elif explicit_sync:
        lab.append('spin:sync_explicit')
    else:
        if any(abs(r) in (0.5, 1.5, 2.0, 3.0) or r == -1.0 for r in ratio):
            lab.append('spin:resonance')
        if any(r < 0 for r in ratio):
            lab.append('spin:retrograde')
        if any(r == 0 for r in ratio):
            lab.append('spin:zero')
        if all(r not in (0.5, 1.5, 2.0, 3.0, -1.0, 1.0, 0.0, -3.0) for r in ratio):
            lab.append('spin:generic')
    lab.append('e:zero' if np.any(su.e == 0.0) else 'e:pos')
    if np.any(su.e > 0.0) and 'e:pos' not in lab:
        lab.append('e:pos')
    obl_zero = b.obl is None or bool(np.all(b.obl == 0.0))
    lab.append('obl:none' if b.obl is None else ('obl:zero' if obl_zero else 'obl:on'))
    c = Collector(labels=lab)
    c.nontrivial = bool((not sync) and any(su.e[j] > 0.01 and ms.n_freq[j] >= 5 for j in range(k)))

    kw = tc.single_kwargs(su, b, derivatives=False)
    retries0 = tc.TRANSIENT_RETRIES['count']
    try:
        res = tc.call_repo('quick_tidal_dissipation', quick_tidal_dissipation, **kw)
    except RepoRaised as e:
        cls = tc.known_exception_class(b, ms, e.exc)
        c.label('exception:' + (cls or 'other'))
        c.fail({'kind': 'exception', 'type': type(e.exc).__name__, 'where': 'quick_tidal_dissipation',
                'class': cls or 'unclassified'},
               'rheology=%s e=%r spin/n=%r l_max=%d trunc=%d as_array=%r: %s: %s'
               % (b.rheology, su.e.tolist(), ratio.tolist() if not b.sync else 'sync', su.l_max, su.trunc, su.as_array,
                  type(e.exc).__name__, e.exc))
        return c.result()
    if tc.TRANSIENT_RETRIES['count'] != retries0:
        c.label('numba_transient_retry')
    tc.check_not_mutated(c, 'quick_tidal_dissipation')
    M = b.host_mass
    H = _full(res['tidal_heating'], k)
    dM = _full(res['dUdM'], k)
    dw = _full(res['dUdw'], k)
    dO = _full(res['dUdO'], k)
    tq = _full(res['tidal_torque'], k)
    n, spin = su.n, b.spin
    ctx = 'rheology=%s l_max=%d trunc=%d e=%r n=%r spin=%r obl=%r as_array=%r' % (
        b.rheology, su.l_max, su.trunc, su.e.tolist(), n.tolist(), 'None' if b.sync else spin.tolist(),
        None if b.obl is None else b.obl.tolist(), su.as_array)

    finite = bool(np.all(np.isfinite(H)) and np.all(np.isfinite(dM)) and np.all(np.isfinite(dw)) and np.all(np.isfinite(dO)))
    if not c.check(finite, {'clause': 'finite'}, '%s: non-finite result H=%r dUdM=%r dUdw=%r dUdO=%r' % (ctx, H, dM, dw, dO)):
        return c.result()

    # (1) heating = M_host (n dUdM - spin dUdO)
    resid = np.abs(H - M * (n * dM - spin * dO))
    tol = TOL * ms.s_identity
    c.check(bool(np.all(resid <= tol)), {'clause': 'identity', 'what': 'heating_vs_potential_derivatives'},
            '%s: heating=%r  M(n dUdM - spin dUdO)=%r  |residual|=%r  tol=%r' % (ctx, H, M * (n * dM - spin * dO), resid, tol))
    c.check(bool(np.all(np.abs(tq - M * dO) <= 1.0e-12 * np.abs(tq))), {'clause': 'identity', 'what': 'tidal_torque'},
            '%s: tidal_torque=%r M*dUdO=%r' % (ctx, tq, M * dO))

    # (2) circular, zero-obliquity, synchronous: everything vanishes exactly
    if sync and obl_zero and bool(np.all(su.e == 0.0)):
        c.label('clause:all_zero')
        # obliquity=None: the I = 0 tables are literal constants and the result must be exactly 0.  obliquity=0.0 goes
        # through the general F^2_lmp(I) expressions, some of which (l = 5: (1,1), (3,2)) evaluate a vanishing bracket
        # to ~5e-17 at I = 0, i.e. F^2 ~ 1e-29 instead of 0: allowed up to 1e-20 of the natural unit
        # G M^2 R^5 n / a^6 * max|Im k_l|.
        unit = 0.0 if b.obl is None else 1.0e-20 * ms.unit * ms.k_max
        c.check(bool(np.all(np.abs(H) <= unit * np.abs(n)) and np.all(np.abs(dM) <= unit / M) and np.all(np.abs(dw) <= unit / M)
                     and np.all(np.abs(dO) <= unit / M)),
                {'clause': 'all_zero'}, '%s: H=%r dUdM=%r dUdw=%r dUdO=%r (allowed %r W)' % (ctx, H, dM, dw, dO, unit * np.abs(n)))

    # (3) classical synchronous e^2 limit
    if sync and obl_zero and su.trunc == 2 and su.l_max == 2:
        c.label('clause:closed_form')
        kn, _, _ = tc.body_love(b, 2, n)
        unit = 10.5 * tc.G_SI * M * M * b.R ** 5 * n * su.e ** 2 / su.a ** 6
        ref = unit * (-(kn * np.ones(k)).imag * b.tidal_scale)
        c.check(bool(np.all(np.abs(H - ref) <= TOL * np.abs(ref))), {'clause': 'closed_form', 'k2': 'closed-form k2(n)'},
                '%s: heating=%r  (21/2)(-Im k2) G M^2 R^5 n e^2/a^6=%r' % (ctx, H, ref))
        if b.sync and b.obl is None and 2 in res['love_number_by_orderl']:
            # every mode frequency of this configuration is |w| = n, so the returned per-degree k2 is k2(n) however modes
            # are grouped; whether tidal_scale is folded into the returned Im k2 is not part of the statement: accept both
            k2 = np.asarray(res['love_number_by_orderl'][2], dtype=complex) * np.ones(k)
            r1, r2 = unit * (-k2.imag), unit * (-k2.imag) * b.tidal_scale
            okk = (np.abs(H - r1) <= TOL * np.abs(r1)) | (np.abs(H - r2) <= TOL * np.abs(r2))
            c.check(bool(np.all(okk)), {'clause': 'closed_form', 'k2': 'returned k2'},
                    '%s: heating=%r  (21/2)(-Im k2_returned [x tidal_scale]) G M^2 R^5 n e^2/a^6=%r | %r' % (ctx, H, r1, r2))

    # (5) grouping invariance: ungrouped harness sum
    for name, got, ref, scale in (('heating', H, ms.heating, ms.s_heating), ('dUdM', dM, ms.dUdM, ms.s_dUdM),
                                  ('dUdw', dw, ms.dUdw, ms.s_dUdw), ('dUdO', dO, ms.dUdO, ms.s_dUdO)):
        d = np.abs(got - ref)
        c.check(bool(np.all(d <= TOL * scale)), {'clause': 'grouping', 'what': name},
                '%s: %s=%r  ungrouped mode sum=%r  |diff|=%r  tol=%r' % (ctx, name, got, ref, d, TOL * scale))

    # (4) sign
    if ctl_default:
        # CTL is passive by construction (a time LAG), so the package defaults must describe a passive body; the validity
        # range of the truncation is judged with the harness sums for |fixed_dt| (the passive body the defaults stand for)
        sgn = -1.0 if b.fixed_dt < 0.0 else 1.0
        ms20 = ms if su.trunc == 20 else tc.mode_sum(su, b, trunc=20)
        valid = np.abs(sgn * ms.heating - sgn * ms20.heating) <= 0.1 * sgn * ms20.heating
        c.label('clause:sign_checked' if np.any(valid) else 'sign:outside_validity')
        bad = valid & ~(H >= -SIGN_TOL * ms.s_heating)
        c.check(not bool(np.any(bad)),
                {'clause': 'sign', 'class': 'ctl_default_fixed_dt', 'path': 'quick_tidal_dissipation'},
                '%s: default CTL parameters k2=%r Q=%r fixed_dt=%r give heating=%r' % (ctx, b.fixed_k2, b.fixed_q, b.fixed_dt, H))
        _oop_ctl_default(c, su, b)
    elif ms.passive:
        ms20 = ms if su.trunc == 20 else tc.mode_sum(su, b, trunc=20)
        valid = np.abs(ms.heating - ms20.heating) <= 0.1 * ms20.heating
        if np.any(valid):
            c.label('clause:sign_checked')
        if np.any(~valid):
            c.label('sign:outside_validity')
        bad = valid & ~(H >= -SIGN_TOL * ms.s_heating)
        c.check(not bool(np.any(bad)), {'clause': 'sign'},
                '%s: passive rheology inside the validity range (harness H_N=%r, H_20=%r) but heating=%r' % (ctx, ms.heating, ms20.heating, H))
    else:
        c.label('sign:not_passive')
    if not ctl_default:
        _history(c, case, kw)
    return c.result()


def _history(c, case, kw_live):
    """Call-history clause (tides_common.history_check) for quick_tidal_dissipation: two more calls with the SAME ndarray objects
    overwritten in place (second one: e exactly 0), each equal bit for bit to a call with fresh arrays; plus the closed-form and
    all-zero clauses on the history results.  Costs four extra repository calls and no harness mode sum, array cases only."""
    from TidalPy.toolbox.quick_tides import quick_tidal_dissipation

    def make_call(su_s, kw, build_only=False):
        if kw is None:
            kw2 = tc.single_kwargs(su_s, su_s.bodies[0], derivatives=False)
            if build_only:
                return kw2
            return kw2, tc.call_repo('quick_tidal_dissipation', quick_tidal_dissipation, **kw2)
        return tc.call_repo('quick_tidal_dissipation', quick_tidal_dissipation, **kw)

    def known(ex):
        return True if isinstance(ex.exc, ZeroDivisionError) and 'complex division' in str(ex.exc) \
            and case['bodies'][0]['rheology'] == 'newton' else False

    def extra(su_s, res, step):
        b = su_s.bodies[0]
        k = su_s.k
        H, dM, dw, dO = (_full(res[x], k) for x in ('tidal_heating', 'dUdM', 'dUdw', 'dUdO'))
        explicit = (not b.sync) and bool(np.all(b.spin == su_s.n))
        sync = b.sync or explicit
        obl_zero = b.obl is None or bool(np.all(b.obl == 0.0))
        M = b.host_mass
        if sync and b.obl is None and bool(np.all(su_s.e == 0.0)):
            c.label('history:all_zero')
            c.check(bool(np.all(H == 0.0) and np.all(dM == 0.0) and np.all(dw == 0.0) and np.all(dO == 0.0)),
                    {'clause': 'all_zero', 'route': 'history'},
                    'history call %d with the eccentricity array overwritten by zeros (synchronous, no obliquity): H=%r dUdM=%r dUdO=%r'
                    % (step + 2, H, dM, dO))
        if sync and obl_zero and su_s.trunc == 2 and su_s.l_max == 2:
            kn, _, fin = tc.body_love(b, 2, su_s.n)
            if fin:
                ref = 10.5 * tc.G_SI * M * M * b.R ** 5 * su_s.n * su_s.e ** 2 / su_s.a ** 6 * (-(kn * np.ones(k)).imag * b.tidal_scale)
                c.check(bool(np.all(np.abs(H - ref) <= TOL * np.abs(ref))), {'clause': 'closed_form', 'route': 'history'},
                        'history call %d (e=%r): heating=%r  (21/2)(-Im k2) G M^2 R^5 n e^2/a^6=%r' % (step + 2, su_s.e.tolist(), H, ref))

    tc.history_check(c, case, False, kw_live, make_call, 'quick_tidal_dissipation', is_known=known, extra=extra)


def _evaluate_direct(case):
    """calculate_terms / collapse_modes called directly, the way quick_tidal_dissipation assembles them - but the mode
    terms, the unique frequencies and the tidal susceptibility are computed ONCE and then collapsed three times (the
    case's rheology, a second rheology, the first again), as a caller looping over rheologies / temperatures / layers (or
    the object API, which keeps the susceptibility between orbit updates) does.  Every call is compared with the harness
    per-mode sum and the closed form, the repeated call must reproduce the first one bit for bit, and no argument object
    (arrays, dicts of arrays) may be modified by any call."""
    from TidalPy.rheology.complex_compliance import known_models
    from TidalPy.rheology.complex_compliance.complex_compliance import compliance_dict_helper
    from TidalPy.tides.ctl_funcs import linear_dt
    from TidalPy.tides.dissipation import calc_tidal_susceptibility
    from TidalPy.tides.methods.global_approx import cpl_neg_imk_helper_func, ctl_neg_imk_helper_func
    from TidalPy.tides.modes.mode_manipulation import find_mode_manipulators
    from TidalPy.utilities.conversions import orbital_motion2semi_a
    su = tc.Setup(case, dual=False)
    b = su.bodies[0]
    k = su.k
    as_arr = bool(su.as_array)
    variants = [b, tc.variant_body(su, case), b]
    lab = ['kind:direct', 'l_max:%d' % su.l_max, 'trunc:%d' % su.trunc, 'array' if as_arr else 'scalar',
           'direct:array_susceptibility' if as_arr else 'direct:scalar_susceptibility']
    lab += list(dict.fromkeys('rheo:' + v.rheology for v in variants))
    sums = [tc.mode_sum(su, variants[0]), tc.mode_sum(su, variants[1])]
    sums.append(sums[0])
    if not all(ms.finite for ms in sums):
        return discard('nonfinite_compliance', lab)
    c = Collector(labels=lab)
    explicit_sync = (not b.sync) and bool(np.all(b.spin == su.n))
    sync = b.sync or explicit_sync
    obl_zero = b.obl is None or bool(np.all(b.obl == 0.0))
    c.nontrivial = bool((not sync) and any(su.e[j] > 0.01 and sums[0].n_freq[j] >= 5 for j in range(k)))
    conv = (lambda v: np.array(v, dtype=float)) if as_arr else (lambda v: float(v[0]))      # noqa: E731
    M = b.host_mass
    n = conv(su.n)
    spin = n if b.sync else conv(b.spin)            # quick_tidal_dissipation passes the very same object when spin-locked
    e = conv(su.e)
    obl = conv(b.obl) if b.obl is not None else (np.zeros(k) if as_arr else 0.0)
    with repo_call('direct: tables, calculate_terms'):
        calc_terms, collapse, ecc_func, inc_func = find_mode_manipulators(
            max_order_l=su.l_max, eccentricity_truncation_lvl=su.trunc, use_obliquity=b.obl is not None)
        a = orbital_motion2semi_a(n, M, b.mass)
        chi = calc_tidal_susceptibility(M, b.R, a)
        ecc = ecc_func(e)
        inc = inc_func(obl)
        before = tc.snapshot((spin, n, a, ecc, inc))
        uf, terms = calc_terms(spin, n, a, b.R, ecc, inc, multiply_modes_by_sign=True)
    mut = tc.differences(before, (spin, n, a, ecc, inc), 'calculate_terms_args')
    c.check(not mut, {'clause': 'inputs_not_mutated', 'fn': 'calculate_terms'},
            'calculate_terms modified its arguments in place: %s' % mut[:6])
    ctx = 'direct l_max=%d trunc=%d e=%r n=%r spin=%r obl=%r as_array=%r' % (
        su.l_max, su.trunc, su.e.tolist(), su.n.tolist(), 'None' if b.sync else b.spin.tolist(),
        None if b.obl is None else b.obl.tolist(), su.as_array)
    first = None
    for i, (v, ms) in enumerate(zip(variants, sums)):
        cpl_ctl = v.rheology in ('cpl', 'ctl')
        try:
            with repo_call('direct: compliance + collapse_modes'):
                if v.rheology == 'cpl':
                    shear, cdict = 1.0, cpl_neg_imk_helper_func(uf, v.fixed_k2, v.fixed_q)
                elif v.rheology == 'ctl':
                    dt = v.fixed_dt if v.fixed_dt is not None else (1.0 / v.fixed_q) * (1.0 / n)
                    shear, cdict = 1.0, ctl_neg_imk_helper_func(uf, v.fixed_k2, linear_dt, (dt,))
                else:
                    shear, visc = conv(v.shear), conv(v.visc)
                    cdict = compliance_dict_helper(uf, known_models[v.rheology], (shear ** (-1), visc), v.inputs)
                args = (v.g, v.R, v.rho, shear, v.tidal_scale, M, chi, cdict, terms)
                before = tc.snapshot(args)
                out = collapse(*args, max_order_l=su.l_max, cpl_ctl_method=cpl_ctl)
        except RepoRaised as ex:
            if tc.known_exception_class(v, ms, ex.exc) is not None:
                return discard('excluded_known_finding', lab)       # KF-C10-newton-zero-frequency, reported by kind 'single'
            # same finding on this route when the spin EQUALS the mean motion as a number without being the same object: the
            # harness enumeration then treats the body as synchronous (no zero-frequency mode listed, has_zero_freq False) while
            # calculate_terms, which recognises synchronism by identity, keeps the 2o-2n = 0 mode and the Newton compliance
            # divides by zero (thorough tier: 13 of 104 017 cases)
            if (v.rheology == 'newton' and explicit_sync and isinstance(ex.exc, ZeroDivisionError)
                    and 'complex division' in str(ex.exc)):
                return discard('excluded_known_finding', lab)
            raise
        names = ('gravity', 'radius', 'density', 'shear_modulus', 'tidal_scale', 'tidal_host_mass', 'tidal_susceptibility',
                 'complex_compliance_by_frequency', 'tidal_terms_by_frequency')
        mut = []
        for nm, x, y in zip(names, before, args):
            mut += tc.differences(x, y, nm)
        c.check(not mut, {'clause': 'inputs_not_mutated', 'fn': 'collapse_modes'},
                '%s call %d (rheology %s): collapse_modes modified its caller\'s argument(s) in place: %s' % (ctx, i + 1, v.rheology, mut[:6]))
        H, dM, dw, dO = (_full(x, k) for x in out[:4])
        if not c.check(bool(np.all(np.isfinite(H)) and np.all(np.isfinite(dM)) and np.all(np.isfinite(dw)) and np.all(np.isfinite(dO))),
                       {'clause': 'finite', 'route': 'direct'}, '%s call %d: H=%r dUdM=%r' % (ctx, i + 1, H, dM)):
            continue
        for name, got, ref, scale in (('heating', H, ms.heating, ms.s_heating), ('dUdM', dM, ms.dUdM, ms.s_dUdM),
                                      ('dUdw', dw, ms.dUdw, ms.s_dUdw), ('dUdO', dO, ms.dUdO, ms.s_dUdO)):
            d = np.abs(got - ref)
            c.check(bool(np.all(d <= TOL * scale)), {'clause': 'grouping', 'what': name, 'route': 'direct'},
                    '%s call %d of collapse_modes on the same terms/susceptibility (rheology %s): %s=%r  ungrouped mode sum=%r  '
                    '|diff|=%r tol=%r' % (ctx, i + 1, v.rheology, name, got, ref, d, TOL * scale))
        resid = np.abs(H - M * (su.n * dM - v.spin * dO))
        c.check(bool(np.all(resid <= TOL * ms.s_identity)), {'clause': 'identity', 'what': 'heating_vs_potential_derivatives', 'route': 'direct'},
                '%s call %d: heating=%r M(n dUdM - spin dUdO)=%r' % (ctx, i + 1, H, M * (su.n * dM - v.spin * dO)))
        if sync and obl_zero and su.trunc == 2 and su.l_max == 2:
            c.label('clause:closed_form')
            kn, _, _ = tc.body_love(v, 2, su.n)
            ref = 10.5 * tc.G_SI * M * M * v.R ** 5 * su.n * su.e ** 2 / su.a ** 6 * (-(kn * np.ones(k)).imag * v.tidal_scale)
            c.check(bool(np.all(np.abs(H - ref) <= TOL * np.abs(ref))), {'clause': 'closed_form', 'route': 'direct'},
                    '%s call %d (rheology %s): heating=%r  (21/2)(-Im k2) G M^2 R^5 n e^2/a^6=%r' % (ctx, i + 1, v.rheology, H, ref))
        if i == 0:
            first = (H, dM, dw, dO)
        elif i == 2:
            same = all(np.array_equal(x, y, equal_nan=True) for x, y in zip(first, (H, dM, dw, dO)))
            c.check(same, {'clause': 'repeatable', 'route': 'direct'},
                    '%s: third call (same rheology and same input objects as the first) returned %r, first call %r' % (ctx, (H, dM), first[:2]))
    return c.result()


_oop_cache = {}


def _oop_ctl_default(c, su, b):
    """The same default CTL parameters through the object API (simple_tidal world, global_approx tides, use_ctl=True,
    synchronous rotation, e <= 0.2, i.e. inside the validity range of the default e^6 truncation, which is verified with
    the harness sums for the same world).  Anything that fails while building the world or reading its state is a layout
    matter of the object API (C13's business), not a C10 violation: the clause is then skipped (label)."""
    e_oop = float(min(max(su.e[0], 0.01), 0.2))
    period = 1.0 + 20.0 * float(su.e[0])
    R, m, Mh = 1.8e6, 8.9e22, 1.9e27
    try:
        from TidalPy.structures import build_world
        from TidalPy.structures.orbit import PhysicsOrbit
        if 'host' not in _oop_cache:
            _oop_cache['host'] = build_world('vhost', {'name': 'vhost', 'type': 'simple_tidal', 'radius': 7.0e7, 'mass': Mh,
                                                       'tides_on': False, 'force_spin_sync': False})
        host = _oop_cache['host']
        sat = build_world('vsat', {'name': 'vsat', 'type': 'simple_tidal', 'radius': R, 'mass': m, 'tides_on': True,
                                   'force_spin_sync': True,
                                   'tides': {'model': 'global_approx', 'use_ctl': True, 'static_k2': b.fixed_k2,
                                             'fixed_q': b.fixed_q, 'fixed_dt': b.fixed_dt}})
        orbit = PhysicsOrbit(star=None, tidal_host=host, tidal_bodies=sat, make_copies=False)
        orbit.set_state(sat, orbital_period=period, eccentricity=e_oop)
        heat = np.asarray(sat.tides.tidal_heating_global, dtype=float)
        trunc = int(getattr(sat.tides, 'eccentricity_truncation_lvl', 6))
        if heat.shape != () and heat.size != 1 or not np.all(np.isfinite(heat)):
            raise ValueError('unexpected tidal_heating_global %r' % (heat,))
    except Exception as ex:      # noqa
        c.label('ctl_default:oop_unavailable')
        return
    # harness sums for the same world (|fixed_dt|): validity range + scale of the per-mode terms
    n = 2.0 * math.pi / (period * 86400.0)
    a = (tc.G_SI * (Mh + m) / n ** 2) ** (1.0 / 3.0)
    ref = _base_case(trunc=trunc if trunc in tc.TRUNCS else 6, log_host_mass=math.log10(Mh),
                     body={'rheology': 'ctl', 'log_R': math.log10(R), 'log_rho': math.log10(m / (4.0 / 3.0 * math.pi * R ** 3))},
                     pt={'e': e_oop, 'log_a_over_R': math.log10(a / R)})
    su2 = tc.Setup(ref, dual=False)
    b2 = su2.bodies[0]
    b2.rheology, b2.fixed_k2, b2.fixed_q, b2.fixed_dt = 'ctl', b.fixed_k2, b.fixed_q, abs(b.fixed_dt)
    msN, ms20 = tc.mode_sum(su2, b2), tc.mode_sum(su2, b2, trunc=20)
    if not bool(np.all(np.abs(msN.heating - ms20.heating) <= 0.1 * ms20.heating)):
        c.label('sign:outside_validity')
        return
    c.label('ctl_default:oop_checked')
    c.check(bool(np.all(heat >= -SIGN_TOL * msN.s_heating[0])),
            {'clause': 'sign', 'class': 'ctl_default_fixed_dt', 'path': 'GlobalApproxTides'},
            'simple_tidal world, use_ctl=True, default parameters k2=%r Q=%r fixed_dt=%r, P=%r d, e=%r: tidal_heating_global=%r '
            '(harness sum of |terms| %r W)' % (b.fixed_k2, b.fixed_q, b.fixed_dt, period, e_oop, heat, msN.s_heating[0]))


def warm():
    """Populate the numba disk cache single-process (setup.sh) with every cacheable signature the quick tier uses:
    tables for l_max 2..3 x every truncation, scalar and all-array calls, with/without obliquity, viscoelastic / CPL / CTL
    collapse_modes variants.  (Cold multi-process compilation is where the sporadic numba AssertionError described in
    tides_common.call_repo was seen.)"""
    for case in fixed_cases('quick')[:8]:
        evaluate(case)
    for trunc in tc.TRUNCS:
        for l_max in (2, 3):
            for as_array in (False, 'all'):
                for use_obl in (False, True):
                    for rheo in ('maxwell', 'cpl', 'ctl'):
                        if rheo != 'maxwell' and (trunc not in (2, 6) or l_max != 2):
                            continue
                        evaluate(_base_case(trunc=trunc, l_max=l_max, as_array=as_array,
                                            body={'rheology': rheo, 'use_obl': use_obl, 'sync': False},
                                            pt={'e': 0.1, 'obl': [0.3, 0.2]}))
