"""C11 - spin-orbit evolution rates conserve energy and angular momentum (single- and dual-body dissipation).

Generated (shared generator of C10, `calculate_orbit_spin_derivatives=True`)
  single  quick_tidal_dissipation: host mass 10^[22,30] kg (non-dissipative), target R 10^[5,7.8] m,
          rho 10^[2.7,4.1], C = alpha M R^2 with alpha in [0.2,0.4];
  dual    quick_dual_body_tidal_dissipation: two such bodies, each with its own rheology, spin state, obliquity;
  a/(R1+R2) in 10^[0.6,3] (n from Kepler), e = 0 (also passed as eccentricity=None) | [1e-6,0.5], spin synchronous or
  spin/n in [-3,3] (resonances, retrograde, zero over-represented), obliquity None | 0 | [1e-3,pi/2], l_max 2..3
  (thorough ..7), truncation 2..20, every rheology incl. CPL/CTL, scalar inputs or arrays of 1..4 elements.

Input routes (every case draws one combination; the REQUESTED state is what the route describes): orbit as orbital_frequency
  or orbital_period; each non-synchronous world's spin as a frequency or as a period - for dual calls independently per world,
  so mixed tuples like spin_frequencies=(w0, None) with spin_periods=(None, P1) occur -; an all-None spin tuple passed as None
  or as (None, None); entry point quick_* or single/dual_dissipation_from_dict_or_world_instance; e = 0 as 0.0 or None;
  zero obliquity as None or 0.0.  A period P stands for the frequency days2rads(P) (conversion checked by C17), which the
  harness computes with the same function, so the canonical call below describes bit-for-bit the same state.

Oracles (a from Kepler's third law for the n passed; C, masses as passed)
  energy   G M m/(2 a^2) da/dt + sum_i C_i Omega_i dOmega_i/dt + sum_i heating_i = 0
  momentum when every obliquity is None or 0:
           mu_red sqrt(G(M+m)) [ sqrt((1-e^2)/a)/2 da/dt - sqrt(a) e/sqrt(1-e^2) de/dt ] + sum_i C_i dOmega_i/dt = 0
           both to 1e-9 * (sum of |terms of the identity|) + 1e-12 * (sum of absolute per-mode terms from the harness mode
           list - covers cancellation inside dU/dM, dU/dO) + 1e-20 * G M^2 R^5/a^6 max|Im k_l| (x n for the energy balance: two
           l = 5 inclination expressions give F^2(0) ~ 1e-29 instead of 0, so at e = 0, I = 0.0, synchronous the rates
           are ~1e-29 of that unit instead of 0).  Measured worst 2.4e-15 of the first scale.
  e_zero   de/dt is finite and exactly 0 where e = 0 (scalar and array calls); every returned rate is finite.
  array    array call == element-wise scalar calls: |diff| <= 1e-13 * (|value| + rate implied by the sum of absolute per-mode
           terms).  Measured: bit-identical in 1200 calibration cases.
  route    the case's route and the canonical route (quick_*, every quantity as a frequency) give the same da/dt, de/dt,
           dOmega_i/dt, heating_i: same tolerance as `array`; energy/momentum are evaluated on the routed call at the requested state.
  history  (array cases) two more calls of the same entry point with the same ndarray objects overwritten in place by the next
           generated state (second: e = 0) equal, bit for bit, calls with fresh arrays; de/dt = 0 where e = 0 (tides_common.history_check).
  inputs_not_mutated  no keyword argument (arrays, tuples of arrays, dicts) is modified by any call.
Non-trivial: at least one body non-synchronous and e > 0.
Generator domain: e, spin/n, obliquity are exactly 0 or >= 1e-6, 1e-6, 1e-3 (subnormal products otherwise, see C10); the
'newton' (behind C10's known zero-frequency finding) gets a reduced weight; repository calls use tides_common.call_repo.

The only excused exception is C10's known finding KF-C10-newton-zero-frequency: rheology 'newton', a zero-frequency mode in
the harness enumeration, a *complex* division by zero whose innermost repository frame is the collapse_modes call (the
Love-number path).  Such a call returns no rates; the case is discarded (counted) and reported by C10.  Any other
exception - in particular a ZeroDivisionError from the dynamics functions for ANY rheology, elastic/off included - is a
failure.  An unclassified exception is re-evaluated once in a fresh process (tides_common.second_opinion, label
`reevaluated_in_fresh_process`; reason: sporadic numba run-time artefact in cold multi-process runs); a deterministic
exception reproduces there and is reported.

Sensitivity (tools/mut.py, quick tier --cases 2000; all CAUGHT; seeded/C11-1,2,3 too - C11-3, a None entry of
spin_frequencies silently meaning spin-locked although spin_periods gives that world's spin, -> energy, route)
  fixes/revert-b813e7b.diff (de/dt NaN / ZeroDivisionError at e = 0)                       -> e_zero, exception
  single_dissipation.py 'da_dt = (2. / (orbital_motion * semi_major_axis)) * dR_dM' (2nd, semia_eccen_derivatives)
                        -> '(1. / ...'                                                        -> energy (single)
  dual_dissipation.py   'dR_dM_2 = -1. * beta_invr * mass_1 * dU_dM_2' -> without '* mass_1'  -> energy (dual)
  single_dissipation.py '(e_term1 * dR_dM - dR_dw_1)' -> '(e_term1 * dR_dM + dR_dw_1)' (2nd)  -> momentum
  single_dissipation.py 'dspin_dt = (host_mass / moment_of_inertia) * dU_dO' -> '(1. / moment_of_inertia)' -> energy, momentum
  quick_tides.py        'masses[0],\n            dissipation_results['host']['dUdM'],' -> 'masses[1], ...' (wrong mass paired with
                        the host's potential in the dual call)                                -> energy (dual)
"""
import math

import numpy as np

from vlib.result import Collector, RepoRaised, discard, repo_call
from props import tides_common as tc

ID = 'C11'
TECHNIQUE = ('property-based testing (Hypothesis): conservation-law invariants (energy, angular momentum) closed over the returned '
             'rates, exact-zero clause at e=0, array-vs-scalar metamorphic relation')
LEVEL = 'exploration'
LEVEL_TEXT = ('Generated-input exploration over masses, radii, moments of inertia, a, e, spin states, obliquity, rheologies, truncation '
              'levels and l_max for single- and dual-body dissipation; every returned (da/dt, de/dt, dOmega/dt, heating) tuple is '
              'checked against the energy and angular-momentum balance. Says the balances held on everything generated.')
LEVEL_NOTE = ('The balances are evaluated by the harness from the returned rates with its own Kepler relation and constants '
              '(G asserted equal to the repository value); the per-mode scale used as rounding floor comes from the harness mode '
              'enumeration of tides_common (self-tested on the classical 21/2 rate).')
CASES = {'quick': 4000, 'thorough': 60000}
SHARDS = {'quick': 16, 'thorough': 16}
# coverage-guided shards (vlib/fuzz_shard.py): libFuzzer drives the same strategy, guided by branch coverage of the pure-Python
# driver that routes scalar / array / None / period-or-frequency arguments (the numeric kernels are numba-jitted and not instrumented)
FUZZ = {'instrument': ['TidalPy.toolbox.quick_tides'], 'shards': {'quick': 0, 'thorough': 4},
        'cases': {'quick': 0, 'thorough': 4000}}
TOL = 1.0e-9
FLOOR = 1.0e-12
ARRAY_TOL = 1.0e-13
UNIT_FLOOR = 1.0e-20
RULE = ('Hypothesis draws single|dual, masses/radii/moment-of-inertia factors, a/R, e (0 over-represented, also as None), spin states, '
        'obliquities, l_max, truncation, rheologies with parameters and scalar|array call shape. Non-trivial: some body '
        'non-synchronous and e > 0; distinct = distinct argument hash.')
ASSUMPTIONS = ['E_orb = -G M m/(2a), E_rot = C Omega^2/2, L_orb = M m/(M+m) sqrt(G (M+m) a (1-e^2)), L_spin = C Omega (zero obliquity)',
               'tolerance 1e-9 x sum|identity terms| + 1e-12 x sum|per-mode terms|',
               'array vs scalar 1e-13 x (|value| + per-mode scale)', 'a = (G (M+m)/n^2)^(1/3), G = 6.6743e-11']
TIMEOUT = {'quick': 1800, 'thorough': 6 * 3600}


def selftest():
    tc.selftest_common()


def strategy(tier):
    return tc.tide_case_strategy(tier, kinds=('single', 'dual'), array_fraction=2, finding_weight=0.25, routes=True)


def fixed_cases(tier):
    from props.c10_mode_sum import _base_case
    out = []
    for kind in ('single', 'dual'):
        out.append(_base_case(kind=kind, pt={'e': 0.0}, e_none=False))                       # e = 0 scalar (b813e7b witness)
        out.append(_base_case(kind=kind, pt={'e': 0.0}, e_none=True))                        # eccentricity=None
        out.append(_base_case(kind=kind, pt={'e': 0.0, 'spin_ratio': [2.0, 0.5]}, body={'sync': False}, as_array='all'))
        out.append(_base_case(kind=kind, pt={'e': 0.1, 'spin_ratio': [1.5, -1.0]}, body={'sync': False}, trunc=6, l_max=3))
        out.append(_base_case(kind=kind, pt={'e': 0.3, 'spin_ratio': [0.3, 2.5], 'obl': [0.5, 0.2]},
                              body={'sync': False, 'use_obl': True}, trunc=10))
    # input routes: one world's spin as a frequency, the other's as a period (mixed tuples), explicit (None, None), periods,
    # the *_from_dict_or_world_instance entry points
    for routes in ({'orbit': 'frequency', 'spin': ['frequency', 'period'], 'none_tuple': False, 'entry': 'quick'},
                   {'orbit': 'period', 'spin': ['period', 'frequency'], 'none_tuple': False, 'entry': 'from_dict'},
                   {'orbit': 'period', 'spin': ['period', 'period'], 'none_tuple': True, 'entry': 'quick'},
                   {'orbit': 'frequency', 'spin': ['frequency', 'frequency'], 'none_tuple': True, 'entry': 'from_dict'}):
        for kind in ('single', 'dual'):
            out.append(_base_case(kind=kind, pt={'e': 0.12, 'spin_ratio': [1.7, -0.6]}, body={'sync': False}, trunc=6,
                                  routes=routes))
    out.append(_base_case(kind='dual', pt={'e': 0.05}, trunc=4,
                          routes={'orbit': 'period', 'spin': ['period', 'period'], 'none_tuple': True, 'entry': 'quick'}))
    return out


def required_labels(tier):
    return ['kind:single', 'kind:dual', 'e:zero', 'e:pos', 'e:none', 'scalar', 'array', 'momentum:checked', 'momentum:oblique',
            'spin:sync', 'spin:nonsync', 'spin:retrograde', 'entry:quick', 'entry:from_dict', 'orbit:period',
            'orbit:frequency', 'spinroute:period', 'spinroute:frequency', 'spinroute:mixed', 'route:noncanonical',
            'route:canonical', 'history:checked'] + ['rheo:' + r for r in tc.DISSIPATIVE]


def in_domain(case):
    return case.get('kind') in ('single', 'dual') and tc.case_in_domain(case)


def _full(v, k):
    return np.asarray(v, dtype=float) * np.ones(k)


def _build(su, j=None, canonical=False):
    """(entry-point name, function, keyword arguments) for the case's route (or the canonical one)."""
    from TidalPy.toolbox import quick_tides as qt
    from_dict = su.entry == 'from_dict' and not canonical
    if su.dual:
        kw = tc.dual_kwargs(su, j, canonical=canonical)
        if from_dict:
            return 'dual_dissipation_from_dict_or_world_instance', qt.dual_dissipation_from_dict_or_world_instance, \
                tc.dual_from_dict_kwargs(kw)
        return 'quick_dual_body_tidal_dissipation', qt.quick_dual_body_tidal_dissipation, kw
    kw = tc.single_kwargs(su, su.bodies[0], j, derivatives=True, canonical=canonical)
    if from_dict:
        return 'single_dissipation_from_dict_or_world_instance', qt.single_dissipation_from_dict_or_world_instance, \
            tc.single_from_dict_kwargs(kw)
    return 'quick_tidal_dissipation', qt.quick_tidal_dissipation, kw


def _call(su, j=None, canonical=False):
    """-> dict(da, de, bodies=[dict(heating, dspin, dUdM, dUdw, dUdO)], fn, mutated) as arrays (j=None) or for element j.
    canonical=False: the case's input routes (frequency | period per quantity, None vs (None, None) tuples, quick_* or
    *_from_dict_or_world_instance entry point); canonical=True: quick_* with every quantity as a frequency."""
    k = su.k if j is None else 1
    name, fn, kw = _build(su, j, canonical)
    res = tc.call_repo(name, fn, **kw)
    per = [res['host'], res['secondary']] if su.dual else [res]
    out = {'da': _full(res['semi_major_axis_derivative'], k), 'de': _full(res['eccentricity_derivative'], k), 'bodies': [],
           'fn': name, 'mutated': list(tc.LAST_MUTATION), 'kw': kw}
    for r in per:
        out['bodies'].append({'heating': _full(r['tidal_heating'], k), 'dspin': _full(r['spin_rate_derivative'], k),
                              'dUdM': _full(r['dUdM'], k), 'dUdw': _full(r['dUdw'], k), 'dUdO': _full(r['dUdO'], k)})
    return out


def evaluate(case):
    return tc.second_opinion('c11_spin_orbit', _evaluate, case)


def _evaluate(case):
    dual = case['kind'] == 'dual'
    su = tc.Setup(case, dual=dual)
    k = su.k
    bodies = su.bodies
    lab = ['kind:' + case['kind'], 'l_max:%d' % su.l_max, 'trunc:%d' % su.trunc, 'array' if su.as_array else 'scalar']
    for b in bodies:
        lab.append('rheo:' + b.rheology)
        lab.append('spin:sync' if b.sync else 'spin:nonsync')
        if not b.sync and np.any(b.ratio < 0):
            lab.append('spin:retrograde')
    lab.append('e:zero' if np.any(su.e == 0.0) else 'e:pos')
    if np.any(su.e > 0.0):
        lab.append('e:pos')
    if su.e_none:
        lab.append('e:none')
    lab = list(dict.fromkeys(lab))
    sums = [tc.mode_sum(su, b) for b in bodies]
    if not all(ms.finite for ms in sums):
        return discard('nonfinite_compliance', lab)
    c = Collector(labels=lab)
    c.nontrivial = bool(any(not b.sync for b in bodies) and np.any(su.e > 0.0))
    retries0 = tc.TRANSIENT_RETRIES['count']
    try:
        out = _call(su)
    except RepoRaised as e:
        if any(tc.known_exception_class(b, ms, e.exc) for b, ms in zip(bodies, sums)):
            return discard('excluded_known_finding', lab)       # reported by C10
        raise
    if tc.TRANSIENT_RETRIES['count'] != retries0:
        c.label('numba_transient_retry')
    c.label('entry:' + su.entry, 'orbit:' + ('period' if su.P_orb is not None else 'frequency'))
    for b in bodies:
        if not b.sync:
            c.label('spinroute:' + ('period' if b.P_spin is not None else 'frequency'))
    if dual and sum(b.P_spin is not None for b in bodies) == 1 and sum(not b.sync for b in bodies) == 2:
        c.label('spinroute:mixed')
    c.check(not out['mutated'], {'clause': 'inputs_not_mutated', 'fn': out['fn']},
            '%s modified its arguments in place: %s' % (out['fn'], out['mutated'][:6]))
    ctx = '%s routes=%r l_max=%d trunc=%d rheologies=%r e=%r n=%r spins=%r obliquities=%r as_array=%r e_none=%r' % (
        case['kind'], su.routes, su.l_max, su.trunc, [b.rheology for b in bodies], su.e.tolist(), su.n.tolist(),
        ['None' if b.sync else b.spin.tolist() for b in bodies], [None if b.obl is None else b.obl.tolist() for b in bodies],
        su.as_array, su.e_none)
    da, de = out['da'], out['de']
    allfinite = bool(np.all(np.isfinite(da)) and np.all(np.isfinite(de)) and
                     all(np.all(np.isfinite(o['dspin'])) and np.all(np.isfinite(o['heating'])) for o in out['bodies']))
    c.check(allfinite, {'clause': 'e_zero' if np.any(su.e == 0.0) else 'finite', 'what': 'finite'},
            '%s: da/dt=%r de/dt=%r dspin/dt=%r' % (ctx, da, de, [o['dspin'] for o in out['bodies']]))
    zero = su.e == 0.0
    if np.any(zero):
        c.check(bool(np.all(de[zero] == 0.0)), {'clause': 'e_zero', 'what': 'de_dt_is_zero'},
                '%s: de/dt=%r where e == 0' % (ctx, de))
    if not allfinite:
        return c.result()

    a, n, e = su.a, su.n, su.e
    if dual:
        m1, m2 = bodies[0].mass, bodies[1].mass
    else:
        m1, m2 = bodies[0].mass, su.host_mass
    Mt = m1 + m2
    # ---- energy ----------------------------------------------------------------------------------
    t_orb = tc.G_SI * m1 * m2 / (2.0 * a * a) * da
    t_rot = [b.moi * b.spin * o['dspin'] for b, o in zip(bodies, out['bodies'])]
    t_heat = [o['heating'] for o in out['bodies']]
    resid = t_orb + sum(t_rot) + sum(t_heat)
    scale = np.abs(t_orb) + sum(np.abs(t) for t in t_rot) + sum(np.abs(t) for t in t_heat)
    # natural torque unit G M^2 R^5 / a^6 * max|Im k_l| of each body: the general inclination expressions evaluate some F^2_lmp(0) that
    # vanish analytically to ~1e-29 (l = 5), so "zero" rates are only zero to ~1e-29 of this unit
    unit = sum(ms.unit * ms.k_max for ms in sums)
    floor = sum(ms.s_identity for ms in sums)
    tol = TOL * scale + FLOOR * floor + UNIT_FLOOR * unit * np.abs(n)
    c.check(bool(np.all(np.abs(resid) <= tol)), {'clause': 'energy', 'kind': case['kind']},
            '%s: dE_orb/dt=%r  C Omega dOmega/dt=%r  heating=%r  residual=%r tol=%r' % (ctx, t_orb, t_rot, t_heat, resid, tol))
    # ---- angular momentum (zero obliquity) -------------------------------------------------------------
    if all(b.obl is None or bool(np.all(b.obl == 0.0)) for b in bodies):
        c.label('momentum:checked')
        mu_red = m1 * m2 / Mt
        root = math.sqrt(tc.G_SI * Mt)
        l_a = mu_red * root * 0.5 * np.sqrt((1.0 - e * e) / a) * da
        l_e = -mu_red * root * np.sqrt(a) * e / np.sqrt(1.0 - e * e) * de
        l_s = [b.moi * o['dspin'] for b, o in zip(bodies, out['bodies'])]
        resid = l_a + l_e + sum(l_s)
        scale = np.abs(l_a) + np.abs(l_e) + sum(np.abs(t) for t in l_s)
        floor = sum(b.host_mass * (ms.s_dUdM + ms.s_dUdw + ms.s_dUdO) for b, ms in zip(bodies, sums))
        tol = TOL * scale + FLOOR * floor + UNIT_FLOOR * unit
        c.check(bool(np.all(np.abs(resid) <= tol)), {'clause': 'momentum', 'kind': case['kind']},
                '%s: dL_orb/dt = %r (da) + %r (de)  C dOmega/dt=%r  residual=%r tol=%r' % (ctx, l_a, l_e, l_s, resid, tol))
    else:
        c.label('momentum:oblique')
    # ---- per-mode scales of the rates (rounding floor of the comparisons below) -------------------------------------
    beta_inv = Mt / (m1 * m2)
    s_dM = beta_inv * sum(b.host_mass * ms.s_dUdM for b, ms in zip(bodies, sums))
    s_dw = beta_inv * sum(b.host_mass * ms.s_dUdw for b, ms in zip(bodies, sums))
    with np.errstate(all='ignore'):
        sc_da = 2.0 / (n * a) * s_dM
        sc_de = np.where(e > 0, np.sqrt(1 - e * e) / (n * a * a * np.where(e > 0, e, 1.0)) * (s_dM + s_dw), 0.0)

    def compare(clause, other, j_main, j_other, what):
        pairs = [('da_dt', da[j_main], other['da'][j_other], sc_da[j_main]), ('de_dt', de[j_main], other['de'][j_other], sc_de[j_main])]
        for i, (b, ms) in enumerate(zip(bodies, sums)):
            pairs.append(('dspin_dt[%d]' % i, out['bodies'][i]['dspin'][j_main], other['bodies'][i]['dspin'][j_other],
                          b.host_mass / b.moi * ms.s_dUdO[j_main]))
            pairs.append(('heating[%d]' % i, out['bodies'][i]['heating'][j_main], other['bodies'][i]['heating'][j_other],
                          ms.s_heating[j_main]))
        for name, va, vs, sc in pairs:
            ok = (va == vs) or abs(va - vs) <= ARRAY_TOL * (max(abs(va), abs(vs)) + sc)
            c.check(bool(ok), {'clause': clause, 'what': name.split('[')[0]},
                    '%s: element %d %s: %s: %r vs %r (per-mode scale %r)' % (ctx, j_main, name, what, va, vs, sc))

    # ---- input routes: the same state through every route gives the canonical (all-frequency, quick_*) rates ----------
    if tc.has_routes(su):
        c.label('route:noncanonical')
        try:
            canon = _call(su, canonical=True)
        except RepoRaised as ex:
            if any(tc.known_exception_class(b, ms, ex.exc) for b, ms in zip(bodies, sums)):
                return discard('excluded_known_finding', lab)
            raise
        c.check(not canon['mutated'], {'clause': 'inputs_not_mutated', 'fn': canon['fn']},
                '%s: %s modified its arguments in place: %s' % (ctx, canon['fn'], canon['mutated'][:6]))
        for j in range(k):
            compare('route', canon, j, j, 'routes %r via %s vs canonical frequency route' % (su.routes, out['fn']))
    else:
        c.label('route:canonical')
    # ---- array call vs scalar calls -------------------------------------------------------------------------
    if su.as_array:
        for j in range(k):
            try:
                one = _call(su, j)
            except RepoRaised as ex:
                if any(tc.known_exception_class(b, ms, ex.exc) for b, ms in zip(bodies, sums)):
                    return discard('excluded_known_finding', lab)
                raise
            compare('array', one, j, 0, 'array call vs scalar call')
    # ---- call history: the same ndarray objects re-used after being overwritten in place (tides_common.history_check) --------
    if su.as_array:
        def make_call(su_s, kw, build_only=False):
            name, fn, kw2 = _build(su_s)
            if kw is None:
                if build_only:
                    return kw2
                return kw2, tc.call_repo(name, fn, **kw2)
            return tc.call_repo(name, fn, **kw)

        def known(ex):
            return isinstance(ex.exc, ZeroDivisionError) and 'complex division' in str(ex.exc) \
                and any(b.rheology == 'newton' for b in bodies)

        def extra(su_s, res, step):
            de_s = _full(res['eccentricity_derivative'], su_s.k)
            zero_e = su_s.e == 0.0
            if np.any(zero_e):
                c.check(bool(np.all(np.isfinite(de_s)) and np.all(de_s[zero_e] == 0.0)), {'clause': 'e_zero', 'route': 'history'},
                        'history call %d with e=%r: de/dt=%r' % (step + 2, su_s.e.tolist(), de_s))
        # the array-vs-scalar / canonical comparison calls above evaluated other inputs; repeat the routed array call once so that
        # the history sequence starts from a call with exactly these array objects
        try:
            first = _call(su)
        except RepoRaised:
            first = None
        if first is not None:
            tc.history_check(c, case, dual, first['kw'], make_call, out['fn'], is_known=known, extra=extra)
    return c.result()


def warm():
    """Single-process cache warm-up (setup.sh): the mode-machinery signatures are warmed by C10; here the single/dual
    dynamics functions with scalar and array arguments."""
    from props.c10_mode_sum import _base_case
    for case in fixed_cases('quick'):
        evaluate(case)
    for kind in ('single', 'dual'):
        for as_array in (False, 'all'):
            for rheo in ('maxwell', 'cpl', 'ctl'):
                evaluate(_base_case(kind=kind, as_array=as_array, trunc=6, l_max=3,
                                    body={'rheology': rheo, 'use_obl': True, 'sync': False}, pt={'e': 0.1, 'obl': [0.3, 0.2]}))
