"""C12 - homogeneous-body Love number: closed form, l = 2 helpers, mode machinery, layered solver.

Generated
  formula  l in 2..7; g in 10^[-2,2.5], R in 10^[4,8], rho in 10^[2,4.5] log-uniform; the effective rigidity
           m_l in 10^[-3,4] is drawn and the shear modulus computed from it (stiff, intermediate and soft bodies
           equally likely, nothing rejected); the complex compliance J is the repository's rheology function
           (maxwell, newton, voigt, burgers, andrade, sundberg, andrade_freq, sundberg_freq, elastic, off,
           fixed_q; `.py_func`, J is only an input here) at w*tau in 10^[-4,6], w in 10^[-8,-2], or a raw
           |J| mu in 10^[-3,6], arg J in [-pi/2,0]; scalar call or arrays of 2..6 elements.
  quick    `quick_tidal_dissipation` states (shared generator of C10: l_max 2..3 (thorough ..7), truncation
           levels, spin states, obliquity, every rheology incl. CPL/CTL, scalar/array).
  solver   a BATCH of 2..4 (degree, m_l, w tau, w) members on one planet and rheology, each the same uniform body as `formula`,
           solved by `TidalPy.RadialSolver.radial_solver`; all solution objects and the Love-number arrays read from them
           stay alive until the whole batch is solved and are only then read back and judged.  In 3 of 4 solver cases the
           uniform body is handed over as a stack of 1..3 solid layers of IDENTICAL material at generated interface radii
           (0.35..0.9 R, both sides of every interface sampled: r_i and r_i (1 + 1e-13)) with generated (static,
           incompressible) flags per layer (innermost: static/compressible, dynamic/compressible, dynamic/incompressible -
           the combinations with starting conditions); layers flagged incompressible carry a finite bulk modulus 1e9..1e12 Pa
           (documented as ignored), the others the compressible-limit value; with a dynamic layer the solver's forcing
           frequency is the quasi-static w^2 R/g = 1e-7
           (one solid static layer, Kamata starting conditions, DOP853, bulk modulus 10^[5,7] x max(|mu~|,
           rho g R) i.e. effectively incompressible - the static/incompressible combination itself raises
           NotImplementedError -, r0/R in [0.05,0.3], 20..80 slices, complex shear mu~ = 1/J).

Oracles
  rigidity   effective_rigidity_general == (2l^2+4l+3)/l * mu/(rho g R)   exact rational reference (Fraction on the
             doubles), REL_TOL = 1e-14 (>= 20x the 4 roundings of the expression; measured worst 2.2e-16).
  love       complex_love_general(J, mu, m_l, l) == 3/(2(l-1))/(1 + m_l/(J mu)), 40-digit mpmath reference on the same
             doubles, both with the repository's own m_l as input and end-to-end from (mu, g, R, rho, J);
             tolerance REL_TOL * (1 + |z|/|1+z|), z = m_l/(J mu) (the analytic condition number of 1/(1+z);
             it is <= 1 for every passive compliance, only the fixed_q model with Re J < 0 can be ill conditioned).
             static_love_general(m_l, l) == 3/(2(l-1))/(1+m_l) likewise.
  l2         effective_rigidity == effective_rigidity_general(l=2); complex_love == complex_love_general(l=2);
             static_love == static_love_general(l=2): REL_TOL.
             Keyword / positional / default-degree calls of the same helper agree to 1e-15 relative.
  alias      the public names TidalPy.tides.calc_* return the same values as the love1d helpers (1e-15 x condition number;
             values are compared, not object identity).
  array      array call == element-wise scalar calls to 4 ulp.
  quick      quick_tidal_dissipation(...)['love_number_by_orderl'][l] is ONE value per degree although the modes of a degree
             have different frequencies; how the repository groups and averages them is not part of the property, so the
             oracle is grouping-agnostic (tides_common.love_hull_check): the harness evaluates the closed form at every
             (l,m,p,q) mode frequency; if they all coincide (single frequency, CPL, elastic) the reported value must EQUAL
             it (as k, Re k + i ts Im k or ts k for tidal_scale ts), otherwise its real and imaginary parts must lie
             within the [min, max] of those values over the modes; slack 1e-11 |k| (jitted vs .py_func rheology: <= 1e-15).
             A wrong Love number (wrong degree, wrong rigidity, a cached value of another degree) leaves the hull
             unless the degree's own frequency dependence is as large as the error; a different but correct grouping
             (e.g. `n_sig = n_coeff`) does not fire.
             The quick_tidal_dissipation call must not modify its keyword arguments (inputs_not_mutated); for array cases two
             more calls re-using the same ndarray objects overwritten in place must equal calls with fresh arrays (history).
  solver     (every stored solution of the batch, read back after the whole batch) (k, h, l) re-read from the stored solution
             object, and the array views taken right after its own call, are bit-identical to the values read right after that
             call (`stored_solution_changed`); and, with K the compressible-limit bulk modulus of the layers NOT flagged
             incompressible (term dropped when every layer is flagged incompressible) and + 30 * 1e-7 when a layer is dynamic,
             |k_RS - k_closed| <= 1e-6 + 50 delta + 3 (|mu~| + rho g R)/K,  delta = |k(rtol=1e-7) - k(rtol=1e-9)|
             (atol = 1e-4 rtol); discarded (counted) if a solve reports success=False or delta > 1e-4.
             Calibration (105 generated one-layer cases): delta <= 5e-9, error <= 1.6e-7 and <= 0.015 (|mu~|+rho g R)/K, i.e.
             <= 0.5 % of the tolerance; layered / dynamic configurations (390 solves): error <= 8.4 % of the tolerance (worst:
             one dynamic incompressible layer, where only 1e-6 + 50 delta + 3e-6 is allowed); the precedence defect a47eb3a moves k by 1e-3 (stiff) .. 0.3 (intermediate).
  Calibration of the closed-form clauses (3000 generated cases): rigidity 3.6e-16, love 3.0e-16 x condition number,
  l2 helpers bit-identical, quick (single-frequency equality) 5.8e-16.

Non-trivial: 0.01 < |m_l/(J mu)| < 100 (k neither saturated at 3/(2(l-1)) nor lost in rounding).

Sensitivity (tools/mut.py, quick tier, all CAUGHT):
  fixes/revert-a47eb3a.diff (2l^2 + 4l + 3/l precedence)          -> rigidity, l2, quick, solver
  love1d.py  '3. / (2. * (order_l - 1))' -> '3. / (2. * order_l)' (first = complex_love_general) -> love, l2, quick, solver
  love1d.py  '(19. / 2.)' -> '(19. / 3.)' in effective_rigidity    -> l2
  love1d.py  '(1. + eff_rigidity_general)' -> '(1. - eff_rigidity_general)' in static_love_general -> love(static), l2
  mode_manipulation.py 'order_l=tidal_order_l\n                )\n\n        # Pull' i.e. collapse_modes passing order_l=2
             for every degree                                       -> quick (l = 3)
  seeded/C12-1 (tabulated (2l^2+4l+3)/l with a typo)              -> rigidity, love
  seeded/C12-4 (static+incompressible solid layers integrated with the compressible equations, i.e. with the caller's finite K)
                                                                                        -> solver (k_l, layered stacks)
  seeded/C12-3 (all RadialSolverSolution objects share one static Love-number buffer)   -> solver (stored_solution_changed, k_l)
  seeded/C12-2 (Love number memoised per frequency signature without the degree) -> quick (l>2, hull)
  Equivalent mutant, must be MISSED (and is): mode_manipulation.py 'n_sig = abs(n_coeff)' -> 'n_sig = n_coeff' (more
  frequency signatures per frequency; only the repository's per-degree average changes).
"""
import math
from fractions import Fraction

import numpy as np
from hypothesis import strategies as st

from vlib.result import Collector, RepoRaised, discard, repo_call
from props import tides_common as tc

ID = 'C12'
TECHNIQUE = ('property-based testing (Hypothesis): exact-rational / 40-digit reference model for the closed form, '
             'differential l=2 vs general helpers, differential against the mode machinery and the layered radial solver')
LEVEL = 'exploration'
LEVEL_TEXT = ('Generated-input exploration: thousands of (l, mu, g, R, rho, J) tuples from every rheology compared with an '
              'exact reference of the closed form, the l=2 helpers, the Love numbers reported by quick_tidal_dissipation and a '
              'sample solved by the layered radial solver; says the property held on everything generated, not for all inputs.')
LEVEL_NOTE = ('Trusts mpmath/Fraction arithmetic and the harness mode enumeration (self-tested on the classical 21/2 '
              'heating rate); the radial-solver binary is the one present in /repo (cannot be regenerated from .pyx); '
              'solver cases use a finite bulk modulus >= 1e6 x max(|mu|, rho g R) as "incompressible", with the measured '
              'compressibility correction in the tolerance.')
CASES = {'quick': 6400, 'thorough': 200000}
SHARDS = {'quick': 8, 'thorough': 16}
REL_TOL = 1.0e-14
DEFAULT_TOL = 1.0e-15      # keyword/positional/default-degree/public-alias calls of the same helper
QUICK_TOL = 1.0e-11
EPS = 2.0 ** -52
RULE = ('Hypothesis draws kind (formula | quick | solver), degree l in 2..7, g, R, rho log-uniform, effective rigidity m_l '
        'log-uniform in 1e-3..1e4 (mu computed), a rheology with its parameters and w*tau in 1e-4..1e6 (or a raw complex '
        'compliance), scalar or array. Non-trivial: 0.01 < |m_l/(J mu)| < 100 (for quick cases: at the orbital frequency, degree '
        'l_max); distinct = distinct argument hash.')
ASSUMPTIONS = ['reference: k_l = 3/(2(l-1))/(1+m_l/(J mu)), m_l = (2l^2+4l+3) mu/(l rho g R), evaluated with Fraction / mpmath (40 digits)',
               'REL_TOL=1e-14 relative (x analytic condition number 1+|z|/|1+z|)',
               'quick clause: reported per-degree k equals the closed form when all mode frequencies coincide, else lies in the min/max hull of the per-mode closed-form values (1e-11 |k| slack); grouping-agnostic',
               'solver clause: 1e-6 + 50*delta + 3(|mu|+rho g R)/K, delta from rtol 1e-7 vs 1e-9 solves; unconverged solves discarded']

FORMULA_RHEOS = ['maxwell', 'newton', 'voigt', 'burgers', 'andrade', 'sundberg', 'andrade_freq', 'sundberg_freq',
                 'elastic', 'off', 'fixed_q', 'raw']
SOLVER_RHEOS = ['maxwell', 'voigt', 'burgers', 'andrade', 'sundberg', 'elastic', 'raw']


def _love_mod():
    from TidalPy.tides import love1d
    return love1d


def selftest():
    tc.selftest_common()
    import mpmath
    mpmath.mp.dps = 40
    # closed form at l = 2, m = 9.5 mu/(rho g R): Kelvin's 3/2/(1 + 19 mu/(2 rho g R))
    assert _ref_rigidity(2, 1.0, 1.0, 1.0, 1.0) == 9.5
    assert _ref_rigidity(3, 2.0, 1.0, 1.0, 1.0) == 22.0
    k = _ref_love(2, 1.0 + 0j, 1.0, 9.5)
    assert abs(k - 1.5 / 10.5) < 1e-16


def _ref_rigidity(l, mu, g, R, rho):
    v = Fraction(2 * l * l + 4 * l + 3, l) * Fraction(mu) / (Fraction(g) * Fraction(R) * Fraction(rho))
    return float(v)


def _ref_love(l, J, mu, m_l):
    import mpmath
    mpmath.mp.dps = 40
    z = mpmath.mpf(m_l) / (mpmath.mpc(J.real, J.imag) * mpmath.mpf(mu))
    k = mpmath.mpf(3) / (2 * (l - 1)) / (1 + z)
    return complex(k)


def _cond(J, mu, m_l):
    z = m_l / (J * mu)
    return 1.0 + abs(z) / max(abs(1.0 + z), 1e-300)


def _rel(a, b):
    a = complex(a)
    b = complex(b)
    if a == b:
        return 0.0
    if not (math.isfinite(a.real) and math.isfinite(a.imag)):
        return float('inf')
    return abs(a - b) / max(abs(a), abs(b))


# ---------------------------------------------------------------------------------------------------


def _formula_rheos(tier):
    si = tc.shard_info()
    if si is None or tier == 'thorough':
        return FORMULA_RHEOS
    i = si[0]
    heavy = ['burgers', 'sundberg', 'sundberg_freq', 'andrade', 'andrade_freq']  # .py_func still jit-compiles callees
    return ['maxwell', 'newton', 'voigt', 'elastic', 'off', 'fixed_q', 'raw', heavy[i % 5], heavy[(i + 2) % 5]]


def _material_strategy(rheos):
    def with_inputs(d):
        if d['rheology'] in ('raw',):
            return st.fixed_dictionaries({'log_absJmu': st.floats(-3.0, 6.0), 'argJ': st.floats(-math.pi / 2, 0.0)}) \
                .map(lambda x: dict(d, rheo_inputs=[x['log_absJmu'], x['argJ']]))
        if d['rheology'] == 'fixed_q':
            return st.floats(0.0, 4.0).map(lambda q: dict(d, rheo_inputs=[10.0 ** q]))
        return tc.rheo_inputs_strategy(d['rheology']).map(lambda inp: dict(d, rheo_inputs=inp))
    return st.fixed_dictionaries({'rheology': st.sampled_from(rheos)}).flatmap(with_inputs)


def strategy(tier):
    rheos = _formula_rheos(tier)
    point = st.fixed_dictionaries({'log_ml': st.floats(-3.0, 4.0), 'log_wtau': st.floats(-4.0, 6.0),
                                   'log_freq': st.floats(-8.0, -2.0)})
    planet = {'l': st.integers(2, 7), 'log_g': st.floats(-2.0, 2.5), 'log_R': st.floats(4.0, 8.0),
              'log_rho': st.floats(2.0, 4.5)}
    formula = st.fixed_dictionaries(dict(planet, kind=st.just('formula'), material=_material_strategy(rheos),
                                         pts=st.one_of(st.lists(point, min_size=1, max_size=1),
                                                       st.lists(point, min_size=1, max_size=1),
                                                       st.lists(point, min_size=2, max_size=6))))
    solver = st.fixed_dictionaries({
        'kind': st.just('solver'), 'l': st.integers(2, 7 if tier == 'thorough' else 6),
        'log_R': st.floats(5.0, 7.8), 'log_rho': st.floats(2.7, 4.3),
        'material': _material_strategy([r for r in SOLVER_RHEOS if r in rheos or r == 'raw']),
        'pts': st.lists(st.fixed_dictionaries({'log_ml': st.floats(-2.0, 3.0), 'log_wtau': st.floats(-3.0, 4.0),
                                               'log_freq': st.floats(-7.0, -3.0)}), min_size=1, max_size=1),
        'batch': st.lists(st.fixed_dictionaries({'l': st.integers(2, 7 if tier == 'thorough' else 6),
                                                 'log_ml': st.floats(-2.0, 3.0), 'log_wtau': st.floats(-3.0, 4.0),
                                                 'log_freq': st.floats(-7.0, -3.0)}), min_size=1, max_size=3),
        'stack': tc.weighted([st.none(), st.fixed_dictionaries({
            'bottom': st.sampled_from(BOTTOM_FLAGS),
            'upper': st.lists(st.tuples(st.floats(0.35, 0.9), st.booleans(), st.booleans()).map(list), min_size=0, max_size=2),
            'log_K_incomp': st.floats(9.0, 12.0)})], [1, 3]),
        'r0_frac': st.floats(0.05, 0.3), 'slices': st.integers(20, 80), 'log_K_factor': st.floats(5.0, 7.0)})
    quick = tc.tide_case_strategy(tier, kinds=('single',), finding_weight=0.25).map(lambda c: dict(c, kind='quick'))
    kinds = [formula, quick, solver]
    weights = [40, 8, 2] if tier == 'quick' else [40, 6, 3]
    return tc.weighted(kinds, weights)


def fixed_cases(tier):
    out = []
    # one witness per degree at an Io-like body (the a47eb3a precedence defect gave 17.5 instead of 9.5 at l = 2)
    for l in range(2, 8):
        out.append({'kind': 'formula', 'l': l, 'log_g': math.log10(1.8), 'log_R': math.log10(1.82e6),
                    'log_rho': math.log10(3530.0), 'material': {'rheology': 'maxwell', 'rheo_inputs': []},
                    'pts': [{'log_ml': 1.0, 'log_wtau': 0.0, 'log_freq': -4.4}]})
    for l, rh in ((2, 'maxwell'), (3, 'andrade'), (4, 'elastic'), (5, 'burgers'), (2, 'raw'), (6, 'maxwell')):
        inputs = {'andrade': [0.3, 1.0], 'burgers': [0.2, 0.02], 'raw': [0.5, -0.8]}.get(rh, [])
        out.append({'kind': 'solver', 'l': l, 'log_R': 6.26, 'log_rho': 3.55,
                    'material': {'rheology': rh, 'rheo_inputs': inputs},
                    'pts': [{'log_ml': 0.5, 'log_wtau': 0.3, 'log_freq': -4.4}],
                    'r0_frac': 0.1, 'slices': 40, 'log_K_factor': 6.5})
    return out


def required_labels(tier):
    return ['kind:formula', 'kind:quick', 'kind:solver', 'solver:converged', 'solver:batch2', 'solver:batch3', 'solver:batch4', 'solver:layers1', 'solver:layers2',
            'solver:layers3', 'upper:static_incomp', 'upper:dynamic_incomp', 'upper:static_comp', 'upper:dynamic_comp',
            'bottom:static_comp', 'bottom:dynamic_comp', 'bottom:dynamic_incomp', 'array', 'scalar', 'quick:single_freq',
            'quick:multi_freq'] + ['l:%d' % l for l in range(2, 8)] + ['regime:stiff', 'regime:mid', 'regime:soft']


def in_domain(case):
    try:
        if case['kind'] == 'quick':
            return tc.case_in_domain(case)
        mat = case['material']
        if case['kind'] == 'formula':
            ok = 2 <= case['l'] <= 7 and -2.0 <= case['log_g'] <= 2.5 and 4.0 <= case['log_R'] <= 8.0 \
                and 2.0 <= case['log_rho'] <= 4.5 and mat['rheology'] in FORMULA_RHEOS and 1 <= len(case['pts']) <= 6
            rng = ((-3.0, 4.0), (-4.0, 6.0), (-8.0, -2.0))
        else:
            ok = 2 <= case['l'] <= 7 and 5.0 <= case['log_R'] <= 7.8 and 2.7 <= case['log_rho'] <= 4.3 \
                and mat['rheology'] in SOLVER_RHEOS and len(case['pts']) == 1 and 0.05 <= case['r0_frac'] <= 0.3 \
                and 20 <= case['slices'] <= 80 and 5.0 <= case['log_K_factor'] <= 7.0
            rng = ((-2.0, 3.0), (-3.0, 4.0), (-7.0, -3.0))
        if case['kind'] == 'solver' and case.get('stack'):
            sk = case['stack']
            ok = ok and list(sk['bottom']) in BOTTOM_FLAGS and 0 <= len(sk['upper']) <= 2 and 9.0 <= sk['log_K_incomp'] <= 12.0
            for u in sk['upper']:
                ok = ok and 0.35 <= u[0] <= 0.9 and isinstance(u[1], bool) and isinstance(u[2], bool)
        if case['kind'] == 'solver' and 'batch' in case:
            ok = ok and 1 <= len(case['batch']) <= 3
            for p in case['batch']:
                ok = ok and 2 <= p['l'] <= 7 and rng[0][0] <= p['log_ml'] <= rng[0][1] and rng[1][0] <= p['log_wtau'] <= rng[1][1] \
                    and rng[2][0] <= p['log_freq'] <= rng[2][1]
        for p in case['pts']:
            ok = ok and rng[0][0] <= p['log_ml'] <= rng[0][1] and rng[1][0] <= p['log_wtau'] <= rng[1][1] \
                and rng[2][0] <= p['log_freq'] <= rng[2][1]
        rh = mat['rheology']
        if rh == 'raw':
            ok = ok and len(mat['rheo_inputs']) == 2 and -3.0 <= mat['rheo_inputs'][0] <= 6.0 \
                and -math.pi / 2 <= mat['rheo_inputs'][1] <= 0.0
        elif rh == 'fixed_q':
            ok = ok and len(mat['rheo_inputs']) == 1 and 1.0 <= mat['rheo_inputs'][0] <= 1e4
        else:
            ok = ok and len(mat['rheo_inputs']) == len(tc.RHEO_INPUTS[rh])
            for k, v in zip(tc.RHEO_INPUTS[rh], mat['rheo_inputs']):
                ok = ok and tc._INPUT_RANGES[k][0] <= v <= tc._INPUT_RANGES[k][1]
        return bool(ok)
    except Exception:
        return False


def _material(case, g, R, rho):
    """-> arrays mu, J (complex), and the rheology name."""
    l = case['l']
    mat = case['material']
    rh = mat['rheology']
    coef = (2.0 * l * l + 4.0 * l + 3.0) / l
    mu = np.array([10.0 ** p['log_ml'] * rho * g * R / coef for p in case['pts']])
    w = np.array([10.0 ** p['log_freq'] for p in case['pts']])
    eta = np.array([10.0 ** p['log_wtau'] for p in case['pts']]) * mu / w
    if rh == 'raw':
        absJmu, arg = 10.0 ** mat['rheo_inputs'][0], mat['rheo_inputs'][1]
        J = absJmu / mu * complex(math.cos(arg), math.sin(arg))
    else:
        inputs = tuple(mat['rheo_inputs'])
        if rh == 'fixed_q':
            inputs = (R * rho * g, inputs[0])
        J = np.asarray(tc.compliance_pyfunc(rh)(w, 1.0 / mu, eta, *inputs), dtype=complex) + 0.0 * w
    return mu, J, rh


def evaluate(case):
    return tc.second_opinion('c12_love1d', _evaluate, case)


def _evaluate(case):
    if case['kind'] == 'quick':
        return _evaluate_quick(case)
    if case['kind'] == 'solver':
        return _evaluate_solver(case)
    love1d = _love_mod()
    l = int(case['l'])
    g, R, rho = 10.0 ** case['log_g'], 10.0 ** case['log_R'], 10.0 ** case['log_rho']
    mu, J, rh = _material(case, g, R, rho)
    if not (np.all(np.isfinite(J.real)) and np.all(np.isfinite(J.imag)) and np.all(np.abs(J) > 0) and
            np.all(np.abs(J) < 1e90)):
        return discard('nonfinite_compliance', ['kind:formula'])
    k_pts = len(mu)
    c = Collector(labels=['kind:formula', 'l:%d' % l, 'rheo:' + rh, 'array' if k_pts > 1 else 'scalar'])
    nontrivial = False
    scalar_out = []
    for j in range(k_pts):
        mj, Jj = float(mu[j]), complex(J[j])
        with repo_call('effective_rigidity_general'):
            eff = float(love1d.effective_rigidity_general(mj, g, R, rho, order_l=l))
            eff_pos = float(love1d.effective_rigidity_general(mj, g, R, rho, l))
        ref = _ref_rigidity(l, mj, g, R, rho)
        r = _rel(eff, ref)
        c.check(r <= REL_TOL and _rel(eff, eff_pos) <= DEFAULT_TOL, {'clause': 'rigidity', 'fn': 'effective_rigidity_general'},
                'l=%d mu=%r g=%r R=%r rho=%r: got %r, (2l^2+4l+3)/l*mu/(rho g R) = %r (rel %.2e)' % (l, mj, g, R, rho, eff, ref, r))
        zabs = abs(ref / (Jj * mj))
        c.label('regime:stiff' if zabs > 10 else ('regime:soft' if zabs < 0.1 else 'regime:mid'))
        nontrivial = nontrivial or (0.01 < zabs < 100.0)
        with repo_call('complex_love_general'):
            k_own = complex(love1d.complex_love_general(Jj, mj, eff, order_l=l))
            k_static = float(love1d.static_love_general(eff, order_l=l))
        for name, got, m_in in (('own_rigidity', k_own, eff),):
            kref = _ref_love(l, Jj, mj, m_in)
            tol = REL_TOL * _cond(Jj, mj, m_in)
            r = _rel(got, kref)
            c.check(r <= tol, {'clause': 'love', 'fn': 'complex_love_general', 'input': name},
                    'l=%d J=%r mu=%r m_l=%r: got %r, 3/(2(l-1))/(1+m_l/(J mu)) = %r (rel %.2e tol %.2e)'
                    % (l, Jj, mj, m_in, got, kref, r, tol))
        kref = _ref_love(l, Jj, mj, ref)
        tol = 2.0 * REL_TOL * _cond(Jj, mj, ref)
        r = _rel(k_own, kref)
        c.check(r <= tol, {'clause': 'love', 'fn': 'complex_love_general', 'input': 'end_to_end'},
                'l=%d J=%r mu=%r g=%r R=%r rho=%r: got %r, closed form %r (rel %.2e tol %.2e)'
                % (l, Jj, mj, g, R, rho, k_own, kref, r, tol))
        sref = float(Fraction(3, 2 * (l - 1)) / (1 + Fraction(eff)))
        r = _rel(k_static, sref)
        c.check(r <= REL_TOL, {'clause': 'love', 'fn': 'static_love_general'},
                'l=%d m_l=%r: got %r, 3/(2(l-1))/(1+m_l) = %r (rel %.2e)' % (l, eff, k_static, sref, r))
        # degree-2 helpers against the general helpers at l = 2
        with repo_call('l2 helpers'):
            e2 = float(love1d.effective_rigidity(mj, g, R, rho))
            e2g = float(love1d.effective_rigidity_general(mj, g, R, rho, order_l=2))
            k2 = complex(love1d.complex_love(Jj, mj, e2))
            k2g = complex(love1d.complex_love_general(Jj, mj, e2, order_l=2))
            s2 = float(love1d.static_love(e2))
            s2g = float(love1d.static_love_general(e2, order_l=2))
            k2d = complex(love1d.complex_love_general(Jj, mj, e2))       # default degree is 2
            e2d = float(love1d.effective_rigidity_general(mj, g, R, rho))
        c.check(_rel(e2, e2g) <= REL_TOL and _rel(e2d, e2g) <= DEFAULT_TOL, {'clause': 'l2', 'fn': 'effective_rigidity'},
                'mu=%r g=%r R=%r rho=%r: effective_rigidity=%r, general(l=2)=%r, general(default)=%r' % (mj, g, R, rho, e2, e2g, e2d))
        tol = REL_TOL * _cond(Jj, mj, e2)
        c.check(_rel(k2, k2g) <= tol and _rel(k2d, k2g) <= DEFAULT_TOL * _cond(Jj, mj, e2), {'clause': 'l2', 'fn': 'complex_love'},
                'J=%r mu=%r m=%r: complex_love=%r, general(l=2)=%r, general(default)=%r' % (Jj, mj, e2, k2, k2g, k2d))
        c.check(_rel(s2, s2g) <= REL_TOL, {'clause': 'l2', 'fn': 'static_love'},
                'm=%r: static_love=%r, general(l=2)=%r' % (e2, s2, s2g))
        scalar_out.append((eff, k_own, k_static, e2, k2, s2))
    if k_pts > 1:
        Jv = np.asarray(J, dtype=complex)
        with repo_call('array calls'):
            effv = np.asarray(love1d.effective_rigidity_general(mu, g, R, rho, order_l=l))
            kv = np.asarray(love1d.complex_love_general(Jv, mu, effv, order_l=l))
            sv = np.asarray(love1d.static_love_general(effv, order_l=l))
            e2v = np.asarray(love1d.effective_rigidity(mu, g, R, rho))
            k2v = np.asarray(love1d.complex_love(Jv, mu, e2v))
            s2v = np.asarray(love1d.static_love(e2v))
        for name, vec, idx in (('effective_rigidity_general', effv, 0), ('complex_love_general', kv, 1),
                               ('static_love_general', sv, 2), ('effective_rigidity', e2v, 3),
                               ('complex_love', k2v, 4), ('static_love', s2v, 5)):
            ok = vec.shape == (k_pts,)
            worst = 0.0
            if ok:
                for j in range(k_pts):
                    tol = 4.0 * EPS * (_cond(complex(J[j]), float(mu[j]), scalar_out[j][0 if idx < 3 else 3]) if idx in (1, 4) else 1.0)
                    rr = _rel(vec[j], scalar_out[j][idx])
                    worst = max(worst, rr / tol)
            c.check(ok and worst <= 1.0, {'clause': 'array', 'fn': name},
                    'array call vs scalar calls: shape %r, worst deviation %.2f x tolerance' % (vec.shape, worst))
    # the public names TidalPy.tides.calc_* (observe_at of the property) must give the same values
    from TidalPy import tides
    mj, Jj = float(mu[0]), complex(J[0])
    e0, k0, s0, e20, k20, s20 = scalar_out[0]
    with repo_call('TidalPy.tides.calc_*'):
        pub = [(float(tides.calc_effective_rigidity_general(mj, g, R, rho, order_l=l)), e0, 1.0),
               (complex(tides.calc_complex_love_general(Jj, mj, e0, order_l=l)), k0, _cond(Jj, mj, e0)),
               (float(tides.calc_static_love_general(e0, order_l=l)), s0, 1.0),
               (float(tides.calc_effective_rigidity(mj, g, R, rho)), e20, 1.0),
               (complex(tides.calc_complex_love(Jj, mj, e20)), k20, _cond(Jj, mj, e20)),
               (float(tides.calc_static_love(e20)), s20, 1.0)]
    worst = max(_rel(a, b_) / cnd for a, b_, cnd in pub)
    c.check(worst <= DEFAULT_TOL, {'clause': 'alias'},
            'TidalPy.tides.calc_* differ from the love1d helpers by %.2e (x condition number)' % worst)
    c.nontrivial = nontrivial
    return c.result()


# ---- Love numbers reported by the mode machinery ------------------------------------------------------


def _evaluate_quick(case):
    from TidalPy.toolbox.quick_tides import quick_tidal_dissipation
    su = tc.Setup(case, dual=False)
    b = su.bodies[0]
    c = Collector(labels=['kind:quick', 'l:%d' % su.l_max, 'rheo:' + b.rheology,
                          'array' if su.as_array else 'scalar'])
    ms = tc.mode_sum(su, b)
    if not ms.finite:
        return discard('nonfinite_compliance', ['kind:quick'])
    kw = tc.single_kwargs(su, b, derivatives=False)
    retries0 = tc.TRANSIENT_RETRIES['count']
    try:
        res = tc.call_repo('quick_tidal_dissipation', quick_tidal_dissipation, **kw)
    except RepoRaised as e:
        # KF-C10-newton-zero-frequency: collapse_modes raises 'complex division by zero' when the Newton compliance is 0
        # at a zero-frequency mode.  That is C10's known finding (no Love number is returned); here it only removes the
        # case.  Everything else is re-raised as a failure.
        if tc.known_exception_class(b, ms, e.exc) is None:
            raise
        return discard('excluded_known_finding', ['kind:quick'])
    if tc.TRANSIENT_RETRIES['count'] != retries0:
        c.label('numba_transient_retry')
    tc.check_not_mutated(c, 'quick_tidal_dissipation')
    loves = res['love_number_by_orderl']
    nontrivial = False
    for l in range(2, su.l_max + 1):
        if l not in loves:
            c.fail({'clause': 'quick', 'kind': 'missing_degree', 'l': l}, 'love_number_by_orderl has no entry for l=%d' % l)
            continue
        got = np.asarray(loves[l], dtype=complex) * np.ones(su.k)
        if b.rheology not in ('cpl', 'ctl'):
            kn, _, _ = tc.body_love(b, l, su.n)
            z = np.abs(1.5 / (l - 1.0) / kn - 1.0)              # = |m_l/(J mu)| at the orbital frequency
            if l == su.l_max:
                nontrivial = bool(np.any((z > 0.01) & (z < 100.0)))
        ok, single, det = tc.love_hull_check(ms, l, got, b.tidal_scale, QUICK_TOL)
        c.label('quick:single_freq' if single else 'quick:multi_freq')
        c.check(ok, {'clause': 'quick', 'what': 'love_number_by_orderl', 'l': 'l2' if l == 2 else 'l>2',
                     'mode': 'equal' if single else 'hull'},
                'l=%d rheology=%s tidal_scale=%r: %s' % (l, b.rheology, b.tidal_scale, det))
    c.nontrivial = nontrivial or b.rheology in ('cpl', 'ctl')
    # call history: the same ndarray objects re-used after being overwritten in place must give what fresh arrays give
    if su.as_array:
        def make_call(su_s, kw_, build_only=False):
            if kw_ is None:
                kw2 = tc.single_kwargs(su_s, su_s.bodies[0], derivatives=False)
                if build_only:
                    return kw2
                return kw2, tc.call_repo('quick_tidal_dissipation', quick_tidal_dissipation, **kw2)
            return tc.call_repo('quick_tidal_dissipation', quick_tidal_dissipation, **kw_)
        tc.history_check(c, case, False, kw, make_call, 'quick_tidal_dissipation',
                         is_known=lambda ex: isinstance(ex.exc, ZeroDivisionError) and 'complex division' in str(ex.exc)
                         and b.rheology == 'newton')
    return c.result()


# ---- layered radial solver ---------------------------------------------------------------------------


BOTTOM_FLAGS = [[True, False], [False, False], [False, True]]    # (static, incompressible) combinations with Kamata starting conditions
IFACE_EPS = 1.0e-13
W2_DYNAMIC = 1.0e-7        # w^2 R / g used for the solver's forcing frequency when a layer is dynamic (quasi-static)
W2_DYNAMIC_INCOMP = 3.0e-6


def _stack_layers(case):
    """[(top fraction of R, static, incompressible)] bottom to top; one static compressible layer when the case has no stack."""
    st_ = case.get('stack')
    if not st_:
        return [(1.0, True, False)]
    upper = sorted(([min(0.9, max(0.35, float(u[0]))), bool(u[1]), bool(u[2])] for u in st_.get('upper', [])), key=lambda u: u[0])
    if len(upper) == 2 and upper[1][0] - upper[0][0] < 0.05:
        upper[1][0] = upper[0][0] + 0.05
    flags = [(bool(st_['bottom'][0]), bool(st_['bottom'][1]))] + [(u[1], u[2]) for u in upper]
    tops = [u[0] for u in upper] + [1.0]
    return [(tops[i], flags[i][0], flags[i][1]) for i in range(len(flags))]


def _rs_solve(l, R, rho, mu_c, K, freq, r0_frac, slices, rtol, layers=((1.0, True, False),), K_incomp=None):
    """One radial_solver call on the uniform body, given as a stack of `layers` of IDENTICAL material (top fraction, static,
    incompressible); every interface is sampled on both sides (last slice of the lower layer at r_i, first slice of the upper
    layer at r_i (1 + 1e-13)) because the solver starts an upper layer at that layer's first slice.  Layers flagged
    incompressible get the finite bulk modulus `K_incomp` (documented as ignored), the others the compressible-limit `K`.
    Returns the solution OBJECT (kept alive by the caller), the Love-number arrays read from
    it right now (views into the solution, also kept) and python-complex copies of k, h, l taken right now."""
    from TidalPy.RadialSolver import radial_solver
    n_each = max(8, int(slices) // len(layers))
    parts, bulk_parts, prev = [], [], r0_frac * R
    for i, (top, static, incomp) in enumerate(layers):
        lo = prev if i == 0 else prev * (1.0 + IFACE_EPS)
        parts.append(np.linspace(lo, top * R, n_each))
        bulk_parts.append(np.full(n_each, float(K_incomp if (incomp and K_incomp is not None) else K)))
        prev = top * R
    r = np.ascontiguousarray(np.concatenate(parts))
    r[-1] = R
    n_tot = r.size
    dens = rho * np.ones(n_tot)
    grav = 4.0 * math.pi * tc.G_SI * rho * r / 3.0
    bulk = np.ascontiguousarray(np.concatenate(bulk_parts))
    shear = mu_c * np.ones(n_tot, dtype=np.complex128)
    tops = tuple(float(top * R) for top, _, _ in layers[:-1]) + (float(R),)
    out = radial_solver(r, dens, grav, bulk, shear, freq, rho, tuple('solid' for _ in layers),
                        tuple(bool(x[1]) for x in layers), tuple(bool(x[2]) for x in layers), tops,
                        degree_l=l, solve_for=('tidal',), use_kamata=True, integration_method='dop853',
                        integration_rtol=rtol, integration_atol=rtol * 1e-4, scale_rtols_by_layer_type=False,
                        max_num_steps=300_000, expected_size=250, max_step=0, limit_solution_to_radius=True,
                        verbose=False, nondimensionalize=True)
    rec = {'sol': out, 'success': bool(out.success), 'message': str(out.message), 'views': None, 'now': None}
    if rec['success']:
        views = (out.k, out.h, out.l)
        rec['views'] = views
        rec['now'] = tuple(complex(np.asarray(v).ravel()[0]) for v in views)
    return rec


def _same(a, b):
    return a == b or (a != a and b != b)


def _solver_members(case):
    """The batch of (l, point) solved for one case: the case's own degree/material point plus 1..3 generated others on the
    same planet and rheology (older replay files without a batch get one deterministic companion)."""
    members = [(int(case['l']), case['pts'][0])]
    if 'batch' in case:
        members += [(int(m['l']), m) for m in case['batch']]
    else:
        p = case['pts'][0]
        members.append((2 + (int(case['l']) - 1) % 5, dict(p, log_ml=min(3.0, p['log_ml'] + 0.5))))
    return members


def _evaluate_solver(case):
    """Layered-solver clause on a small BATCH: every member is solved (twice: rtol 1e-7 and 1e-9), all solution objects and
    the arrays read from them stay alive, and only after the whole batch is every stored solution compared with its own
    closed form - the way a user who solves one body per degree / frequency and post-processes afterwards reads them.
    The Love numbers re-read from a stored solution (and the array views taken earlier) must still be what they were
    right after that solution's own call."""
    love1d = _love_mod()
    R, rho = 10.0 ** case['log_R'], 10.0 ** case['log_rho']
    g = 4.0 * math.pi * tc.G_SI * rho * R / 3.0
    rh = case['material']['rheology']
    members = _solver_members(case)
    layers = _stack_layers(case)
    K_incomp = 10.0 ** float((case.get('stack') or {}).get('log_K_incomp', 11.0))
    any_dynamic = any(not x[1] for x in layers)
    # the dynamic INCOMPRESSIBLE equations are ill-conditioned deep in the quasi-static limit (C01's known finding
    # KF-C01-dynamic-incomp-quasi-static: w^2R/g < 1e-6; thorough tier here: 1.7e-5 off with DOP853 at 1e-7, stable under the
    # 100x tighter tolerance): stacks with such a layer are driven at w^2R/g = 3e-6, just outside that regime
    w2_dyn = W2_DYNAMIC_INCOMP if any((not x[1]) and x[2] for x in layers) else W2_DYNAMIC
    labels = ['kind:solver', 'rheo:' + rh, 'scalar', 'solver:batch%d' % len(members), 'solver:layers%d' % len(layers),
              'bottom:%s_%s' % ('static' if layers[0][1] else 'dynamic', 'incomp' if layers[0][2] else 'comp')]
    for x in layers[1:]:
        labels.append('upper:%s_%s' % ('static' if x[1] else 'dynamic', 'incomp' if x[2] else 'comp'))
    prepared = []
    for l, pt in members:
        sub = dict(case, l=l, pts=[pt])
        mu, J, _ = _material(sub, g, R, rho)
        mj, Jj = float(mu[0]), complex(J[0])
        if not (math.isfinite(Jj.real) and math.isfinite(Jj.imag) and 0 < abs(Jj) < 1e90):
            continue
        mu_c = 1.0 / Jj
        K = 10.0 ** case['log_K_factor'] * max(abs(mu_c), rho * g * R)
        # the solver's forcing frequency only enters the inertia terms of dynamic layers (mu~ is passed directly): with a
        # dynamic layer it is set to the quasi-static w^2 R/g = 1e-7, else the member's own frequency is passed (unused)
        freq = math.sqrt(w2_dyn * g / R) if any_dynamic else 10.0 ** pt['log_freq']
        prepared.append({'l': l, 'mu': mj, 'J': Jj, 'mu_c': mu_c, 'K': K, 'freq': freq})
        labels.append('l:%d' % l)
    labels = list(dict.fromkeys(labels))
    if not prepared:
        return discard('nonfinite_compliance', labels)
    # ---- solve the whole batch first, keep everything alive -------------------------------------------------------------
    with repo_call('radial_solver'):
        for m in prepared:
            m['coarse'] = _rs_solve(m['l'], R, rho, m['mu_c'], m['K'], m['freq'], case['r0_frac'], int(case['slices']), 1e-7,
                                    layers, K_incomp)
            m['fine'] = _rs_solve(m['l'], R, rho, m['mu_c'], m['K'], m['freq'], case['r0_frac'], int(case['slices']), 1e-9,
                                  layers, K_incomp)
    # ---- only now read them back and judge ----------------------------------------------------------------------------------
    c = Collector(labels=labels)
    nontrivial = False
    judged = 0
    for i, m in enumerate(prepared):
        l = m['l']
        if not (m['coarse']['success'] and m['fine']['success']):
            c.label('solver:member_failed')
            continue
        stable = True
        for which in ('coarse', 'fine'):
            rec = m[which]
            with repo_call('RadialSolverSolution.k/.h/.l'):
                again = tuple(complex(np.asarray(x).ravel()[0]) for x in (rec['sol'].k, rec['sol'].h, rec['sol'].l))
            held = tuple(complex(np.asarray(v).ravel()[0]) for v in rec['views'])
            ok = all(_same(a, b) for a, b in zip(again, rec['now'])) and all(_same(a, b) for a, b in zip(held, rec['now']))
            stable = stable and ok
            c.check(ok, {'clause': 'solver', 'what': 'stored_solution_changed'},
                    'batch member %d of %d (l=%d, %s solve): (k, h, l) read right after its own radial_solver call %r; re-read from the '
                    'stored solution after the rest of the batch %r; array views taken at the time now hold %r'
                    % (i + 1, len(prepared), l, which, rec['now'], again, held))
        with repo_call('RadialSolverSolution.k'):
            k1 = complex(np.asarray(m['coarse']['sol'].k).ravel()[0])
            k2 = complex(np.asarray(m['fine']['sol'].k).ravel()[0])
        # the closed form is judged on what the stored solution reports NOW (k2): that is what a post-processing user gets
        delta = abs(m['coarse']['now'][0] - m['fine']['now'][0])
        if not (delta <= 1e-4):
            c.label('solver:member_unconverged')
            continue
        with repo_call('love1d helpers'):
            eff = float(love1d.effective_rigidity_general(m['mu'], g, R, rho, order_l=l))
            k_closed = complex(love1d.complex_love_general(m['J'], m['mu'], eff, order_l=l))
        judged += 1
        zabs = abs(eff / (m['J'] * m['mu']))
        c.label('regime:stiff' if zabs > 10 else ('regime:soft' if zabs < 0.1 else 'regime:mid'))
        nontrivial = nontrivial or (0.01 < zabs < 100.0)
        # compressibility correction only from layers NOT flagged incompressible (they carry the compressible-limit K); the
        # finite K of layers flagged incompressible is documented as ignored and gets no allowance
        comp_term = 3.0 * (abs(m['mu_c']) + rho * g * R) / m['K'] if any(not x[2] for x in layers) else 0.0
        tol = 1e-6 + 50.0 * delta + comp_term + (30.0 * w2_dyn if any_dynamic else 0.0)
        err = abs(k2 - k_closed)
        c.check(err <= tol, {'clause': 'solver', 'what': 'k_l'},
                'layers (top/R, static, incompressible)=%r K_incomp=%.3g: ' % (layers, K_incomp) +
                'batch member %d of %d: l=%d R=%r rho=%r mu~=%r K=%r: stored radial_solver solution reports k=%r (coarse solve %r), '
                'closed-form helper k=%r, |diff|=%.3e tol=%.3e (delta=%.1e)'
                % (i + 1, len(prepared), l, R, rho, m['mu_c'], m['K'], k2, k1, k_closed, err, tol, delta))
    if judged == 0:
        return discard('solver_failed' if any(not (m['coarse']['success'] and m['fine']['success']) for m in prepared)
                       else 'unconverged', labels)
    c.label('solver:converged')
    c.nontrivial = nontrivial
    return c.result()


def warm():
    """Single-process cache warm-up (setup.sh): love1d helpers for scalar and array arguments (the mode machinery is
    warmed by C10)."""
    fc = fixed_cases('quick')
    for case in fc[:2] + fc[6:8]:
        evaluate(case)
    arr = dict(fc[0], pts=[{'log_ml': 1.0, 'log_wtau': 0.0, 'log_freq': -4.4}, {'log_ml': 0.0, 'log_wtau': 1.0, 'log_freq': -5.0}])
    evaluate(arr)
