"""C13 - object-oriented world/orbit state is history-independent.

Technique: model-based stateful testing.  A *case* is one configuration plus one history
`{'config': {...}, 'ops': [[op_name, kwargs, deferred], ...], 'check': [bool per step]}` drawn by a Hypothesis
strategy from the rule set below (the JSON equivalent of a RuleBasedStateMachine run: replayable, shrinkable by
deleting steps).  The MODEL is a plain dict with the last value written per field; an orbital-size write (period |
frequency | semi-major axis) replaces the previous one whatever its unit, and for a `force_spin_sync` world it also
replaces the spin by "locked to n" (what every orbit-level setter documents).

Configuration axes (drawn per case)
  model     cpl | ctl (ctl_calc_method linear_simple) | ctl_q (linear_simple_with_q: depends on fixed_dt AND
            fixed_q) | layered (LayeredTides; Maxwell or Andrade in the tidal layers)
  base      earth | io: global-approx worlds are `simple_tidal` worlds with the radius of the WorldPack config and an
            explicit mass (as Tests/Test_Old/Test_SetW_OOP_OrbitTides/test_a does); layered worlds are built with
            build_from_world from 'earth_simple' (TWO tidally active layers, see BASES) / 'io_simple' (one).  Host
            and star is a private build_world('55cnc') (tides off => single-body orbital derivatives).
  cooling   layered only: off | convection | conduction for the tidal layers, 1:2:2 (the thermal feedback of the
            latter two used to run into KF-C13-complex-surface-temperature, repaired in /repo by de31ebe)
  host_tides  global-approx models, 1 in 3: star + a SEPARATE dissipating host (Jupiter-like CPL world with a fixed
            0.41 d rotation, as Test_SetW_OOP_OrbitTides/test_c; a star that is its own tidal host cannot have tides
            on) => dual-body orbital derivatives; the host's heating and dUdM/dUdw/dUdO are observed too.  Only the
            world and its orbit have a history.  The single-body functional API is then not asked for de/dt, da/dt, dn/dt.
  second    1 history in 4: a SECOND tidal world shares the orbit - the other base (other mass/radius) with its own
            independently drawn model / rheology / cooling / blank / sync / obl / trunc / lmax and its own model state.
            Every per-world operation below addresses either world (4th element of the op); 2 in 5 operations of such a
            history are `orbit.set_states` (below); the model / fresh / functional / exception oracles are evaluated for
            BOTH worlds after every step (the fresh reference is one fresh orbit holding both fresh worlds).  About
            2x the cost per step, hence the fraction.
  blank     False: the world starts in the orbit its config ships with (P/a, e); True: those keys are stripped, the
            world starts with no orbit at all and quantities appear as state arrives.
  sync, obl (obliquity_tides_on), trunc in {2,6}, lmax 2 (3 for layered worlds in the thorough tier),
  array     every written value is a float, or every one is a shape-(3,) array (fixed shape).

Operations (values log-uniform / uniform, see `_value` and `DOMAIN`); 3 of 4 histories are primed with one complete
world.set_state and layered ones with a temperature for every tidal layer, so that the tides are live early
  orbit.set_state(world, <non-empty subset of {one of P|n|a, e}>)    [deferred variant: call_orbit_change=False, then
                                                                     the documented orbit.orbit_changed(world, flags)]
  orbit.set_states([worlds...], eccentricities=[...], orbital_periods|orbital_frequencies|semi_major_axes=[...])  the orbit's
                                                                     BATCHED setter (two-world histories): per world and
                                                                     per field independently a value or None, either list
                                                                     order or a single world, worlds may use different
                                                                     units [deferred: call_orbit_change=False, then
                                                                     orbit.orbit_changed(world, <its own flags>) per world]
  orbit.set_<field>(world, v), world.<field> = v (property setters) for P, n, a, e
  world.set_state(<non-empty subset of {one of P|n|a, e, spin_period|spin_frequency, obliquity}>)
  world.set_spin_period / set_spin_frequency / set_obliquity (v)     [deferred: call_updates=False, then
                                                                     world.orbit_spin_changed(<that flag>=True)]
  world.<spin_period|spin_frequency|obliquity> = v
  world.set_fixed_q / set_fixed_dt (v), world.fixed_q|fixed_dt = v, world.tides.set_state(fixed_q=, fixed_dt=)
                                                                     [deferred: run_updates=False, then tides.fixed_q_dt_changed()]
  orbit.time = t   (world.set_state(time=) raises the documented ImproperPropertyHandling once an orbit is attached)
  layer.set_temperature(T) / layer.temperature = T / layer.set_state(temperature=T)   (layered; each tidal layer,
                                                                     rarely a non-tidal one)
A deferred call is always followed at once by the explicit update its docstring names, with exactly the flags of what
was changed - an API that is told not to update is not "stale by defect".

Oracles, evaluated after EVERY step (so the first stale quantity is attributed to the field just written)
  model     what the getters report for the primary state equals the model, everything to KEPLER_RTOL = 1e-13 relative
            and nothing bit-exact (an implementation may store a canonical unit and convert back; read-back noise is
            not history dependence): e, obliquity, time, spin (== n when locked), fixed_q/dt, layer temperature, the
            orbital value in the unit written, world.X vs the orbit getter, and (a, n, P) against an independent
            Kepler computation (C17's clause: 8 ulp + the (1/3) literal).
  fresh     every listed derived quantity of the history world equals that of a FRESHLY BUILT world + orbit + star put
            into the model state directly: fixed_q/dt through the build config, layer temperatures before the orbit is
            attached, then ONE orbit.set_state and ONE world.set_state, each given the primary values the history
            wrote last in the unit it wrote them (no conversion noise).  Quantities: unique tidal frequencies (keys and
            values), global_love_by_orderl, global_negative_imk_by_orderl, per-layer tidal_heating,
            tidal_heating_global, dUdM, dUdw, dUdO, orbit.get_{eccentricity,semi_major_axis,orbital_motion}_time_
            derivative(world), world.calc_spin_derivative() (the spin derivative is only exposed through that call).
            None must match None, shapes must match; else element-wise |x-y| <= RTOL*max(|x|,|y|), RTOL = 1e-12,
            NaN == NaN.  Calibration: over > 12 000 histories on the unchanged tree the two worlds were BIT-IDENTICAL
            in every quantity (worst deviation 0.0); a stale term changes the result by >= 1e-4 relative.  Only the
            most upstream differing quantity of the first failing step is reported, signature {clause, quantity,
            model, field_changed}; the history stops there.
  functional  global-approx models: the history world equals TidalPy.toolbox.quick_tides.quick_tidal_dissipation at the
            state read back from the objects (n, spin, e, obliquity, fixed_q/dt, k2, R, M, g, rho, MOI).  Established
            first on fresh worlds (2^5 configurations x 6 random states): CPL and CTL (linear_simple) agree
            BIT-FOR-BIT in heating, dUdM/dUdw/dUdO, k2, -Im k2, de/dt, da/dt, a, and to 2.3e-16 in the spin derivative
            (operation order): the two APIs are the same calculation, so (b) is asserted for cpl and ctl; ctl_q is
            compared through fixed_dt := fixed_dt/fixed_q (same law, product regrouped).  The functional API accepts
            n or P only, so after a semi-major-axis write its a differs from the orbit's by a Kepler round trip
            (<= 8 ulp): measured OOP-vs-functional deviation <= 1.6e-14 in every quantity (F_RTOL = 1e-12).  The
            potential derivatives are alternating sums over modes (dUdO of a spin-locked CTL world cancels to 1e-10
            of its terms) and de/dt is a difference of nearly equal numbers for small e; last-bit noise in such a sum
            is judged against the size of the cancelling terms, S_X = |susceptibility|/M_host * sum_modes |term_X| *
            |Im k_mode| taken from the world's own mode table (`_cancel_scales`), i.e. |x-y| <= 1e-12*max(|x|,|y|,S).
            `_cancel_scales` reads non-public tables; if their layout changes (any exception) the scale comes from public
            attributes only, S = 10*tidal_heating_global/(min non-zero tidal frequency*M_host) >= sum |terms| (`_public_scales`),
            with F_RTOL_FALLBACK = 1e-9 (label cancel-scale:public-fallback) - never the bare relative test.
            Without it one ctl_q history in ~1 000 failed at 2e-6 of a 1e-37 value.  Not asserted for layered worlds
            (the functional API is documented for homogeneous one-layer bodies).
  exceptions  a setter of the history that raises although a fresh world put into the same state does not (or the
            reverse) is a failure {clause: exception, quantity: <type>, where: <call site>}; if both raise the same
            type the history ends without verdict: label both-raise, counted in the evidence
            (coverage.ended_without_verdict_*), and a shard in which more than 20 % of the histories end that way is a
            HARNESS ERROR (vacuity guard in shard_teardown), not a pass.  The two pure oracle calls are retried once
            (label `retried:*`): a numba on-disk-cache race between cold shards does not repeat, a real failure does.
Not asserted, only counted (label `unlisted-differs:*`): surface_temperature / insolation_heating of layered worlds -
they are not among the quantities the property lists and ARE path dependent (one-pass surface temperature <-> cooling
feedback; insolation is not recomputed when the orbit changes), also after de31ebe.

Defects
  repaired in /repo, each re-found on the reverted tree (fixes/revert-2854a61.diff: e-only / obliquity-only update left
  the tidal terms stale; fixes/revert-7baff3f.diff: fixed_q / fixed_dt update left the CPL/CTL Love dictionary stale);
  KF-C13-complex-surface-temperature (found by this check, repaired in /repo by de31ebe = out/proposed-fix-C13-1.diff;
  status fixed in known_findings.json; replays/C13-complex-surface-temperature.json and a fixed case are its witnesses and
  fixes/revert-de31ebe.diff must be CAUGHT): with a convection/conduction cooling model the one-pass surface-
  temperature <-> cooling feedback leaves (insolation + internal heating) negative, calc_equilibrium_temperature
  returns a complex number and the next setter raises numba TypingError - in the history but not in a fresh world.

Sensitivity (tools/mut.py C13 ..., quick tier, final module; all CAUGHT unless stated)
  --patch fixes/revert-2854a61.diff                                   -> fresh/{unique_tidal_frequencies,tidal_heating_global}, field e
  --patch fixes/revert-7baff3f.diff                                   -> fresh/global_love_by_orderl, field fixed_q / fixed_dt
  global_approx.py collapse_modes: drop world.dissipation_changed()   -> fresh/{da/dt,de/dt} stale after fixed_q / fixed_dt
  layered.py collapse_modes: drop world.dissipation_changed()         -> fresh/{da/dt,de/dt} stale after a temperature update
  base.py: keep tidal_susceptibility across an orbital_freq change    -> fresh/tidal_heating_global (+ per layer)
  basic.py set_obliquity: obliquity_changed=True -> False              -> fresh/tidal_heating_global, field obliquity
  orbit/base.py set_semi_major_axis: no spin update for locked worlds -> model/spin_locked
  basic.py set_state: no spin update for locked worlds                -> model/spin_locked + fresh
  rheology.py strength_changed: drop complex_compliances_changed()    -> fresh (temperature update, layered)
  global_approx.py: keep the CPL/CTL Love dict across new frequencies -> fresh/global_love_by_orderl
  rheology.py tidal_frequencies_changed: keep old complex compliances -> exception/collapse_modes + fresh/global_love_by_orderl
  orbit/physics.py orbit_changed: drop self.dissipation_changed(w)    -> MISSED, equivalent mutant: collapse_modes already
                                                                         reaches orbit.dissipation_changed through world.dissipation_changed
  --patch fixes/revert-de31ebe.diff                                   -> exception/TypingError, where cooling_models(njit typing)
  seeded/C13-5 (set_states notifies every world with the LAST world's flags) -> fresh/{unique_tidal_frequencies,
                                                                         tidal_heating_global,...}, worlds 2, via orbit.set_states
  seeded/C13-1, seeded/C13-2 (tools/seed_catch.sh)                    -> fresh/global_love_by_orderl (fixed_q, ctl_q); fresh/de/dt,da/dt
  orbit/base.py set_state: drop the host update of the set_by_world / deferred branch -> fresh/host_* (host_tides family)
"""
import copy
import math

import numpy as np
from hypothesis import strategies as st

from vlib.result import Collector, RepoRaised, repo_call

ID = 'C13'
TECHNIQUE = ('model-based stateful property testing (Hypothesis-generated operation histories against a last-write model; '
             'differential oracle: freshly built objects and the functional API) + coverage-guided fuzzing shards (atheris/libFuzzer driving the same strategy)')
LEVEL = 'exploration'
LEVEL_TEXT = ('Generated-input exploration of setter/set_state histories (<= 12 steps quick, <= 40 thorough) over CPL/CTL/layered '
              'configurations; after every step every listed derived quantity is compared with a freshly built world placed '
              'in the model state and with quick_tidal_dissipation. Says history independence held on every generated history, '
              'not for all histories.')
LEVEL_NOTE = ('The fresh world is built by the same code (so a defect that does not depend on history is invisible here; C09-C12 cover '
              'the values themselves); the functional API was shown to be the same calculation bit-for-bit on fresh CPL/CTL worlds. '
              'Deferred-update flags are only used together with the explicit update their docstring names. At most two tidal worlds per orbit; '
              'the host is the star (tides off) or a separate CPL host with a fixed state.')
CASES = {'quick': 1600, 'thorough': 24000}
SHARDS = {'quick': 16, 'thorough': 16}
TIMEOUT = {'quick': 1500, 'thorough': 4 * 3600}
SHRINK_BUDGET = (200, 90.0)
# coverage-guided shards (vlib/fuzz_shard.py): libFuzzer drives the same history strategy, guided by branch coverage of the
# pure-Python object layer (plain functions/methods only: numba dispatchers in these modules are left alone)
FUZZ = {'instrument': ['TidalPy.structures.world_types.basic', 'TidalPy.structures.world_types.tidal',
                       'TidalPy.structures.world_types.layered', 'TidalPy.structures.world_types.stellar',
                       'TidalPy.structures.layers.basic', 'TidalPy.structures.layers.physics',
                       'TidalPy.structures.orbit.base', 'TidalPy.structures.orbit.physics',
                       'TidalPy.tides.methods.base', 'TidalPy.tides.methods.layered', 'TidalPy.tides.methods.global_approx',
                       'TidalPy.utilities.classes.model.model', 'TidalPy.utilities.classes.config.config'],
        'shards': {'quick': 2, 'thorough': 4}, 'cases': {'quick': 120, 'thorough': 4000}, 'max_len': 8192}
MAX_STEPS = {'quick': 12, 'thorough': 40}
NARR = 3
HOST_SPIN_PERIOD = 0.41   # days; the host's own state is fixed, only the world and its orbit have a history
RTOL = 1e-12
F_RTOL = {'cpl': 1e-12, 'ctl': 1e-12, 'ctl_q': 1e-12}
F_RTOL_FALLBACK = 1e-9   # functional clause when the cancelling-term scale has to come from public attributes only
KEPLER_RTOL = 1e-13

RULE = ('Hypothesis draws a configuration (model cpl|ctl|ctl_q|layered x base earth|io x rheology maxwell|andrade x cooling off|convection|conduction x blank-start x '
        'force_spin_sync x obliquity tides x truncation 2|6 x scalar|array(3) x host tides; 1 history in 4 has a SECOND tidal world with its own '
        'independently drawn axes and model state in the same orbit, ops then address either world, 2 in 5 of them are the batched '
        'orbit.set_states with per-world independent value-or-None entries, and both worlds are checked after every step) and a history of 1..12 (thorough 40) operations from '
        'the rule set (orbit.set_state subsets, individual orbit setters, world property setters, world.set_state subsets, spin/'
        'obliquity setters, fixed_q/fixed_dt setters, tides.set_state, orbit.time, layer temperature; deferred variants followed by the '
        'documented explicit update; 3 of 4 histories primed with a full world.set_state, layered ones with layer temperatures). '
        'The invariant is evaluated after every step. P in 1..200 d (n, a equivalent), e in [0,0.6], spin period 0.3..200 d, obliquity [0,1.5], '
        'Q in 3..1e4, dt in 1..1e4 s, T in 600..2100 K, t in 0..4600 Myr. Non-trivial: the history contains an update that changes '
        'ONLY e, ONLY obliquity, ONLY fixed_q, ONLY fixed_dt or ONLY a layer temperature after an orbital/spin frequency update and '
        'while the tides are live (tidal_heating_global is not None before the update) - the stale-prone orders; distinct = distinct '
        'case hash.')
ASSUMPTIONS = ['fresh world: build config carries fixed_q/fixed_dt, layer temperature set before the orbit is attached, then one '
               'orbit.set_state + one world.set_state with the last-written primary values',
               'RTOL=1e-12 relative element-wise (measured deviation on the unchanged tree: 0.0), NaN==NaN, None==None',
               'functional oracle asserted for cpl/ctl/ctl_q only (bit-identical to the OOP path on fresh worlds; 2.3e-16 in dspin/dt); '
               'F_RTOL=1e-12 relative to max(|x|,|y|,S) with S the size of the cancelling mode terms (measured deviation <= 1.6e-14)',
               'a setter that raises in the history but not for a fresh world in the same state (or the reverse) is a failure; both raising '
               'the same exception type ends the history without verdict',
               'Kepler: a^3 n^2 = G(M+m), P = 2 pi/n/86400 to 1e-13 (G from TidalPy.constants)',
               'two-world histories (1 in 4): one fresh orbit holding both fresh worlds is the reference; orbit.time is one value per orbit',
               'only the most upstream differing quantity of the first failing step is reported per history']

MODELS = ['cpl', 'ctl', 'ctl_q', 'layered']
ORB_KEYS = ['orbital_period', 'orbital_frequency', 'semi_major_axis']
SPIN_KEYS = ['spin_period', 'spin_frequency']
BASES = {
    # NB the layer switch is the config key `is_tidally_active` (default True for rock, False for iron); the `is_tidal` key
    # of the WorldPack files is not read by LayerBase, so 'earth_simple' has TWO tidally active layers.  Set explicitly here.
    'earth': {'pack': 'earth_simple', 'mass': 5.972e24, 'tidal_layers': ['Upper_Mantle', 'Lower_Mantle'], 'other_layer': 'Outer_Core'},
    'io': {'pack': 'io_simple', 'mass': 8.93e22, 'tidal_layers': ['Mantle'], 'other_layer': 'Core'},
}
# generator domain of the positive quantities (in_domain keeps the shrinker inside it)
DOMAIN = {'orbital_period': (1.0, 200.0), 'orbital_frequency': (3.6e-7, 7.3e-5), 'semi_major_axis': (3.1e9, 1.0e11),
          'spin_period': (0.31, 200.0), 'spin_frequency': (3.6e-7, 2.4e-4)}
STALE_KINDS = ['e', 'obliquity', 'fixed_q', 'fixed_dt', 'temperature']
# upstream -> downstream
HOST_QUANTITIES = ['host_tidal_heating_global', 'host_dUdM', 'host_dUdw', 'host_dUdO', 'dual_body']
QUANTITY_ORDER = ['unique_tidal_frequencies', 'global_love_by_orderl', 'global_negative_imk_by_orderl',
                  'tidal_heating_by_layer', 'tidal_heating_global', 'dUdM', 'dUdw', 'dUdO'] + HOST_QUANTITIES + [
                  'eccentricity_time_derivative', 'semi_major_axis_time_derivative',
                  'orbital_motion_time_derivative', 'spin_time_derivative']
# with a dissipating host the orbit derivatives are dual-body: the single-body functional API does not predict them
SINGLE_BODY_ONLY = ['eccentricity_time_derivative', 'semi_major_axis_time_derivative', 'orbital_motion_time_derivative']

_S = {}
_COUNT = {'n': 0, 'both': 0}
VACUITY_MAX = 0.20
_WORST = {}   # calibration aid: worst accepted deviation per (clause|model, quantity)


# ---------------------------------------------------------------------------------------------------
# set-up


def shard_setup(tier=None):
    if _S:
        return
    import warnings
    warnings.simplefilter('ignore')
    import logging
    from vlib import env
    env.quiet_tidalpy()
    logging.getLogger('TidalPy').setLevel(logging.CRITICAL)
    logging.disable(logging.WARNING)
    from TidalPy.structures import build_world
    from TidalPy.structures.world_builder.config_handler import clean_world_config
    for bname, b in BASES.items():
        base = build_world(b['pack'])
        cfg = clean_world_config(base.config, make_copy=True)
        for k in ('orbital_period', 'orbital_freq', 'orbital_frequency', 'orbital_motion', 'orbital_mean_motion',
                  'semi_major_axis', 'semi_major_axis_in_au', 'eccentricity', 'spin_period'):
            cfg.pop(k, None)
        cfg['name'] = base.config['name'] + '_blank'
        blank = build_world(cfg['name'], cfg)
        _S[bname] = {False: base, True: blank}
    _S['ready'] = True


def warm():
    shard_setup('quick')
    for case in fixed_cases('quick'):
        evaluate(case)


def selftest():
    # Kepler model self-test: Earth around the Sun
    n = _kepler_n_from_a(1.495978707e11, 1.98847e30, 5.972e24)
    assert abs(2.0 * math.pi / n / 86400.0 / 365.256 - 1.0) < 2e-4
    assert abs(_kepler_a_from_n(n, 1.98847e30, 5.972e24) / 1.495978707e11 - 1.0) < 1e-14
    assert _reldiff(np.array([1.0, 2.0]), np.array([1.0, 2.0 * (1 + 1e-9)])) > 9e-10
    assert _reldiff(float('nan'), float('nan')) == 0.0
    assert _reldiff(0.0, 0.0) == 0.0


# ---------------------------------------------------------------------------------------------------
# strategy


def _value(field, array):
    if field == 'orbital_period':
        s = st.floats(0.0, 2.3).map(lambda x: 10.0 ** x)
    elif field == 'orbital_frequency':
        s = st.floats(0.0, 2.3).map(lambda x: 2.0 * math.pi / (86400.0 * 10.0 ** x))
    elif field == 'semi_major_axis':
        s = st.floats(9.5, 11.0).map(lambda x: 10.0 ** x)
    elif field == 'eccentricity':
        s = st.one_of(st.floats(0.0, 0.6), st.floats(0.0, 0.6), st.floats(0.0, 0.6), st.just(0.0))
    elif field == 'spin_period':
        s = st.floats(-0.5, 2.3).map(lambda x: 10.0 ** x)
    elif field == 'spin_frequency':
        s = st.floats(-0.5, 2.3).map(lambda x: 2.0 * math.pi / (86400.0 * 10.0 ** x))
    elif field == 'obliquity':
        s = st.one_of(st.floats(0.0, 1.5), st.floats(0.0, 1.5), st.floats(0.0, 1.5), st.just(0.0))
    elif field == 'time':
        s = st.floats(0.0, 4600.0)
    elif field == 'fixed_q':
        return st.floats(0.5, 4.0).map(lambda x: 10.0 ** x)
    elif field == 'fixed_dt':
        return st.floats(0.0, 4.0).map(lambda x: 10.0 ** x)
    elif field == 'temperature':
        s = st.floats(600.0, 2100.0)
    else:
        raise KeyError(field)
    if array:
        return st.lists(s, min_size=NARR, max_size=NARR)
    return s


@st.composite
def _subset_kwargs(draw, array, groups, min_size=1):
    """groups: list of lists of alternative field names; pick a non-empty subset of groups, one alternative each."""
    picks = draw(st.lists(st.sampled_from(range(len(groups))), min_size=min_size, max_size=len(groups), unique=True))
    kw = {}
    for g in sorted(picks):
        f = draw(st.sampled_from(groups[g]))
        kw[f] = draw(_value(f, array))
    return kw


@st.composite
def _op(draw, cfg):
    array = cfg['array']
    model = cfg['model']
    ga = model != 'layered'
    kinds = ['orbit.set_state'] * 4 + ['orbit.set'] * 3 + ['world.prop'] * 3 + ['world.set_state'] * 4 + ['world.set'] * 4 + ['orbit.time']
    if ga:
        kinds += ['fixed.set'] * 3 + ['fixed.prop', 'tides.set_state']
    else:
        kinds += ['layer.temperature'] * 5
    kind = draw(st.sampled_from(kinds))
    defer = False
    if kind == 'orbit.set_state':
        kw = draw(_subset_kwargs(array, [ORB_KEYS, ['eccentricity']]))
        defer = draw(st.booleans()) and draw(st.booleans())
    elif kind == 'orbit.set':
        f = draw(st.sampled_from(ORB_KEYS + ['eccentricity', 'eccentricity', 'eccentricity']))
        kw = {f: draw(_value(f, array))}
    elif kind == 'world.prop':
        fields = ORB_KEYS + ['eccentricity', 'eccentricity', 'obliquity', 'obliquity'] + ([] if cfg['sync'] else SPIN_KEYS)
        f = draw(st.sampled_from(fields))
        kw = {f: draw(_value(f, array))}
    elif kind == 'world.set_state':
        groups = [ORB_KEYS, ['eccentricity'], ['obliquity']]
        if not cfg['sync']:
            groups.append(SPIN_KEYS)
        kw = draw(_subset_kwargs(array, groups))
    elif kind == 'world.set':
        fields = ['obliquity', 'obliquity'] + (SPIN_KEYS if not cfg['sync'] else ['spin_period'])
        f = draw(st.sampled_from(fields))
        kw = {f: draw(_value(f, array))}
        defer = draw(st.booleans()) and draw(st.booleans())
    elif kind == 'orbit.time':
        kw = {'time': draw(_value('time', array))}
    elif kind in ('fixed.set', 'fixed.prop'):
        f = draw(st.sampled_from(['fixed_q', 'fixed_dt'] if model != 'cpl' else ['fixed_q', 'fixed_q', 'fixed_dt']))
        if model == 'ctl':
            f = draw(st.sampled_from(['fixed_dt', 'fixed_dt', 'fixed_q']))
        kw = {f: draw(_value(f, array))}
        if kind == 'fixed.set':
            defer = draw(st.booleans()) and draw(st.booleans())
    elif kind == 'tides.set_state':
        kw = draw(_subset_kwargs(array, [['fixed_q'], ['fixed_dt']]))
        defer = draw(st.booleans()) and draw(st.booleans())
    else:
        kw = {'layer': draw(st.sampled_from(['tidal0'] * 4 + ['tidal1'] * 3 + ['other'])),
              'via': draw(st.sampled_from(['set_temperature', 'property', 'set_state'])),
              'temperature': draw(_value('temperature', array))}
    return [kind, kw, bool(defer)]


@st.composite
def _world_axes(draw, tier, base=None):
    model = draw(st.sampled_from(['cpl', 'cpl', 'ctl', 'ctl_q', 'layered', 'layered', 'layered']))
    return {
        'model': model,
        'base': base or draw(st.sampled_from(['earth', 'io'])),
        'rheology': draw(st.sampled_from(['maxwell', 'andrade'])) if model == 'layered' else 'maxwell',
        'cooling': draw(st.sampled_from(['off', 'convection', 'convection', 'conduction', 'conduction'])) if model == 'layered' else 'off',
        'blank': draw(st.sampled_from([False, False, True])),
        'sync': draw(st.booleans()),
        'obl': draw(st.booleans()),
        'trunc': draw(st.sampled_from([2, 6])),
        'lmax': draw(st.sampled_from([2, 2, 3])) if (tier == 'thorough' and model == 'layered') else 2,
    }


@st.composite
def _set_states_op(draw, array):
    """orbit.set_states([...]): the orbit's BATCHED multi-world setter.  The entry of every world is generated independently
    (per world and per field: a value or None); the list may name the worlds in either order or only one of them."""
    order = draw(st.sampled_from([[0, 1], [0, 1], [0, 1], [1, 0], [1, 0], [0], [1]]))
    entries = [{}, {}]
    for k in order:
        if draw(st.sampled_from([True, True, False])):
            entries[k]['eccentricity'] = draw(_value('eccentricity', array))
        if draw(st.sampled_from([True, False, False])):
            f = draw(st.sampled_from(ORB_KEYS))
            entries[k][f] = draw(_value(f, array))
    if not any(entries[k] for k in order):
        entries[order[0]]['eccentricity'] = draw(_value('eccentricity', array))
    defer = draw(st.booleans()) and draw(st.booleans())
    return ['orbit.set_states', {'order': order, 'entries': entries}, bool(defer)]


def _prime(draw, wcfg, w, ops):
    if wcfg['model'] == 'layered' and draw(st.sampled_from([True, True, True, True, False])):
        # most layered histories start by giving every tidal layer a temperature (otherwise no strength, no tides)
        for k in range(len(BASES[wcfg['base']]['tidal_layers'])):
            ops.append(['layer.temperature', {'layer': 'tidal%d' % k, 'via': 'set_temperature',
                                              'temperature': draw(_value('temperature', wcfg['array']))}, False] + w)
    if draw(st.sampled_from([True, True, True, False])):
        # most histories are primed with a complete state so that the tides are live early (a world that is not
        # spin-locked computes nothing until it has a spin; a blank world nothing until it has an orbit)
        arr = wcfg['array']
        kw = {}
        f = draw(st.sampled_from(ORB_KEYS))
        kw[f] = draw(_value(f, arr))
        kw['eccentricity'] = draw(_value('eccentricity', arr))
        if not wcfg['sync']:
            f = draw(st.sampled_from(SPIN_KEYS))
            kw[f] = draw(_value(f, arr))
        if draw(st.booleans()):
            kw['obliquity'] = draw(_value('obliquity', arr))
        ops.append(['world.set_state', kw, False] + w)


@st.composite
def _case(draw, tier):
    cfg = draw(_world_axes(tier))
    cfg['array'] = draw(st.sampled_from([False, False, True]))
    # second configuration family: the HOST dissipates too (dual-body orbital derivatives); global-approx worlds only
    cfg['host_tides'] = bool(cfg['model'] != 'layered' and draw(st.sampled_from([False, False, True])))
    # third family (TWO_WORLD_FRACTION = 1 in 4 histories): a SECOND tidal world of the other base (other mass/radius) with its
    # own independently drawn axes and its own model state shares the orbit; ops address either world and 2 in 5 of them
    # are the orbit's batched setter orbit.set_states; both worlds are checked after every step (about 2x the cost per step)
    if draw(st.sampled_from([False, False, False, True])):
        cfg['second'] = draw(_world_axes(tier, base='io' if cfg['base'] == 'earth' else 'earth'))
    wcfgs = _world_cfgs(cfg)
    n = draw(st.integers(2, MAX_STEPS[tier]))
    ops = []
    for k, wc in enumerate(wcfgs):
        _prime(draw, wc, [k] if len(wcfgs) > 1 else [], ops)
    while len(ops) < n:
        if len(wcfgs) > 1:
            if draw(st.sampled_from([True, True, False, False, False])):
                ops.append(draw(_set_states_op(cfg['array'])))
            else:
                k = draw(st.sampled_from([0, 1]))
                ops.append(draw(_op(wcfgs[k])) + [k])
        else:
            ops.append(draw(_op(cfg)))
    # the invariant is evaluated after EVERY step (exact attribution of the first stale quantity to the field just written);
    # the `check` list stays in the case format so that a replay can restrict the checked steps
    check = [True] * len(ops)
    return {'config': cfg, 'ops': ops, 'check': check}


def strategy(tier):
    return _case(tier)


def fixed_cases(tier):
    """Witness histories: the two already-repaired defects and one layered temperature-only update."""
    out = []
    for model in ('cpl', 'ctl'):
        cfg = {'model': model, 'base': 'earth', 'rheology': 'maxwell', 'cooling': 'off', 'blank': False, 'sync': True, 'obl': False,
               'trunc': 2, 'lmax': 2, 'array': False, 'host_tides': model == 'ctl'}
        out.append({'config': cfg, 'check': [True, True, True],
                    'ops': [['orbit.set_state', {'orbital_period': 50.0, 'eccentricity': 0.1}, False],
                            ['orbit.set_state', {'eccentricity': 0.3}, False],
                            ['fixed.set', {'fixed_q' if model == 'cpl' else 'fixed_dt': 50.0}, False]]})
    cfg = {'model': 'cpl', 'base': 'io', 'rheology': 'maxwell', 'cooling': 'off', 'blank': True, 'sync': False, 'obl': True,
           'trunc': 6, 'lmax': 2, 'array': True}
    out.append({'config': cfg, 'check': [True, True, True],
                'ops': [['world.set_state', {'orbital_period': [3.0, 4.0, 5.0], 'eccentricity': [0.0, 0.1, 0.2],
                                             'spin_period': [1.0, 4.0, 2.5], 'obliquity': [0.1, 0.0, 0.3]}, False],
                        ['world.set', {'obliquity': [0.2, 0.3, 0.4]}, False],
                        ['orbit.set', {'eccentricity': [0.3, 0.2, 0.1]}, False]]})
    cfg = {'model': 'layered', 'base': 'io', 'rheology': 'andrade', 'cooling': 'convection', 'blank': False, 'sync': False, 'obl': True,
           'trunc': 2, 'lmax': 2, 'array': False}
    out.append({'config': cfg, 'check': [True, True, True, True],
                'ops': [['layer.temperature', {'layer': 'tidal0', 'via': 'set_temperature', 'temperature': 1400.0}, False],
                        ['world.set_state', {'orbital_period': 50.0, 'eccentricity': 0.2, 'obliquity': 0.17, 'spin_period': 10.0}, False],
                        ['layer.temperature', {'layer': 'tidal0', 'via': 'property', 'temperature': 1650.0}, False],
                        ['world.set', {'obliquity': 0.4}, True]]})
    # witness of KF-C13-complex-surface-temperature (fixed by de31ebe; holds now, fails on the reverted tree): after a hot upper mantle (huge convective heat flow =>
    # very hot surface) the mantle is set colder than that left-over surface temperature => negative cooling => complex
    # surface temperature => the next setter raises numba TypingError; a fresh world with a 1000 K mantle is fine.
    cfg = {'model': 'layered', 'base': 'earth', 'rheology': 'andrade', 'cooling': 'convection', 'blank': False, 'sync': True,
           'obl': False, 'trunc': 2, 'lmax': 2, 'array': False}
    out.append({'config': cfg, 'check': [True, True, True, True],
                'ops': [['layer.temperature', {'layer': 'tidal0', 'via': 'set_temperature', 'temperature': 2000.0}, False],
                        ['layer.temperature', {'layer': 'tidal1', 'via': 'set_temperature', 'temperature': 2000.0}, False],
                        ['layer.temperature', {'layer': 'tidal0', 'via': 'property', 'temperature': 1000.0}, False],
                        ['layer.temperature', {'layer': 'tidal0', 'via': 'property', 'temperature': 1000.0}, False]]})
    # two worlds in one orbit, orbit.set_states with per-world different kinds of change (witness of seeded/C13-5: a batched
    # setter that notifies every world with the LAST world's flags leaves the first world's tidal terms at the old e)
    cfg = {'model': 'cpl', 'base': 'earth', 'rheology': 'maxwell', 'cooling': 'off', 'blank': False, 'sync': True, 'obl': False,
           'trunc': 2, 'lmax': 2, 'array': False, 'host_tides': False,
           'second': {'model': 'ctl', 'base': 'io', 'rheology': 'maxwell', 'cooling': 'off', 'blank': True, 'sync': False,
                      'obl': True, 'trunc': 6, 'lmax': 2}}
    out.append({'config': cfg, 'check': [True] * 5,
                'ops': [['world.set_state', {'orbital_period': 50.0, 'eccentricity': 0.1}, False, 0],
                        ['world.set_state', {'orbital_period': 12.0, 'eccentricity': 0.05, 'spin_period': 3.0, 'obliquity': 0.2}, False, 1],
                        ['orbit.set_states', {'order': [0, 1], 'entries': [{'eccentricity': 0.3}, {}]}, False],
                        ['orbit.set_states', {'order': [0, 1], 'entries': [{'eccentricity': 0.2}, {'orbital_period': 20.0}]}, False],
                        ['fixed.set', {'fixed_q': 50.0}, False, 0]]})
    return out


def required_labels(tier):
    return (['model:' + m for m in MODELS] + ['stale:%s_only_after_freq' % k for k in STALE_KINDS]
            + ['sync:True', 'sync:False', 'obl:True', 'obl:False', 'trunc:2', 'trunc:6', 'array', 'scalar',
               'blank:True', 'blank:False', 'rheology:maxwell', 'rheology:andrade', 'cooling:off', 'cooling:convection', 'cooling:conduction', 'deferred', 'functional-checked',
               'host_tides:True', 'host_tides:False', 'dual-body-checked',
               'worlds:1', 'worlds:2', 'op:orbit.set_states', 'batch:mixed', 'batch:mixed-uncovered-live', 'batch:both-live-checked'])


def _axes_ok(cfg):
    if cfg['model'] not in MODELS or cfg['base'] not in BASES or cfg['rheology'] not in ('maxwell', 'andrade'):
        return False
    if cfg.get('cooling', 'off') not in ('off', 'convection', 'conduction') or (cfg['model'] != 'layered' and cfg.get('cooling', 'off') != 'off'):
        return False
    if cfg['trunc'] not in (2, 6) or cfg['lmax'] not in (2, 3) or (cfg['lmax'] == 3 and cfg['model'] != 'layered'):
        return False
    return all(isinstance(cfg[k], bool) for k in ('blank', 'sync', 'obl'))


def _value_ok(f, v, array):
    vals = v if isinstance(v, list) else [v]
    if array != isinstance(v, list) or (array and len(vals) != NARR):
        return False
    for x in vals:
        if not isinstance(x, float) or not math.isfinite(x):
            return False
        if f == 'eccentricity' and not 0.0 <= x <= 0.6:
            return False
        if f in DOMAIN and not DOMAIN[f][0] <= x <= DOMAIN[f][1]:
            return False
    return True


def in_domain(case):
    try:
        cfg = case['config']
        if not _axes_ok(cfg) or not isinstance(cfg['array'], bool):
            return False
        if not isinstance(cfg.get('host_tides', False), bool) or (cfg.get('host_tides') and cfg['model'] == 'layered'):
            return False
        if cfg.get('second') is not None and not (_axes_ok(cfg['second']) and cfg['second']['base'] != cfg['base']):
            return False
        wcfgs = _world_cfgs(cfg)
        ops = case['ops']
        if not (1 <= len(ops) <= 40) or len(case['check']) != len(ops):
            return False
        for op in ops:
            if len(op) not in (3, 4):
                return False
            kind, kw, defer = op[:3]
            if len(op) == 4 and op[3] not in range(len(wcfgs)):
                return False
            if not isinstance(defer, bool) or not kw:
                return False
            if kind == 'orbit.set_states':
                order, entries = kw['order'], kw['entries']
                if len(wcfgs) != 2 or order not in ([0, 1], [1, 0], [0], [1]) or len(entries) != 2:
                    return False
                if not any(entries[k] for k in order):
                    return False
                for ent in entries:
                    if len([f for f in ent if f in ORB_KEYS]) > 1 or any(f not in ORB_KEYS + ['eccentricity'] for f in ent):
                        return False
                    if not all(_value_ok(f, v, cfg['array']) for f, v in ent.items()):
                        return False
                continue
            cfg = wcfgs[_op_world(op)]
            if kind == 'layer.temperature' and (kw.get('layer') not in ('tidal0', 'tidal1', 'other')
                                                or kw.get('via') not in ('set_temperature', 'property', 'set_state')):
                return False
            for f, v in kw.items():
                if f in ('layer', 'via'):
                    continue
                if f in ('fixed_q', 'fixed_dt'):
                    if not (isinstance(v, float) and v > 0.0):
                        return False
                    continue
                vals = v if isinstance(v, list) else [v]
                if cfg['array'] != isinstance(v, list) or (cfg['array'] and len(vals) != NARR):
                    return False
                for x in vals:
                    if not isinstance(x, float) or not math.isfinite(x):
                        return False
                    if f in ('eccentricity',) and not 0.0 <= x <= 0.6:
                        return False
                    if f in ('obliquity',) and not 0.0 <= x <= 1.5:
                        return False
                    if f in ('time',) and not 0.0 <= x <= 4600.0:
                        return False
                    if f == 'temperature' and not 600.0 <= x <= 2100.0:
                        return False
                    if f in DOMAIN and not DOMAIN[f][0] <= x <= DOMAIN[f][1]:
                        return False
            if len([f for f in kw if f in ORB_KEYS]) > 1 or len([f for f in kw if f in SPIN_KEYS]) > 1:
                return False
            if cfg['sync'] and kind in ('world.set_state', 'world.prop') and any(f in SPIN_KEYS for f in kw):
                return False
            if kind in ('fixed.set', 'fixed.prop', 'tides.set_state') and cfg['model'] == 'layered':
                return False
            if kind == 'layer.temperature' and cfg['model'] != 'layered':
                return False
        return True
    except Exception:
        return False


def shrink_hints(case):
    """Drop single steps from the end / the front, switch to scalars, drop the second world."""
    ops = case['ops']
    if case['config'].get('second') is not None:
        # single-world version of the history: ops of the second world dropped, batched calls reduced to the first world
        c = copy.deepcopy(case)
        del c['config']['second']
        keep = []
        for op in c['ops']:
            if op[0] == 'orbit.set_states':
                ent = op[1]['entries'][0]
                if 0 in op[1]['order'] and ent:
                    keep.append(['orbit.set_state', ent, op[2]])
            elif _op_world(op) == 0:
                keep.append(op[:3])
        if keep:
            c['ops'] = keep
            c['check'] = [True] * len(keep)
            yield c
    for i in range(len(ops) - 1, -1, -1):
        if len(ops) > 1:
            c = copy.deepcopy(case)
            del c['ops'][i]
            del c['check'][i]
            c['check'][-1] = True
            yield c
    if case['config']['array']:
        c = copy.deepcopy(case)
        c['config']['array'] = False
        for op in c['ops']:
            for d in (op[1]['entries'] if op[0] == 'orbit.set_states' else [op[1]]):
                for f, v in d.items():
                    if isinstance(v, list):
                        d[f] = v[0]
        yield c
    if case['config'].get('host_tides'):
        c = copy.deepcopy(case)
        c['config']['host_tides'] = False
        yield c
    if any(not x for x in case['check']):
        c = copy.deepcopy(case)
        c['check'] = [True] * len(ops)
        yield c


# ---------------------------------------------------------------------------------------------------
# building worlds


def _val(v):
    return np.asarray(v, dtype=np.float64) if isinstance(v, list) else v


def _world_cfgs(cfg):
    """Per-world configuration dicts: [first world] or [first, second]; array mode and host family are shared."""
    out = [cfg]
    sec = cfg.get('second')
    if sec:
        wc = dict(sec)
        wc['array'] = cfg['array']
        wc['host_tides'] = bool(cfg.get('host_tides'))
        wc['_second'] = True
        out.append(wc)
    return out


def _op_world(op):
    return int(op[3]) if len(op) > 3 else 0


def _build_world(cfg, fixed_q=None, fixed_dt=None, temperatures=None):
    """One fresh tidal world for a per-world configuration (in the state its config ships with), no orbit yet."""
    from TidalPy.structures import build_from_world
    shard_setup()
    base = _S[cfg['base']][cfg['blank']]
    b = BASES[cfg['base']]
    tides = {'eccentricity_truncation_lvl': cfg['trunc'], 'max_tidal_order_l': cfg['lmax'], 'obliquity_tides_on': cfg['obl']}
    if cfg['model'] == 'layered':
        tides['model'] = 'layered'
        layers = {name: {'is_tidally_active': True, 'rheology': {'model': cfg['rheology']},
                         'cooling': {'model': cfg.get('cooling', 'off')}} for name in b['tidal_layers']}
        layers[b['other_layer']] = {'is_tidally_active': False}
        new = {'force_spin_sync': cfg['sync'], 'type': 'layered', 'tides_on': True, 'tides': tides, 'layers': layers}
    else:
        tides.update({'model': 'global_approx', 'use_ctl': cfg['model'] != 'cpl', 'fixed_q': 125.0, 'fixed_dt': 600.0,
                      'static_k2': 0.33,
                      'ctl_calc_method': 'linear_simple_with_q' if cfg['model'] == 'ctl_q' else 'linear_simple'})
        if fixed_q is not None:
            tides['fixed_q'] = fixed_q
        if fixed_dt is not None:
            tides['fixed_dt'] = fixed_dt
        new = {'force_spin_sync': cfg['sync'], 'type': 'simple_tidal', 'mass': b['mass'], 'slices': 100,
               'tides_on': True, 'tides': tides}
    world = build_from_world(base, new_config=new, new_name='second_world' if cfg.get('_second') else None)
    for lname, T in (temperatures or {}).items():
        getattr(world, lname).set_temperature(_val(T))
    return world


def _build(cfg, models=None):
    """A fresh star + world(s) + orbit for the configuration (worlds in the state their configs ship with; fixed_q/dt and
    layer temperatures of `models` are placed at build time).  Returns (worlds, orbit, tidal host); the host is the star
    itself unless cfg[host_tides]."""
    from TidalPy.structures import build_world
    from TidalPy.structures.orbit import PhysicsOrbit
    wcfgs = _world_cfgs(cfg)
    models = models or [_new_model() for _ in wcfgs]
    worlds = [_build_world(wc, fixed_q=m['fixed_q'], fixed_dt=m['fixed_dt'], temperatures=m['T']) for wc, m in zip(wcfgs, models)]
    bodies = worlds[0] if len(worlds) == 1 else list(worlds)
    star = build_world('55cnc')
    if cfg.get('host_tides'):
        # second family (as Test_SetW_OOP_OrbitTides/test_c): star + a separate dissipating HOST (a star that is its own tidal
        # host cannot have tides on: get_tidal_host raises).  Jupiter-like CPL host, Q = 1e4, k2 = 0.4, fixed 0.41 d rotation.
        # The orbit derivatives of the world become dual-body.  Only the world and its orbit have a history.
        hc = {'name': 'vhost', 'type': 'simple_tidal', 'radius': 6.9911e7, 'mass': 1.898e27, 'tides_on': True,
              'force_spin_sync': False,
              'tides': {'model': 'global_approx', 'use_ctl': False, 'fixed_q': 1.0e4, 'static_k2': 0.4,
                        'eccentricity_truncation_lvl': cfg['trunc'], 'max_tidal_order_l': 2, 'obliquity_tides_on': False}}
        host = build_world('vhost', hc)
        orbit = PhysicsOrbit(star, tidal_host=host, tidal_bodies=bodies)
        host.set_state(spin_period=HOST_SPIN_PERIOD)
        return worlds, orbit, host
    orbit = PhysicsOrbit(star, tidal_host=star, tidal_bodies=bodies)
    return worlds, orbit, star


def _new_model():
    return {'orb': None, 'e': None, 'spin': None, 'obliquity': None, 'time': None, 'fixed_q': None, 'fixed_dt': None, 'T': {}}


def _layer_name(cfg, which):
    b = BASES[cfg['base']]
    if which == 'other':
        return b['other_layer']
    return b['tidal_layers'][min(int(which[5:] or 0), len(b['tidal_layers']) - 1)]


def _apply_model(model, cfg, op):
    """Update the last-write model; returns the set of model fields the op wrote."""
    kind, kw = op[0], op[1]
    changed = set()
    # the order mirrors the documented semantics: an orbital-size write re-locks a spin-synchronous world
    for f, v in kw.items():
        if f in SPIN_KEYS:
            model['spin'] = [f, v]
            changed.add('spin')
    for f, v in kw.items():
        if f in ORB_KEYS:
            model['orb'] = [f, v]
            changed.add('orb')
            if cfg['sync']:
                model['spin'] = ['locked', None]
                changed.add('spin')
        elif f == 'eccentricity':
            model['e'] = v
            changed.add('e')
        elif f in ('obliquity', 'time', 'fixed_q', 'fixed_dt'):
            model[f] = v
            changed.add(f)
        elif f == 'temperature':
            model['T'][_layer_name(cfg, kw['layer'])] = v
            changed.add('temperature:' + kw['layer'])
    return changed


SET_STATES_LISTS = (('eccentricity', 'eccentricities'), ('semi_major_axis', 'semi_major_axes'),
                    ('orbital_frequency', 'orbital_frequencies'), ('orbital_period', 'orbital_periods'))


def _apply_set_states(worlds, orbit, op):
    """orbit.set_states(signatures, <per-field lists with None for 'leave this world alone'>)"""
    _kind, kw, defer = op[:3]
    order, entries = kw['order'], kw['entries']
    lists = {}
    for field, listname in SET_STATES_LISTS:
        col = [_val(entries[k][field]) if field in entries[k] else None for k in order]
        if any(x is not None for x in col):
            lists[listname] = col
    sigs = [worlds[k] for k in order]
    if defer:
        orbit.set_states(sigs, call_orbit_change=False, **lists)
        for k in order:
            if entries[k]:
                orbit.orbit_changed(worlds[k], orbital_freq_changed=any(f in ORB_KEYS for f in entries[k]),
                                    eccentricity_changed='eccentricity' in entries[k])
    else:
        orbit.set_states(sigs, **lists)


def _apply_op(world, orbit, cfg, op):
    kind, kw, defer = op[:3]
    vals = {f: _val(v) for f, v in kw.items() if f not in ('layer', 'via')}
    if kind == 'orbit.set_state':
        if defer:
            orbit.set_state(world, call_orbit_change=False, **vals)
            orbit.orbit_changed(world, orbital_freq_changed=any(f in ORB_KEYS for f in vals),
                                eccentricity_changed='eccentricity' in vals)
        else:
            orbit.set_state(world, **vals)
    elif kind == 'orbit.set':
        (f, v), = vals.items()
        getattr(orbit, 'set_' + f)(world, v)
    elif kind in ('world.prop', 'fixed.prop'):
        (f, v), = vals.items()
        setattr(world, f, v)
    elif kind == 'world.set_state':
        world.set_state(**vals)
    elif kind == 'world.set':
        (f, v), = vals.items()
        if defer:
            getattr(world, 'set_' + f)(v, call_updates=False)
            if f == 'obliquity':
                world.orbit_spin_changed(obliquity_changed=True)
            else:
                world.orbit_spin_changed(spin_freq_changed=True)
        else:
            getattr(world, 'set_' + f)(v)
    elif kind == 'orbit.time':
        orbit.time = vals['time']
    elif kind == 'fixed.set':
        (f, v), = vals.items()
        if defer:
            getattr(world, 'set_' + f)(v, run_updates=False)
            world.tides.fixed_q_dt_changed()
        else:
            getattr(world, 'set_' + f)(v)
    elif kind == 'tides.set_state':
        if defer:
            world.tides.set_state(run_updates=False, **vals)
            world.tides.fixed_q_dt_changed()
        else:
            world.tides.set_state(**vals)
    elif kind == 'layer.temperature':
        layer = getattr(world, _layer_name(cfg, kw['layer']))
        T = vals['temperature']
        if kw['via'] == 'set_temperature':
            layer.set_temperature(T)
        elif kw['via'] == 'property':
            layer.temperature = T
        else:
            layer.set_state(temperature=T)
    else:
        raise KeyError(kind)


def _fresh(cfg, models):
    """Fresh star + world(s) + orbit placed directly into the model state(s): one orbit.set_state and one world.set_state
    per world."""
    worlds, orbit, star = _build(cfg, models)
    if models[0]['time'] is not None:
        orbit.time = _val(models[0]['time'])
    for world, model in zip(worlds, models):
        okw = {}
        if model['orb'] is not None:
            okw[model['orb'][0]] = _val(model['orb'][1])
        if model['e'] is not None:
            okw['eccentricity'] = _val(model['e'])
        if okw:
            orbit.set_state(world, **okw)
        wkw = {}
        if model['spin'] is not None and model['spin'][0] != 'locked':
            wkw[model['spin'][0]] = _val(model['spin'][1])
        if model['obliquity'] is not None:
            wkw['obliquity'] = _val(model['obliquity'])
        if wkw:
            world.set_state(**wkw)
    return worlds, orbit, star


# ---------------------------------------------------------------------------------------------------
# observation and comparison


def _observe(world, orbit, cfg):
    out = {}
    t = world.tides
    utf = t.unique_tidal_frequencies
    out['unique_tidal_frequencies'] = None if utf is None else {str(tuple(int(i) for i in k)): np.asarray(v) for k, v in utf.items()}
    for name in ('global_love_by_orderl', 'global_negative_imk_by_orderl'):
        d = getattr(world, name)
        out[name] = None if d is None else {str(int(k)): np.asarray(v) for k, v in d.items()}
    if cfg['model'] == 'layered':
        out['tidal_heating_by_layer'] = {layer.name: (None if layer.tidal_heating is None else np.asarray(layer.tidal_heating))
                                         for layer in world}
    else:
        out['tidal_heating_by_layer'] = None
    for name in ('tidal_heating_global', 'dUdM', 'dUdw', 'dUdO'):
        v = getattr(world, name)
        out[name] = None if v is None else np.asarray(v)
    for name in ('eccentricity', 'semi_major_axis', 'orbital_motion'):
        v = getattr(orbit, 'get_%s_time_derivative' % name)(world)
        out[name + '_time_derivative'] = None if v is None else np.asarray(v)
    if cfg.get('host_tides'):
        host = orbit.tidal_host
        for name in ('tidal_heating_global', 'dUdM', 'dUdw', 'dUdO'):
            v = getattr(host, name)
            out['host_' + name] = None if v is None else np.asarray(v)
        # `_last_calc_used_dual_body` describes the orbit's LAST derivative calculation, whichever world it was for
        single = len(orbit.tidal_objects) <= 2
        out['dual_body'] = None if (orbit._last_calc_used_dual_body is None or not single) \
            else np.asarray(float(orbit._last_calc_used_dual_body))
    else:
        for name in HOST_QUANTITIES:
            out[name] = None
    if world.dUdO is not None:
        v = world.calc_spin_derivative()
        out['spin_time_derivative'] = None if v is None else np.asarray(v)
    else:
        out['spin_time_derivative'] = None
    return out


def _reldiff(a, b, scale=None):
    """max element-wise |a-b|/max(|a|,|b|[,scale]); NaN==NaN, inf==inf of equal sign; shape mismatch -> inf."""
    a = np.asarray(a)
    b = np.asarray(b)
    if a.shape != b.shape:
        if a.size == 1 or b.size == 1:
            try:
                a, b = np.broadcast_arrays(a, b)
            except ValueError:
                return float('inf')
        else:
            return float('inf')
    with np.errstate(all='ignore'):
        same = (a == b) | (np.isnan(a) & np.isnan(b))
        d = np.abs(a - b)
        s = np.maximum(np.abs(a), np.abs(b))
        if scale is not None:
            s = np.maximum(s, np.abs(np.asarray(scale, dtype=float)))
        r = np.where(same, 0.0, np.where(np.isfinite(d) & (s > 0), d / s, np.inf))
    return float(np.max(r)) if r.size else 0.0


def _cmp(x, y, scale=None):
    """-> (deviation, note).  deviation = inf for None / key / shape mismatches."""
    if x is None or y is None:
        return (0.0, '') if (x is None and y is None) else (float('inf'), 'None vs value: %r | %r' % (_short(x), _short(y)))
    if isinstance(x, dict):
        if set(x) != set(y):
            return float('inf'), 'keys differ: %s | %s' % (sorted(x), sorted(y))
        worst, note = 0.0, ''
        for k in sorted(x):
            d, n = _cmp(x[k], y[k])
            if d > worst:
                worst, note = d, '[%s] %s' % (k, n)
        return worst, note
    if np.shape(x) != np.shape(y):
        return float('inf'), 'shape %s vs %s: %s | %s' % (np.shape(x), np.shape(y), _short(x), _short(y))
    d = _reldiff(x, y, scale)
    return d, '%s | %s (rel %.3e%s)' % (_short(x), _short(y), d, '' if scale is None else ' of the cancelling terms %s' % _short(scale))


def _short(v):
    if isinstance(v, dict):
        return '{' + ', '.join('%s: %s' % (k, _short(x)) for k, x in list(v.items())[:4]) + '}'
    if v is None:
        return 'None'
    return np.array2string(np.asarray(v), precision=17, threshold=6)


def _G():
    from TidalPy.constants import G
    return G


def _kepler_n_from_a(a, M, m):
    return math.sqrt(_G() * (M + m) / a ** 3)


def _kepler_a_from_n(n, M, m):
    return (_G() * (M + m) / n ** 2) ** (1.0 / 3.0)


def _expected_orbit(model, M, m):
    """Independent (a, n, P) from the last orbital write, as float arrays."""
    f, v = model['orb']
    v = np.asarray(_val(v), dtype=float)
    mu = _G() * (M + m)
    if f == 'orbital_period':
        n = 2.0 * math.pi / (v * 86400.0)
        a = np.cbrt(mu / n ** 2)
        P = v
    elif f == 'orbital_frequency':
        n = v
        a = np.cbrt(mu / n ** 2)
        P = 2.0 * math.pi / n / 86400.0
    else:
        a = v
        n = np.sqrt(mu / a ** 3)
        P = 2.0 * math.pi / n / 86400.0
    return a, n, P


def _exact(a, b):
    if a is None or b is None:
        return a is None and b is None
    a = np.asarray(a)
    b = np.asarray(b)
    return a.shape == b.shape and bool(np.all((a == b) | (np.isnan(a) & np.isnan(b))))


def _close(a, b):
    """Read-back equality of a primary value: to KEPLER_RTOL, not bit-exact - an implementation is free to store a
    canonical unit (n for P, radians for degrees, ...) and convert back; read-back noise is not history dependence."""
    if a is None or b is None:
        return a is None and b is None
    return _reldiff(a, b) <= KEPLER_RTOL


def _check_model(c, sig, world, orbit, star, cfg, model):
    """Primary state reported by the objects == model (all comparisons to KEPLER_RTOL = 1e-13 relative)."""
    ok = True
    if model['orb'] is not None:
        a, n, P = _expected_orbit(model, star.mass, world.mass)
        got = {'semi_major_axis': orbit.get_semi_major_axis(world), 'orbital_frequency': orbit.get_orbital_frequency(world),
               'orbital_period': orbit.get_orbital_period(world)}
        for name, exp in (('semi_major_axis', a), ('orbital_frequency', n), ('orbital_period', P)):
            g = got[name]
            d = float('inf') if g is None else _reldiff(g, exp)
            ok &= c.check(d <= KEPLER_RTOL, dict(sig, clause='model', quantity=name),
                          'orbit getter %s=%s, Kepler model from %s gives %s (rel %.3e)' % (name, _short(g), model['orb'][0], _short(exp), d))
        for name in ORB_KEYS:
            ok &= c.check(_close(getattr(world, name), got[name]), dict(sig, clause='model', quantity='world.' + name),
                          'world.%s=%s but orbit getter %s' % (name, _short(getattr(world, name)), _short(got[name])))
        if model['orb'][0] in got:
            ok &= c.check(_close(got[model['orb'][0]], _val(model['orb'][1])), dict(sig, clause='model', quantity='readback:' + model['orb'][0]),
                          'wrote %s, read back %s' % (_short(_val(model['orb'][1])), _short(got[model['orb'][0]])))
    if model['e'] is not None:
        ok &= c.check(_close(orbit.get_eccentricity(world), _val(model['e'])) and _close(world.eccentricity, _val(model['e'])),
                      dict(sig, clause='model', quantity='eccentricity'),
                      'model e=%s, orbit %s, world %s' % (_short(_val(model['e'])), _short(orbit.get_eccentricity(world)), _short(world.eccentricity)))
    if model['obliquity'] is not None:
        ok &= c.check(_close(world.obliquity, _val(model['obliquity'])), dict(sig, clause='model', quantity='obliquity'),
                      'model obliquity=%s, world %s' % (_short(_val(model['obliquity'])), _short(world.obliquity)))
    if model['time'] is not None:
        ok &= c.check(_close(world.time, _val(model['time'])), dict(sig, clause='model', quantity='time'),
                      'model time=%s, world %s' % (_short(_val(model['time'])), _short(world.time)))
    if model['spin'] is not None:
        if model['spin'][0] == 'locked':
            ok &= c.check(_close(world.spin_frequency, orbit.get_orbital_frequency(world)), dict(sig, clause='model', quantity='spin_locked'),
                          'spin-locked world: spin_frequency=%s, n=%s' % (_short(world.spin_frequency), _short(orbit.get_orbital_frequency(world))))
        else:
            f, v = model['spin']
            g = getattr(world, f)
            ok &= c.check(_close(g, _val(v)), dict(sig, clause='model', quantity=f),
                          'wrote %s=%s, read back %s' % (f, _short(_val(v)), _short(g)))
        sf, sp = world.spin_frequency, world.spin_period
        d = float('inf') if (sf is None or sp is None) else _reldiff(np.asarray(sp, dtype=float) * 86400.0 * np.asarray(sf, dtype=float) / (2.0 * math.pi), 1.0)
        ok &= c.check(d <= KEPLER_RTOL, dict(sig, clause='model', quantity='spin_period_vs_frequency'),
                      'spin_period=%s, spin_frequency=%s (P*f/2pi-1=%.3e)' % (_short(sp), _short(sf), d))
    for f in ('fixed_q', 'fixed_dt'):
        if model[f] is not None:
            ok &= c.check(_close(getattr(world, f), model[f]), dict(sig, clause='model', quantity=f),
                          'wrote %s=%r, read back %r' % (f, model[f], getattr(world, f)))
    for lname, T in model['T'].items():
        ok &= c.check(_close(getattr(world, lname).temperature, _val(T)), dict(sig, clause='model', quantity='temperature'),
                      'layer %s: wrote T=%s, read back %s' % (lname, _short(_val(T)), _short(getattr(world, lname).temperature)))
    return bool(ok)


def _functional(world, star, cfg):
    """quick_tidal_dissipation at the state read back from the objects (None if the state is incomplete)."""
    from TidalPy.toolbox.quick_tides import quick_tidal_dissipation
    n, spin, e, obl = world.orbital_frequency, world.spin_frequency, world.eccentricity, world.obliquity
    if n is None or spin is None or e is None or (cfg['obl'] and obl is None):
        return None
    fixed_dt = world.fixed_dt
    if cfg['model'] == 'ctl_q':
        fixed_dt = world.fixed_dt / world.fixed_q
    r = quick_tidal_dissipation(
        star.mass, world.radius, world.mass, world.gravity_surface, world.density_bulk, world.moi,
        rheology='cpl' if cfg['model'] == 'cpl' else 'ctl', eccentricity=e, obliquity=obl if cfg['obl'] else None,
        orbital_frequency=n, spin_frequency=spin, max_tidal_order_l=cfg['lmax'], eccentricity_truncation_lvl=cfg['trunc'],
        use_obliquity=cfg['obl'], tidal_scale=world.tidal_scale, fixed_k2=world.tides.fixed_k2, fixed_q=world.fixed_q,
        fixed_dt=fixed_dt, calculate_orbit_spin_derivatives=True)
    a = np.asarray(r['semi_major_axis'])
    nn = np.asarray(r['orbital_frequency'])
    # The potential derivatives are sums over tidal modes with alternating signs (dUdO of a spin-locked CTL world cancels to
    # 1e-10 of its terms), and de/dt = sqrt(1-e^2)/(n a^2 e) (M+m)/m (dUdw - sqrt(1-e^2) dUdM) is a difference of two nearly
    # equal numbers for small e.  The two APIs may differ in the last bit of a (semi-major axis written directly vs derived
    # from n) and of -Im k (ctl_q regrouping); such noise is judged against the size of the CANCELLING TERMS, computed here
    # from the world's own mode table: S_X = |susceptibility|/M_host * sum_modes |term_X| * |Im k_mode|.
    frtol = F_RTOL[cfg['model']]
    try:
        sc = _cancel_scales(world, star)
        fallback = False
    except Exception:       # the private mode tables changed layout: not a property violation, use public attributes only
        sc = None
        fallback = True
    if sc is None and not fallback and world.tidal_heating_global is not None:
        fallback = True
    if fallback:
        sc = _public_scales(world, star)
        frtol = F_RTOL_FALLBACK
    scales = {}
    if sc is not None:
        ee = np.asarray(e, dtype=float)
        mfac = (star.mass + world.mass) / world.mass
        with np.errstate(all='ignore'):
            rt = np.sqrt(1.0 - ee * ee)
            s_da = 2.0 / (nn * a) * mfac * sc['dUdM']
            scales = {'dUdM': sc['dUdM'], 'dUdw': sc['dUdw'], 'dUdO': sc['dUdO'],
                      'semi_major_axis_time_derivative': s_da,
                      'orbital_motion_time_derivative': 1.5 * (nn / a) * s_da,
                      'eccentricity_time_derivative': np.where(ee > 0.0, rt / (nn * a * a * ee) * mfac * (rt * sc['dUdM'] + sc['dUdw']), 0.0),
                      'spin_time_derivative': star.mass * sc['dUdO'] / world.moi}
    return {
        '_scale': scales, '_rtol': frtol, '_fallback': fallback,
        'global_love_by_orderl': {str(int(k)): np.asarray(v) for k, v in r['love_number_by_orderl'].items()},
        'global_negative_imk_by_orderl': {str(int(k)): np.asarray(v) for k, v in r['negative_imk_by_orderl'].items()},
        'tidal_heating_global': np.asarray(r['tidal_heating']),
        'dUdM': np.asarray(r['dUdM']), 'dUdw': np.asarray(r['dUdw']), 'dUdO': np.asarray(r['dUdO']),
        'eccentricity_time_derivative': np.asarray(r['eccentricity_derivative']),
        'semi_major_axis_time_derivative': np.asarray(r['semi_major_axis_derivative']),
        'orbital_motion_time_derivative': -(3. / 2.) * (nn / a) * np.asarray(r['semi_major_axis_derivative']),
        'spin_time_derivative': np.asarray(r['spin_rate_derivative']),
    }


def _num(v):
    """complex / object values -> complex array so that they can be compared at all"""
    return None if v is None else np.asarray(v, dtype=complex)


def _where(exc):
    """Call site of an exception raised inside the repository (deepest repository frame; numba typing errors name the
    njit function they were typing)."""
    from vlib.result import _repo_frame
    msg = str(exc)
    if 'cooling_models.py' in msg:
        return 'cooling_models(njit typing)'
    return _repo_frame(exc.__traceback__) or 'unknown'


def _cancel_scales(world, star):
    """Size of the terms that are summed (with alternating signs) into dUdM, dUdw, dUdO of a global-approx world."""
    t = world.tides
    terms, love, sus = t.tidal_terms_by_frequency, t.complex_love_by_unique_freq, t.tidal_susceptibility
    if terms is None or love is None or sus is None:
        return None
    tot = [0.0, 0.0, 0.0]
    for sig, by_l in terms.items():
        k = np.abs(np.imag(np.asarray(love[sig]))) * world.tidal_scale
        for _l, tup in by_l.items():
            for j in range(3):
                tot[j] = tot[j] + np.abs(np.asarray(tup[1 + j])) * k
    f = np.abs(np.asarray(sus)) / star.mass
    return {'dUdM': tot[0] * f, 'dUdw': tot[1] * f, 'dUdO': tot[2] * f}


def _public_scales(world, star):
    """Fallback for `_cancel_scales` from PUBLIC attributes only: every mode contributes U K w to the heating and
    U K weight / M_host to a potential derivative (|weight| <= 10 up to truncation 6), hence
    sum |terms_X| <= 10 * tidal_heating_global / (min non-zero tidal frequency * M_host).  Coarser than the mode table, so it
    is used with F_RTOL_FALLBACK = 1e-9 instead of 1e-12 (never the bare relative test, which false-alarms on cancelling sums)."""
    heat = world.tidal_heating_global
    freqs = world.unique_tidal_frequencies
    if heat is None or freqs is None:
        return None
    wmin = None
    with np.errstate(all='ignore'):
        for _k, w in freqs.items():
            w = np.abs(np.asarray(w, dtype=float))
            w = np.where(w > 0.0, w, np.inf)
            wmin = w if wmin is None else np.minimum(wmin, w)
        if wmin is None:
            return None
        sc = np.where(np.isfinite(wmin), 10.0 * np.abs(np.asarray(heat, dtype=float)) / (wmin * star.mass), 0.0)
    return {'dUdM': sc, 'dUdw': sc, 'dUdO': sc}


def _changed_name(changed):
    names = sorted({'orb': 'orbit', 'e': 'e', 'spin': 'spin'}.get(x, x.split(':')[0]) for x in changed)
    return '+'.join(names)


def _describe(cfg, ops, i):
    return 'config=%s; history up to the failing step %d: %s' % (cfg, i, ops[:i + 1])


# ---------------------------------------------------------------------------------------------------
# evaluate


def shard_teardown():
    """Vacuity guard: histories that end without verdict (`both-raise`) must stay a small minority."""
    from vlib.result import HarnessError
    n, both = _COUNT['n'], _COUNT['both']
    if n >= 20 and both > VACUITY_MAX * n:
        raise HarnessError('C13 vacuity guard: %d of %d histories of this shard ended without verdict (history and fresh world '
                           'raised the same exception type) - more than %.0f %%' % (both, n, 100 * VACUITY_MAX))


def extra_coverage(tier, merged):
    n = max(1, merged.get('evaluations', 0))
    both = merged.get('labels', {}).get('both-raise', 0)
    return {'ended_without_verdict_both_raise': both, 'ended_without_verdict_fraction': round(both / n, 4),
            'vacuity_guard_max_fraction_per_shard': VACUITY_MAX,
            'functional_public_scale_fallback': merged.get('labels', {}).get('cancel-scale:public-fallback', 0)}


def _entry_kinds(entry):
    return (any(f in ORB_KEYS for f in entry), 'eccentricity' in entry)


def evaluate(case):
    shard_setup()
    _COUNT['n'] += 1
    cfg = case['config']
    ops = case['ops']
    check = case.get('check') or [True] * len(ops)
    wcfgs = _world_cfgs(cfg)
    nw = len(wcfgs)
    c = Collector(nontrivial=False)
    c.label('worlds:%d' % nw, 'array' if cfg['array'] else 'scalar')
    for wc in wcfgs:
        c.label('model:' + wc['model'], 'base:' + wc['base'], 'sync:%s' % wc['sync'], 'obl:%s' % wc['obl'],
                'trunc:%d' % wc['trunc'], 'lmax:%d' % wc['lmax'], 'blank:%s' % wc['blank'])
        if wc['model'] == 'layered':
            c.label('rheology:' + wc['rheology'], 'cooling:' + wc.get('cooling', 'off'))
        else:
            c.label('host_tides:%s' % bool(cfg.get('host_tides')))
    with repo_call('build'):
        worlds, orbit, star = _build(cfg)
    models = [_new_model() for _ in wcfgs]
    freq_seen = [False] * nw
    nontrivial = False
    pending = [set() for _ in wcfgs]      # per world: everything written since the last step at which the invariant held
    for i, op in enumerate(ops):
        live = [w.tidal_heating_global is not None for w in worlds]
        kind = op[0]
        batched = kind == 'orbit.set_states'
        # ---- model update: which world(s) does the op write?
        changed = [set() for _ in wcfgs]
        if batched:
            order, entries = op[1]['order'], op[1]['entries']
            for k in order:
                changed[k] = _apply_model(models[k], wcfgs[k], [kind, entries[k]])
            kinds = [_entry_kinds(entries[k]) for k in order]
            if len(order) > 1 and kinds[0] != kinds[1]:
                c.label('batch:mixed')
                # the stale-prone shape: an earlier world of the list gets a kind of change the LAST world does not get
                if any(a and not b for a, b in zip(kinds[0], kinds[-1])) and live[order[0]]:
                    c.label('batch:mixed-uncovered-live')
                    nontrivial = True
        elif kind == 'orbit.time':
            for k in range(nw):            # one universal time per orbit
                changed[k] = _apply_model(models[k], wcfgs[k], op)
        else:
            changed[_op_world(op)] = _apply_model(models[_op_world(op)], wcfgs[_op_world(op)], op)
        c.label('op:' + kind)
        if op[2]:
            c.label('deferred')
        for k in range(nw):
            pending[k] |= changed[k]
            only = None
            if changed[k] == {'e'}:
                only = 'e'
            elif changed[k] in ({'obliquity'}, {'fixed_q'}, {'fixed_dt'}):
                only = next(iter(changed[k]))
            elif len(changed[k]) == 1 and next(iter(changed[k])).startswith('temperature:tidal'):
                only = 'temperature'
            if only is not None and freq_seen[k] and live[k]:
                c.label('stale:%s_only_after_freq' % only)
                nontrivial = True
            if 'orb' in changed[k] or 'spin' in changed[k]:
                freq_seen[k] = True

        def sig_for(k):
            name = _changed_name(pending[k])
            if not name and nw > 1:
                name = 'none(other world: %s)' % _changed_name(pending[1 - k])
            sg = {'model': wcfgs[k]['model'], 'field_changed': name}
            if nw > 1:
                sg['worlds'] = 2
            if batched:
                sg['via'] = 'orbit.set_states'
            return sg
        kop = _op_world(op) if not batched else op[1]['order'][0]
        # ---- apply to the history objects
        try:
            with repo_call('op:' + kind):
                if batched:
                    _apply_set_states(worlds, orbit, op)
                else:
                    _apply_op(worlds[_op_world(op)], orbit, wcfgs[_op_world(op)], op)
        except RepoRaised as err:
            # does a fresh world put into the same state raise as well?  then it is not a history effect
            try:
                with repo_call('fresh'):
                    _fresh(cfg, models)
                fresh_raises = None
            except RepoRaised as err2:
                fresh_raises = type(err2.exc).__name__
            if fresh_raises == type(err.exc).__name__:
                # no verdict: the state is unreachable for both.  Counted (label + evidence) and bounded by the vacuity
                # guard in shard_teardown (> 20 % of a shard's histories ending here is a harness error, not a pass).
                c.label('both-raise', 'both-raise:' + fresh_raises)
                _COUNT['both'] += 1
                break
            c.fail(dict(sig_for(kop), clause='exception', quantity=type(err.exc).__name__, via=kind, where=_where(err.exc)),
                   'history raised %s: %s (fresh world in the same state: %s). %s'
                   % (type(err.exc).__name__, err.exc, fresh_raises or 'no exception', _describe(cfg, ops, i)))
            break
        if not check[i] and i != len(ops) - 1:
            continue
        # ---- invariant, for EVERY world of the orbit ----
        okm = True
        with repo_call('observe'):
            obs = [_observe(w, orbit, wc) for w, wc in zip(worlds, wcfgs)]
            for k in range(nw):
                okm = okm and _check_model(c, sig_for(k), worlds[k], orbit, star, wcfgs[k], models[k])
        if not okm:
            c.fails[-1]['detail'] += ' ' + _describe(cfg, ops, i)
            break
        try:
            try:
                with repo_call('fresh'):
                    fworlds, forbit, fstar = _fresh(cfg, models)
                    fobs = [_observe(w, forbit, wc) for w, wc in zip(fworlds, wcfgs)]
            except RepoRaised as err:
                # building the reference is pure as well: retry once (see the functional clause)
                c.label('retried:' + type(err.exc).__name__)
                with repo_call('fresh'):
                    fworlds, forbit, fstar = _fresh(cfg, models)
                    fobs = [_observe(w, forbit, wc) for w, wc in zip(fworlds, wcfgs)]
        except RepoRaised as err:
            c.label('fresh-raises:' + type(err.exc).__name__)
            c.fail(dict(sig_for(kop), clause='exception', quantity=type(err.exc).__name__, via='fresh-only', where=_where(err.exc)),
                   'the history reached this state without an exception but a fresh world placed into it raised %s: %s. %s'
                   % (type(err.exc).__name__, err.exc, _describe(cfg, ops, i)))
            break
        bad = False
        for k in range(nw):
            for q in QUANTITY_ORDER:
                d, note = _cmp(obs[k][q], fobs[k][q])
                if d > _WORST.get(('fresh', q), 0.0) and d <= RTOL:
                    _WORST[('fresh', q)] = d
                if not d <= RTOL:
                    c.fail(dict(sig_for(k), clause='fresh', quantity=q),
                           '%s of world %d (%s) after step %d (%s): history world | fresh world = %s. %s'
                           % (q, k, wcfgs[k]['model'], i, kind, note, _describe(cfg, ops, i)))
                    bad = True
                    break
            if bad:
                break
        if bad:
            break
        sigs_now = [sig_for(k) for k in range(nw)]
        pending = [set() for _ in wcfgs]
        if all(o['tidal_heating_global'] is not None for o in obs):
            c.label('live-checked')
        if nw > 1 and batched and all(o['tidal_heating_global'] is not None for o in obs):
            c.label('batch:both-live-checked')
        o0 = obs[0]
        if o0.get('dual_body') is not None and float(o0['dual_body']) == 1.0 and o0['eccentricity_time_derivative'] is not None:
            c.label('dual-body-checked')
        # not asserted (outside the quantities the property lists), only counted: thermal side of a layered world
        for k in range(nw):
            if wcfgs[k]['model'] == 'layered':
                for name in ('surface_temperature', 'insolation_heating'):
                    if not _exact(_num(getattr(worlds[k], name)), _num(getattr(fworlds[k], name))):
                        c.label('unlisted-differs:' + name)
        for k in range(nw):
            wc = wcfgs[k]
            if wc['model'] == 'layered':
                continue
            try:
                with repo_call('quick_tidal_dissipation'):
                    fun = _functional(worlds[k], star, wc)
            except RepoRaised as err:
                # the functional call is pure: a deterministic failure repeats, a numba cache race between cold shards does not
                c.label('retried:' + type(err.exc).__name__)
                with repo_call('quick_tidal_dissipation'):
                    fun = _functional(worlds[k], star, wc)
            if fun is not None:
                c.label('functional-checked')
                if fun['_fallback']:
                    c.label('cancel-scale:public-fallback')
                for q in QUANTITY_ORDER:
                    # with a dissipating host the derivatives of its tide raiser (the first world) are dual-body
                    if q not in fun or (cfg.get('host_tides') and k == 0 and q in SINGLE_BODY_ONLY):
                        continue
                    d, note = _cmp(obs[k][q], fun[q], fun['_scale'].get(q))
                    if d > _WORST.get((wc['model'], q), 0.0) and d <= fun['_rtol']:
                        _WORST[(wc['model'], q)] = d
                    if not d <= fun['_rtol']:
                        c.fail(dict(sigs_now[k], clause='functional', quantity=q),
                               '%s of world %d after step %d (%s): history world | quick_tidal_dissipation = %s. %s'
                               % (q, k, i, kind, note, _describe(cfg, ops, i)))
                        bad = True
                        break
            if bad:
                break
        if bad:
            break
    c.nontrivial = nontrivial
    return c.result()
