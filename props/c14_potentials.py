"""C14 - tidal potentials: derivatives, degree-2 surface Laplace identity, modal sums, limiting reductions.

Functions under test (TidalPy.tides.potential) and what they return (read from the sources and from their
callers `tides/modes/multilayer_modes.py`, `Tests/Test_Old/Test_SetX_Potential`):
    every implementation returns (frequencies_by_name, modes_by_name, potential_tuple_by_mode); the third is a dict
    mode name -> (U, dU/dtheta, dU/dphi, d2U/dtheta2, d2U/dphi2, d2U/dtheta dphi); theta = colatitude, phi = longitude.
    Today the non-modal variants return one key ('n') holding the sum over all their modes and the *_modes variants
    9 / 17 / 27 / 17 keys; the check depends on neither: a variant's total is the sum over whatever keys it returns
    and every returned mode is judged on its own (a future dedicated static/zero-frequency mode is acceptable).
    Arguments: (radius, longitude, colatitude, time, n, [spin,] e, [obliquity,] host_mass, a[, use_static]) with
    longitude/colatitude/time either python floats or equal-shape arrays (callers pass 3-D meshgrids), all the
    rest scalars.  `use_static=False` switches off every mode whose |frequency| < 1e-10 rad/s; `use_static=True`
    keeps them and adds the time-independent P20 term.
    impl      function                                             family    keys
    simple    tidal_potential_simple        (no spin, no flag)     simple    1   (first order in e, synchronous)
    nsr       tidal_potential_nsr                                   no_obl    1
    nsr_modes tidal_potential_nsr_modes                             no_obl    9
    med       tidal_potential_obliquity_nsr                         med_obl   1
    med_modes tidal_potential_obliquity_nsr_modes                   med_obl   17
    gen       tidal_potential_gen_obliquity_nsr                     gen_obl   1
    gen_modes tidal_potential_gen_obliquity_nsr_modes               gen_obl   27
    low_e_modes tidal_potential_gen_obliquity_low_e_nsr_modes       low_e     17

Call paths: `py` = the un-jitted source (getattr(f, 'py_func', f) re-bound to a COPY of its globals in which the numba
type alias `bool_`, which numpy cannot use as a dtype, is `numpy.bool_`; the repository module is never modified) with
array arguments;
`py_scalar` = the same with python floats, one call per point; `jit` = the numba dispatcher users call, with 3-D
C-contiguous arrays as `multilayer_modes` passes.  Cold compilation of the eight dispatchers costs 7-22 s each
(95 s together), therefore the quick tier runs the dispatcher in 8 fixed cases (one per implementation, spread
over the shards; all clauses below on the compiled output + compiled == un-jitted within 1e-13) and everything
generated through `.py_func`; the thorough tier also generates `jit` cases.

Clauses ("scale" sc = G M R^2 / a^3; S = max |component| of the mode's tuple over the stencil; when
use_static=True, S = max(S, sc), because the P20 static term (size ~ sc) is then added to the mode and may
cancel it - the rounding error is that of the terms, not of the remainder)
  laplace   per mode, at every base point, from the returned values only:
            |U_tt + cot(t) U_t + U_pp/sin^2 t + 6U| <= 2e-12 * (|U_tt| + |cot t U_t| + |U_pp|/sin^2 t + 6|U| [+ 6 sc]).
            Worst measured 6.8e-14 (P21 modes at colatitude 0.051: the source evaluates d2P21 as 4 sin^4/sin^3 and
            sin as sqrt(1-cos^2)); margin 30x.  A wrong factor in one second derivative gives O(1e-1).
  deriv     per mode, first/second/mixed partials against 6th-order central differences
            f' ~ (-f(-3h)+9f(-2h)-45f(-h)+45f(h)-9f(2h)+f(3h))/(60h), h = 5e-3 rad, of the RETURNED U (for U_t, U_p)
            and of the RETURNED first derivatives (U_tt from U_t, U_pp from U_p, U_tp from U_t in phi and from U_p in
            theta).  Error budget: truncation h^6 |f^(7)|/140 <= (5e-3)^6 * 2^7/140 * S = 1.4e-14 S (all functions are
            trigonometric polynomials of degree 2 in theta and in phi); rounding (110/60) * delta_f / h with
            delta_f <= 1e-16/sin^2(theta) S from sqrt(1-cos^2) at theta >= 0.035 -> <= 3e-11 S (measured with h=1e-3:
            3.1e-11; with h=5e-3: 7e-12).  Tolerance 1e-9 * S: >= 30x the budget, >= 5 orders below a wrong
            coefficient or a sin<->cos slip (>= 1e-4 S).
  modal_sum sum over the keys of each *_modes variant == its non-modal counterpart, all six components:
            <= 1e-12 * sum_k S_k (measured 6e-16).
  zero_obl  obliquity variants called with obliquity = 0.0 equal the no-obliquity variants ("exactly"): non-modal
            tuple, every shared mode; modes the no-obliquity variant does not have are 0 (with use_static=True: 0 or
            the static term alone, see KF-C14-static-in-every-mode): <= 1e-14 sc (measured: bit-identical).
  array     kind `array`: eccentricity, obliquity and time are passed as ARRAYS (documented type FloatArray), one value
            per point, in which Hypothesis chooses which elements are exact zeros (e = 0 and/or obliquity = 0 and/or
            t = 0 next to non-zero elements), for all eight implementations: (a) `array_vs_scalar`: the array call
            equals the element-by-element scalar calls within 16 ulp of the mode magnitude / sin^3(colatitude) (numpy's
            array and scalar cos/sin differ by <= 1 ulp and the source's d2P21 = 4 sin^4/sin^3 amplifies that near the
            poles; no failure on 1100 generated cases with the tolerance tightened 10x); (b) laplace, deriv (S per
            point, since points carry different e/obliquity) and modal_sum per element of the array call; (c) zero_obl
            at the elements whose obliquity is exactly 0 (obliquity variants vs no-obliquity variants called with the
            same arrays).  Quick: un-jitted source; thorough adds 8 fixed cases through the compiled dispatchers.
  Spins: generic ratios in [-3,3], the exact resonances o = n, -n, 0, 3n/2, 2n, and (class `near`) a log-uniform OFFSET
            |o - k n/2| in 10^[-22,-6] rad/s of either sign from every resonance k n/2, |k| <= 10 (the zeros of the modes
            2o -+ kn and o -+ kn, k <= 5, prograde and retrograde), so that mode frequencies land below, at and above the
            zero-frequency cut-off that `use_static=False` applies (|frequency| > MIN_SPIN_ORBITAL_DIFF = 1e-10 rad/s) - and
            below one ulp of o, where the offset is lost.  Every clause (modal_sum, zero_obl, med_gen, low_e, array) is
            evaluated at these spins too (the two-scale kinds use the case's spin for the periodic parts and a
            resonance-free spin only to isolate the static term).  All implementations use the same absolute cut-off and
            the same expressions a*o + b*n, so they must agree on which modes are on; only when a mode frequency lies
            within 8 ulp of max(|2o|, 5|n|) - the rounding of that difference, which may depend on the order of operations
            - of the cut-off is the case not judged (discarded as `switch:ambiguous`; probability ~1e-15 per case).
  Two-scale ratio tests (no fixed tolerance decides; D(lambda) = max-norm of the difference over 4..6 points and
  all six components, in units of sc; evaluated at lambda, lambda/2, lambda/4; D <= 1e-11 is "below floor" = held).
  A term of too low an order makes EVERY consecutive ratio small for EVERY value of the secondary parameter, whereas a
  ratio can be small by accident when the leading coefficient nearly vanishes at one parameter value (mode '2o':
  obl^4 (kappa^2/8 - 1/36), zero at kappa = 0.4714; seen 5 times in 3000 cases) or when two orders cancel at one scale.
  The clause therefore fails only if NO scale pair of NO variant (kappa and 0.75 kappa; obliquity and 0.8 obliquity+0.1)
  reaches the required ratio:
  med_gen   medium-obliquity vs general-obliquity variants, per mode of the modal pair, the static parts, and the
            non-modal totals.  "to second order in obliquity" is decided as D = O(lambda^3): required
            D(lambda)/D(lambda/2) >= 2^2.5 = 5.66 (a surviving 2nd-order term gives 4, a 1st-order term 2, the
            correct tables give 16..128).  No bound on the size of D is imposed.  The medium variants are the
            general ones truncated at TOTAL degree 3 in (e, obliquity) - e.g. they keep e*obl^2 but drop e^3*obl and
            e^2*obl^2 - so at FIXED e > 0 the difference contains e^3*obl (ratio 2) by construction of the
            documented truncation; the scaling is therefore joint: (e, obl) = lambda*(kappa, 1), kappa = 0 (pure
            obliquity, exactly the stated clause) or kappa in [0.2, 2].
  sync      `simple` vs `nsr` at spin = n, use_static=False: D(e)/D(e/2) >= 2^1.5 = 2.83 (difference is O(e^2):
            measured ratio 4.0-5.7).
  low_e     `gen_modes` vs `low_e_modes` (the low-eccentricity member of the general-obliquity family; the limit
            e -> 0 of "the more general variants reduce to the simpler ones"), per mode and static part:
            D(e)/D(e/2) >= 2.83.

Genuine defects of the pinned tree found by this check (all in .py files; the last three are meanwhile repaired in /repo
by `fix:` commits 09f77d1 / d1f956e / 88808dd - `tools/mut.py C14 --patch fixes/revert-<commit>.diff` must be CAUGHT -
and are listed as `fixed` in known_findings.json; KF-C14-static-in-every-mode is still `known`; its signature names
clause and kind, so that any other mismatch still raises a VIOLATION and the search continues behind it):
  KF-C14-static-in-every-mode  the four *_modes variants add the static P20 term to EVERY mode when use_static=True,
        so the modes sum to non-modal + (N-1)*static (the caller multilayer_modes sums the modes).  The check
        verifies that the residual is exactly (N-1) x the static term (estimated from the non-modal variant) and
        otherwise reports kind=mismatch (a violation).
  KF-C14-med-static-ob         medium-obliquity static coefficient is -1/3 - e^2/2 + obl/2; the expansion of the general
        one ((-1/3-e^2/2)(cos^4+sin^4) + (4/3+2e^2) cos^2 sin^2 of obl/2) is + obl^2/2: first-order difference.
  KF-C14-gen-2n-typo           general-obliquity '2n' coefficient `(-2. + 11.) * cos2_sin2` should be
        `(-2. + 11. * e2) * cos2_sin2` (Kaula: F_200 G_200, F_201 G_21+-2): second-order difference vs medium; also
        in the low-e variant, where the correct first-order-in-e value is -2 cos2_sin2.
  KF-C14-low-e-o-term          low-e general-obliquity 'o' coefficient is (-2/3) sin^3 cos only; the (2/3) cos^3 sin half
        (the dominant obliquity tide, F_211 G_210) is missing: zeroth-order difference vs `gen_modes` as e -> 0.

Sensitivity (tools/mut.py on a scratch copy, quick tier with --cases 2000; every mutant CAUGHT, clauses that fired listed):
  synchronous_low_e.py   `(-12. * np.cos(orbital_frequency * time)` -> `(+12. * ...` (the slip the source comment
                         mentions)                                    -> deriv/Upp + laplace simple, sync
  nsr_modes_med_eccen_no_obliquity.py  `sine_2long_coeff_dphi = -2. * cos_dbl_long` -> `-2. * sin_dbl_long` (sin<->cos in
                         the d/dphi term)                             -> deriv/Up of all five P22 modes of nsr_modes
  nsr_med_eccen_gen_obliquity.py  `dp2_22_dtheta2 = 6. * (cos2_lat - sin2_lat)` -> `3. * (...)` (wrong factor in a second
                         derivative)                                  -> deriv/Utt + laplace gen, modal_sum, zero_obl
  nsr_med_eccen_med_obliquity.py  `dp_20_dtheta = -3. * cos_lat * sin_lat` -> `-3. * cos_lat * cos_lat`
                                                                      -> deriv/Ut, deriv/Utt, laplace med, modal_sum
  nsr_modes_med_eccen_med_obliquity.py  `(7. / 12.) * e - (41. / 32.) * e3 - (7. / 24.) * e * ob2` -> `(5. / 12.) * e ...`
                                                                      -> modal_sum, zero_obl[2o-3n], med_gen[2o-3n]
  nsr_med_eccen_no_obliquity.py  `(17. / 12.) * e2,` -> `(17. / 12.) * e,` -> modal_sum, sync (ratio 2), zero_obl
  nsr_modes_low_eccen_gen_obliquity.py  `((7. / 3.) * e) * sin3_cos` -> `((7. / 3.)) * sin3_cos` -> low_e[o+3n]
  out/proposed-fix-C14-{1,2,3,4}.diff each applied alone (tools/mut.py --patch): rc 0, the corresponding known finding
  is no longer reproduced, nothing new appears.
Margins re-measured with the final generator (2500 generated cases, unchanged tree): no deriv/laplace/modal_sum/zero_obl
failure with all tolerances tightened 10x; deriv none even at 100x; laplace first failures at 30x.
"""
import math
import warnings

import numpy as np
from hypothesis import strategies as st

from vlib.result import Collector, repo_call

ID = 'C14'
TECHNIQUE = ('property-based testing (Hypothesis): point-wise identities (surface Laplace), 6th-order finite-difference '
             'oracle, modal-sum differential, two-scale order-of-convergence tests for the limiting reductions')
LEVEL = 'exploration'
LEVEL_TEXT = ('Generated-point exploration over colatitude, longitude, time, n, spin (incl. +-n, 0, 3n/2, 2n), e<=0.4, obliquity, '
              'masses/radii and the static flag for all 8 implementations and all their modes: derivative consistency, the '
              'degree-2 Laplace identity, modal sums and the limiting reductions hold on every generated point except where a '
              'listed known finding applies; it does not say the potentials equal the physical tidal potential, nor anything '
              'about ungenerated points.')
LEVEL_NOTE = ('Trusts numpy double arithmetic and the finite-difference error budget stated in the module docstring; generated '
              'cases run the un-jitted source (py_func re-bound to a copy of its globals with the numba alias bool_ replaced by numpy.bool_); the compiled '
              'dispatchers are exercised in 8 fixed cases (quick) / 10% of generated cases (thorough) and compared with the '
              'un-jitted result. "To second order in obliquity" is decided with e scaled jointly with the obliquity (the '
              'documented total-degree-3 truncation); at fixed e>0 the medium variants differ from the general ones by e^3*obl.')
CASES = {'quick': 4000, 'thorough': 600000}
SHARDS = {'quick': 8, 'thorough': 16}
G_SI = 6.6743e-11  # only used for the tolerance scale; the value under test comes from TidalPy.constants

H = 5e-3
W1 = np.array([-1.0, 9.0, -45.0, 0.0, 45.0, -9.0, 1.0]) / 60.0
TOL_FD = 1e-9
TOL_LAP = 2e-12
TOL_SUM = 1e-12
TOL_EXACT = 1e-14
TOL_JIT = 1e-13
TOL_VEC = 16 * 2.0 ** -52   # array call vs element-by-element scalar calls: 16 ulp of the mode's magnitude / sin^3(colatitude)
FLOOR = 1e-11
RATIO_3RD = 2.0 ** 2.5
RATIO_2ND = 2.0 ** 1.5
COLAT_MIN = 0.05
ABS_FLOOR = 1e-300  # absolute slack (potential units; the scale G M R^2/a^3 is >= 6e-12): subnormal values carry no relative precision
E_MIN = 1e-6     # e and obliquity are 0 or >= 1e-6: below that e^3 terms become subnormal doubles (rounding noise only)

RULE = ('Hypothesis draws kind (derivs 45% | array 18% (per-point arrays of e, obliquity, time with exact zeros at elements chosen by Hypothesis) | zero_obl | med_gen | sync | low_e), family, 1..3 points (colatitude in [0.05, pi-0.05], '
        'longitude in [0, 2pi)), time in [0,3] orbital periods, n = 10^[-7,-3.5] rad/s, spin = n*ratio (ratio in [-3,3] | 1 | -1 | 0 | '
        '1.5 | 2) or k*n/2 +- 10^[-22,-6] rad/s with |k|<=10 (next to a spin-orbit resonance), e in {0} u [1e-6,0.4], obliquity in {0} u [1e-6,1.6] (smaller non-zero values only produce subnormal e^3 terms), host mass 10^[22,31] kg, a 10^[7.5,11] m, R '
        '10^[5,8] m, use_static, call path (py arrays | py scalars | jit); two-scale kinds draw obliquity in [0.02,0.2], kappa = e/obl '
        'in {0} u [0.2,2], e in [0.01,0.2]. Non-trivial = e > 0.01 and spin != n and obliquity > 0.01 where the kind/family takes '
        'them (sync: e > 0.01 only; low_e: obliquity > 0.01; med_gen: always; array: max e > 0.01 and an exact zero next to a non-zero element in e or obliquity); distinct = distinct argument dict.')
ASSUMPTIONS = ['finite differences: 6th-order central, h=5e-3, truncation <= 1.4e-14*S, rounding <= 3e-11*S, tolerance 1e-9*S',
               'Laplace identity tolerance 2e-12 relative to the sum of the magnitudes of its four terms (measured 6.8e-14)',
               'modal sum 1e-12 relative (measured 6e-16); zero-obliquity equality 1e-14*scale (measured bit-identical)',
               'array call vs element-wise scalar calls: 16 ulp of the mode magnitude / sin^3(colatitude) (no failure at 1.6 ulp in 1100 cases)',
               'two-scale ratio tests: D(l)/D(l/2) >= 2^2.5 for O(l^3), >= 2^1.5 for O(e^2); floor 1e-11; no magnitude bound (orders of convergence only)',
               'medium-vs-general obliquity: e scaled jointly with obliquity (total-degree-3 truncation), plus pure-obliquity cases e=0']

IMPL = {
    'simple': ('tidal_potential_simple', 'simple', None),
    'nsr': ('tidal_potential_nsr', 'no_obl', None),
    'nsr_modes': ('tidal_potential_nsr_modes', 'no_obl', 'nsr'),
    'med': ('tidal_potential_obliquity_nsr', 'med_obl', None),
    'med_modes': ('tidal_potential_obliquity_nsr_modes', 'med_obl', 'med'),
    'gen': ('tidal_potential_gen_obliquity_nsr', 'gen_obl', None),
    'gen_modes': ('tidal_potential_gen_obliquity_nsr_modes', 'gen_obl', 'gen'),
    'low_e_modes': ('tidal_potential_gen_obliquity_low_e_nsr_modes', 'low_e', None),
}
FAMILIES = {'simple': ['simple'], 'no_obl': ['nsr', 'nsr_modes'], 'med_obl': ['med', 'med_modes'],
            'gen_obl': ['gen', 'gen_modes'], 'low_e': ['low_e_modes']}
KINDS = ['derivs', 'zero_obl', 'med_gen', 'sync', 'low_e', 'array']
SPINS = ['ratio', 'sync', 'anti', 'zero', 'three_half', 'double', 'near']
RES_K = 10          # spin-orbit resonances o = k n / 2, |k| <= 10: the zeros of the modes 2o -+ k n (k <= 5) and o -+ k n (k <= 5)
SWITCH_ULPS = 8.0   # ambiguity window of the zero-frequency switch, in ulp of max(|2o|, 5|n|) (see docstring)
COMP = ['U', 'Ut', 'Up', 'Utt', 'Upp', 'Utp']

warnings.filterwarnings('ignore', message='.*parallel=True.*')
try:
    from numba.core.errors import NumbaPerformanceWarning
    warnings.simplefilter('ignore', NumbaPerformanceWarning)
except Exception:  # pragma: no cover
    pass

_funcs = {}


def _interpreted(f):
    """Un-jitted twin of `f` that the interpreter can run: getattr(f, 'py_func', f) re-bound to a COPY of its globals in
    which a numba scalar type used as a numpy dtype (the alias `bool_`, which numpy cannot interpret) is replaced by
    the numpy type of the same name.  The repository module itself is never modified."""
    import types
    pf = getattr(f, 'py_func', f)
    if not isinstance(pf, types.FunctionType):
        return pf
    g = dict(pf.__globals__)
    for name, val in list(g.items()):
        if type(val).__module__.split('.')[0] == 'numba' and hasattr(np, name) and isinstance(getattr(np, name), type):
            try:
                np.dtype(val)
            except TypeError:
                g[name] = getattr(np, name)
    twin = types.FunctionType(pf.__code__, g, pf.__name__, pf.__defaults__, pf.__closure__)
    twin.__kwdefaults__ = pf.__kwdefaults__
    return twin


def _func(impl):
    """(dispatcher, interpreted twin) of an implementation."""
    if impl not in _funcs:
        from TidalPy.tides import potential as P
        disp = getattr(P, IMPL[impl][0])
        _funcs[impl] = (disp, _interpreted(disp))
    return _funcs[impl]


def _cache_safe(f, args):
    """Call a numba dispatcher; if numba's on-disk cache directory vanished underneath us (another harness process
    pruned /verif/.nbcache while this one was compiling) recreate it and retry - an infrastructure race, not a
    property of the code under test."""
    import os
    for attempt in range(3):
        try:
            return f(*args)
        except OSError as ex:
            from vlib.result import HarnessError
            if 'nbcache' not in str(ex) or attempt == 2:
                raise HarnessError('numba cache I/O failed: %s' % ex)
            if ex.filename:
                os.makedirs(os.path.dirname(str(ex.filename)), exist_ok=True)


def _args(impl, R, lon, col, tm, n, o, e, ob, M, a, static):
    fam = IMPL[impl][1]
    if fam == 'simple':
        return (R, lon, col, tm, n, e, M, a)
    if fam == 'no_obl':
        return (R, lon, col, tm, n, o, e, M, a, static)
    return (R, lon, col, tm, n, o, e, ob, M, a, static)


def _call(impl, path, lon, col, tm, P, e=None, ob=None, static=None, o=None):
    """-> {mode: array (6, npoints)} for flat point arrays lon/col/tm."""
    R, n, M, a = P['R'], P['n'], P['M'], P['a']
    e = P['e'] if e is None else e
    ob = P['ob'] if ob is None else ob
    o = P['o'] if o is None else o
    static = P['static'] if static is None else static
    disp, pyf = _func(impl)
    npts = len(lon)
    e_arr = isinstance(e, np.ndarray)
    ob_arr = isinstance(ob, np.ndarray)
    with repo_call('%s[%s%s]' % (IMPL[impl][0], path, ',array e/obliquity' if (e_arr or ob_arr) else '')):
        if path == 'py_scalar':
            outs = [pyf(*_args(impl, R, float(lon[i]), float(col[i]), float(tm[i]), n, o, float(e[i]) if e_arr else e,
                           float(ob[i]) if ob_arr else ob, M, a, static))[2]
                    for i in range(npts)]
            keys = list(outs[0].keys())
            res = {k: np.array([[float(out[k][j]) for out in outs] for j in range(6)]) for k in keys}
        else:
            f = disp if path == 'jit' else pyf
            shp = (1, 1, npts) if path == 'jit' else (npts,)
            args = _args(impl, R, np.ascontiguousarray(lon.reshape(shp)), np.ascontiguousarray(col.reshape(shp)),
                         np.ascontiguousarray(tm.reshape(shp)), n, o,
                         np.ascontiguousarray(e.reshape(shp)) if e_arr else e,
                         np.ascontiguousarray(ob.reshape(shp)) if ob_arr else ob, M, a, static)
            r = _cache_safe(f, args)
            freqs, modes, tup = r
            res = {}
            for k in tup.keys():
                v = tup[k]
                res[str(k)] = np.array([np.broadcast_to(np.asarray(v[j], dtype=float), shp).reshape(npts) for j in range(6)])
    return res


def selftest():
    # finite-difference stencil: exact for polynomials up to degree 6, error estimate for sin(2x)
    x0 = 0.7
    xs = x0 + H * np.arange(-3, 4)
    for deg in range(7):
        d = float(np.dot(W1, xs ** deg)) / H
        ex = deg * x0 ** (deg - 1) if deg else 0.0
        assert abs(d - ex) < 1e-11, (deg, d, ex)
    d = float(np.dot(W1, np.sin(2 * xs))) / H
    assert abs(d - 2 * math.cos(2 * x0)) < 1e-12
    # Laplace identity on the degree-2 harmonics themselves
    t, p = 0.9, 0.4
    for U, Ut, Utt, Upp in (((3 * math.cos(t) ** 2 - 1) / 2, -3 * math.cos(t) * math.sin(t), -3 * math.cos(2 * t), 0.0),
                            (math.sin(t) ** 2 * math.cos(2 * p), math.sin(2 * t) * math.cos(2 * p), 2 * math.cos(2 * t) * math.cos(2 * p),
                             -4 * math.sin(t) ** 2 * math.cos(2 * p)),
                            (math.sin(t) * math.cos(t) * math.sin(p), math.cos(2 * t) * math.sin(p), -2 * math.sin(2 * t) * math.sin(p),
                             -math.sin(t) * math.cos(t) * math.sin(p))):
        assert abs(Utt + Ut * math.cos(t) / math.sin(t) + Upp / math.sin(t) ** 2 + 6 * U) < 1e-13
    # two-scale logic
    assert _ratio_verdict(1e-3, 1e-3 / 16, RATIO_3RD)[0] and not _ratio_verdict(1e-3, 1e-3 / 4, RATIO_3RD)[0]
    assert _ratio_verdict(1e-13, 1e-13, RATIO_3RD)[0]


def _ratio_verdict(d1, d2, need):
    """(ok, ratio).  d1 at lambda, d2 at lambda/2, both in units of the scale."""
    if d1 <= FLOOR:
        return True, float('nan')
    if d2 <= 0.0:
        return True, float('inf')
    r = d1 / d2
    return r >= need, r


# ---- generator -------------------------------------------------------------------------------------------------------

def in_domain(case):
    try:
        ok = case['kind'] in KINDS and case['family'] in FAMILIES and case['path'] in ('py', 'py_scalar', 'jit')
        ok = ok and 1 <= len(case['pts']) <= 6 and all(COLAT_MIN <= p[0] <= math.pi - COLAT_MIN and 0.0 <= p[1] <= 2 * math.pi
                                                        for p in case['pts'])
        ok = ok and 0.0 <= case['tau'] <= 3.0 and -7.0 <= case['logn'] <= -3.5 and case['spin'] in SPINS \
            and (case['spin'] != 'near' or (abs(int(case['res_k'])) <= RES_K and -22.0 <= case['dlog'] <= -6.0
                                            and case['dsign'] in (-1, 1))) \
            and -3.0 <= case['ratio'] <= 3.0 and (case['e'] == 0.0 or E_MIN <= case['e'] <= 0.4) \
            and (case['obl'] == 0.0 or E_MIN <= case['obl'] <= 1.6) \
            and 22.0 <= case['logM'] <= 31.0 and 7.5 <= case['loga'] <= 11.0 and 5.0 <= case['logR'] <= 8.0 \
            and isinstance(case['use_static'], bool) and 0.02 <= case['obl2'] <= 0.2 and 0.0 <= case['kappa'] <= 2.0 \
            and 0.01 <= case['e2'] <= 0.2 and (case.get('only') is None or case['only'] in IMPL)
        if case['kind'] == 'array':
            k = len(case['pts'])
            ok = ok and len(case['evec']) == k and len(case['obvec']) == k and len(case['tauvec']) == k \
                and all(x == 0.0 or E_MIN <= x <= 0.4 for x in case['evec']) \
                and all(x == 0.0 or E_MIN <= x <= 1.6 for x in case['obvec']) and all(0.0 <= x <= 3.0 for x in case['tauvec'])
        return bool(ok)
    except Exception:
        return False


class _Spread:
    """Uniform variates derived deterministically (blake2b) from the values Hypothesis drew for a case.
    Why: st.floats / st.integers and the engine's example mutation are deliberately biased towards 0, boundaries, tiny
    magnitudes and repeated values - with plain st.floats 70% of the generated eccentricities were <= 0.01 and the
    non-trivial rule (e > 0.01, obliquity > 0.01) was met by a third of the cases.  Hypothesis therefore draws the discrete
    structure of a case (kind, family, spin class, flags, which parameters sit on a special value) plus salts, and the
    continuous coordinates are a hash of exactly those draws: every random choice still comes from the (seeded)
    strategy, the case written to a replay file holds the final numbers."""

    def __init__(self, drawn):
        import hashlib
        import json
        self._h = hashlib.blake2b(json.dumps(drawn, sort_keys=True, default=repr).encode(), digest_size=32).digest()
        self._i = 0

    def u(self, lo=0.0, hi=1.0):
        import hashlib
        self._i += 1
        d = hashlib.blake2b(self._h + self._i.to_bytes(4, 'little'), digest_size=8).digest()
        return lo + (hi - lo) * (int.from_bytes(d, 'little') >> 11) / float(1 << 53)


def _fill(d):
    r = _Spread(d)
    pts = []
    for j in range(d['npts']):
        if d['pole'] and j == 0:
            th = r.u(COLAT_MIN, 0.15) if r.u() < 0.5 else r.u(math.pi - 0.15, math.pi - COLAT_MIN)
        else:
            th = r.u(COLAT_MIN, math.pi - COLAT_MIN)
        pts.append([th, r.u(0.0, 2 * math.pi)])
    if d['kind'] == 'array':
        # per-element eccentricity / obliquity / time (documented type FloatArray): Hypothesis chooses which elements are exact zeros
        while len(pts) < len(d['vec']):
            pts.append([r.u(COLAT_MIN, math.pi - COLAT_MIN), r.u(0.0, 2 * math.pi)])
        pts = pts[:len(d['vec'])]
    evec = [0.0 if v[0] == 'zero' else (r.u(E_MIN, 0.02) if v[0] == 'small' else r.u(E_MIN, 0.4)) for v in d['vec']]
    obvec = [0.0 if v[1] == 'zero' else (r.u(E_MIN, 0.02) if v[1] == 'small' else r.u(E_MIN, 1.6)) for v in d['vec']]
    tauvec = [0.0 if v[2] == 'zero' else r.u(0.0, 3.0) for v in d['vec']]
    e = {'u': r.u(E_MIN, 0.4), 'small': r.u(E_MIN, 0.02), 'zero': 0.0}[d['e_kind']]
    ob = {'u': r.u(E_MIN, 1.6), 'mid': r.u(E_MIN, 0.3), 'small': r.u(E_MIN, 0.01), 'zero': 0.0}[d['obl_kind']]
    return {'kind': d['kind'], 'family': d['family'], 'only': None, 'pts': pts, 'tau': r.u(0.0, 3.0), 'logn': r.u(-7.0, -3.5),
            'spin': d['spin'], 'ratio': r.u(-3.0, 3.0), 'res_k': d['res_k'], 'dlog': r.u(-22.0, -6.0), 'dsign': d['dsign'], 'e': e, 'obl': ob, 'logM': r.u(22.0, 31.0), 'loga': r.u(7.5, 11.0),
            'logR': r.u(5.0, 8.0), 'use_static': d['use_static'], 'path': d['path'], 'obl2': r.u(0.02, 0.2),
            'kappa': 0.0 if d['pure_obliquity'] else r.u(0.2, 2.0), 'e2': r.u(0.01, 0.2),
            'evec': evec if d['kind'] == 'array' else None, 'obvec': obvec if d['kind'] == 'array' else None,
            'tauvec': tauvec if d['kind'] == 'array' else None}


def strategy(tier):
    kinds = ['derivs'] * 10 + ['zero_obl'] * 2 + ['med_gen'] * 2 + ['sync'] * 2 + ['low_e'] * 2 + ['array'] * 4
    elem = st.tuples(st.sampled_from(['u', 'u', 'small', 'zero', 'zero']), st.sampled_from(['u', 'u', 'small', 'zero', 'zero']),
                     st.sampled_from(['u', 'u', 'u', 'zero'])).map(list)
    fams = ['simple', 'no_obl', 'no_obl', 'med_obl', 'med_obl', 'gen_obl', 'gen_obl', 'low_e', 'low_e']
    paths = ['py'] * 17 + ['py_scalar'] * 3 if tier == 'quick' else ['py'] * 15 + ['py_scalar'] * 3 + ['jit'] * 2
    return st.fixed_dictionaries({
        'kind': st.sampled_from(kinds), 'family': st.sampled_from(fams), 'npts': st.integers(1, 3),
        'pole': st.sampled_from([False, False, False, True]),
        'spin': st.sampled_from(['ratio'] * 7 + SPINS[1:6] + ['near'] * 5),
        'res_k': st.sampled_from(list(range(-RES_K, RES_K + 1))), 'dsign': st.sampled_from([-1, 1]),
        'e_kind': st.sampled_from(['u'] * 8 + ['small', 'zero']),
        'obl_kind': st.sampled_from(['u'] * 6 + ['mid'] * 2 + ['small', 'zero']),
        'use_static': st.booleans(), 'path': st.sampled_from(paths),
        'pure_obliquity': st.sampled_from([True, False, False, False]),
        'vec': st.lists(elem, min_size=2, max_size=5),
        'salt': st.tuples(st.integers(0, 2 ** 48), st.floats(0.0, 1.0), st.integers(0, 1023)),
    }).map(_fill)


def _base(**kw):
    c = {'kind': 'derivs', 'family': 'no_obl', 'only': None, 'pts': [[1.1, 0.7], [2.4, 4.0], [0.06, 5.5]], 'tau': 0.77,
         'logn': -5.0, 'spin': 'ratio', 'ratio': 1.37, 'res_k': 2, 'dlog': -12.0, 'dsign': 1, 'e': 0.23, 'obl': 0.41, 'logM': 27.0, 'loga': 8.7, 'logR': 6.2,
         'use_static': False, 'path': 'py', 'obl2': 0.1, 'kappa': 1.0, 'e2': 0.1, 'evec': None, 'obvec': None, 'tauvec': None}
    c.update(kw)
    if c['kind'] == 'array' and c['evec'] is None:
        c.update(pts=[[1.1, 0.7], [2.4, 4.0], [0.06, 5.5], [1.9, 2.2]], evec=[0.0, 0.23, 0.05, 0.31], obvec=[0.41, 0.0, 0.0, 0.17],
                 tauvec=[0.77, 0.0, 1.3, 2.1])
    return c


def fixed_cases(tier):
    out = []
    for impl in IMPL:                      # one compiled-dispatcher case per implementation
        out.append(_base(family=IMPL[impl][1], only=impl, path='jit', use_static=(impl in ('med', 'gen_modes'))))
    for fam in FAMILIES:
        for static in (False, True):
            out.append(_base(family=fam, use_static=static))
    for kind in KINDS[1:]:
        for static in (False, True):
            out.append(_base(kind=kind, use_static=static))
        out.append(_base(kind=kind, kappa=0.0, spin='sync'))
    # spins NEXT TO a spin-orbit resonance (offset in rad/s), so that a mode frequency lies below / above the 1e-10 cut-off
    for k, dlog, sign in ((2, -12.0, 1), (2, -15.5, -1), (3, -12.3, 1), (4, -10.8, 1), (-2, -13.0, -1), (1, -9.5, 1), (2, -20.0, 1)):
        near = dict(spin='near', res_k=k, dlog=dlog, dsign=sign)
        for fam in ('no_obl', 'med_obl', 'gen_obl'):
            out.append(_base(family=fam, use_static=False, **near))
        out.append(_base(kind='zero_obl', use_static=False, **near))
        out.append(_base(kind='array', family='gen_obl', use_static=False, **near))
    out.append(_base(kind='med_gen', use_static=False, spin='near', res_k=2, dlog=-12.0, dsign=1))
    out.append(_base(kind='low_e', use_static=False, spin='near', res_k=3, dlog=-11.5, dsign=-1))
    for fam in FAMILIES:                   # array-valued e / obliquity / time with exact zeros at some elements
        for static in (False, True):
            out.append(_base(kind='array', family=fam, use_static=static))
    if tier == 'thorough':                 # the same through the compiled dispatchers (8 further signatures, ~95 s cold)
        for impl in IMPL:
            out.append(_base(kind='array', family=IMPL[impl][1], only=impl, path='jit'))
    return out


def required_labels(tier):
    return ['kind:' + k for k in KINDS] + ['impl:' + i for i in IMPL] + ['path:py', 'path:py_scalar', 'path:jit',
           'static:on', 'static:off', 'spin:sync', 'spin:anti', 'spin:zero', 'spin:generic', 'e:zero', 'obl:zero',
           'twoscale:pure_obliquity', 'twoscale:joint', 'colat:near_pole', 'vec:e_mixed_zero', 'vec:obl_mixed_zero',
           'vec:time_zero', 'spin:near_resonance', 'near:prograde', 'near:retrograde', 'near:mode_below_cutoff,static_off',
           'near:modes_above_cutoff', 'near:offset_lost_in_rounding'] + ['array:' + i for i in IMPL]


def warm():
    lon = np.array([0.3, 0.4])
    P = {'R': 1e6, 'n': 1e-5, 'o': 1.3e-5, 'e': 0.1, 'ob': 0.2, 'M': 1e27, 'a': 1e9, 'static': False}
    for impl in IMPL:
        _call(impl, 'jit', lon, lon + 0.5, lon * 100.0, P)


# ---- helpers ---------------------------------------------------------------------------------------------------------

def _params(case):
    n = 10.0 ** float(case['logn'])
    if case['spin'] == 'near':
        # a log-uniform OFFSET (rad/s, either sign) from the spin-orbit resonance o = k n / 2
        o = n * (int(case['res_k']) / 2.0) + int(case['dsign']) * 10.0 ** float(case['dlog'])
        ratio = o / n
    else:
        ratio = {'ratio': float(case['ratio']), 'sync': 1.0, 'anti': -1.0, 'zero': 0.0, 'three_half': 1.5, 'double': 2.0}[case['spin']]
        o = n * ratio
    R, M, a = 10.0 ** float(case['logR']), 10.0 ** float(case['logM']), 10.0 ** float(case['loga'])
    return {'n': n, 'o': o, 'ratio': ratio, 'R': R, 'M': M, 'a': a, 'e': float(case['e']), 'ob': float(case['obl']),
            'static': bool(case['use_static']), 'sc': G_SI * M * R * R / a ** 3, 't': float(case['tau']) * 2.0 * math.pi / n}


def _mode_frequencies(P):
    """|a o + b n| for every mode any variant uses (a in 0..2, |b| <= 5), computed like the sources do (a*o + b*n in doubles)."""
    o, n = P['o'], P['n']
    return [abs(a * o + b * n) for a in (0.0, 1.0, 2.0) for b in range(-5, 6) if (a, b) != (0.0, 0)]


def _switch_state(P):
    """(ambiguous, below): `use_static=False` switches a mode off when |frequency| <= MIN_SPIN_ORBITAL_DIFF (1e-10 rad/s, the
    repository's constant).  All eight implementations use the same absolute cut-off, but a mode frequency is a rounded
    difference a*o + b*n whose rounding error is up to a few ulp of max(|2o|, 5|n|) and may depend on the order of the
    operations an implementation uses; a frequency closer to the cut-off than SWITCH_ULPS of that magnitude may therefore
    legitimately fall on different sides in two implementations -> `ambiguous`, the case is not judged.  `below` = some mode
    has 0 < |frequency| <= cut-off (switched off although the spin is not exactly on the resonance)."""
    from TidalPy.tides.potential import MIN_SPIN_ORBITAL_DIFF as thr
    win = SWITCH_ULPS * 2.0 ** -52 * max(abs(2.0 * P['o']), 5.0 * abs(P['n']))
    fr = _mode_frequencies(P)
    return any(abs(f - thr) <= win for f in fr), any(0.0 < f <= thr for f in fr)


def _generic_spin(P):
    """a spin rate for which no mode of any variant has zero frequency (k/2 multiples of n avoided)."""
    r = P['ratio']
    if abs(2.0 * r - round(2.0 * r)) < 2e-3:
        r = r + 0.0137
    return P['n'] * r


def _stencil(pts):
    col, lon = [], []
    for th, ph in pts:
        col += [th + H * k for k in range(-3, 4)] + [th] * 7
        lon += [ph] * 7 + [ph + H * k for k in range(-3, 4)]
    return np.asarray(col, dtype=float), np.asarray(lon, dtype=float)


def _norm(D, sc):
    return float(np.max(np.abs(D))) / sc if np.size(D) else 0.0


def _check_mode_derivs(c, impl, mode, T, pts, P, per_block=False):
    """T: (6, 14*npts).  Laplace identity and finite differences for one mode of one implementation.  per_block: the
    points carry different eccentricities/obliquities, so the magnitude S is taken per point (its own 14-point stencil)."""
    S = float(np.max(np.abs(T)))
    if not np.all(np.isfinite(T)):
        c.fail({'clause': 'finite', 'impl': impl, 'mode': mode}, 'non-finite values returned')
        return
    if P['static'] and IMPL[impl][1] != 'simple':
        S = max(S, P['sc'])
    static_floor = P['sc'] if (P['static'] and IMPL[impl][1] != 'simple') else 0.0
    for i, (th, ph) in enumerate(pts):
        blk = T[:, 14 * i:14 * i + 14]
        if per_block:
            S = max(float(np.max(np.abs(blk))), static_floor)
        U, Ut, Up, Utt, Upp, Utp = (blk[j] for j in range(6))
        TH, PH, cpt = slice(0, 7), slice(7, 14), 3
        s, co = math.sin(th), math.cos(th)
        terms = (Utt[cpt], Ut[cpt] * co / s, Upp[cpt] / (s * s), 6.0 * U[cpt])
        lap = terms[0] + terms[1] + terms[2] + terms[3]
        slap = sum(abs(x) for x in terms) + (6.0 * P['sc'] if (P['static'] and IMPL[impl][1] != 'simple') else 0.0)
        c.check(abs(lap) <= TOL_LAP * slap + ABS_FLOOR, {'clause': 'laplace', 'impl': impl, 'mode': mode},
                '%s[%s] colat=%r lon=%r: U_tt+cot U_t+U_pp/sin^2+6U = %.6e, terms %r (residual/sum|terms| = %.2e > %.0e)'
                % (impl, mode, th, ph, lap, terms, abs(lap) / slap if slap else float('inf'), TOL_LAP))
        fd = {'Ut': (float(np.dot(W1, U[TH])) / H, Ut[cpt]), 'Up': (float(np.dot(W1, U[PH])) / H, Up[cpt]),
              'Utt': (float(np.dot(W1, Ut[TH])) / H, Utt[cpt]), 'Upp': (float(np.dot(W1, Up[PH])) / H, Upp[cpt]),
              'Utp': (float(np.dot(W1, Ut[PH])) / H, Utp[cpt]), 'Utp_b': (float(np.dot(W1, Up[TH])) / H, Utp[cpt])}
        for name, (num, ret) in fd.items():
            c.check(abs(num - ret) <= TOL_FD * S + ABS_FLOOR / H, {'clause': 'deriv', 'impl': impl, 'mode': mode, 'component': name.split('_')[0]},
                    '%s[%s] colat=%r lon=%r: returned %s = %.12e, 6th-order central difference (h=%g) of the returned %s = %.12e, '
                    '|diff|/S = %.2e > %.0e (S=%.4e)' % (impl, mode, th, ph, name.split('_')[0], ret, H,
                                                         'U' if name in ('Ut', 'Up') else ('Ut' if name in ('Utt', 'Utp') else 'Up'),
                                                         num, abs(num - ret) / S if S else float('inf'), TOL_FD, S))


def _total(res):
    """sum over whatever keys an implementation returns (a non-modal variant returns one key today; nothing here
    depends on its name or on the number of modes of the modal variants)"""
    tot = 0.0
    for T in res.values():
        tot = tot + T
    return tot


def _modal_static(res_static, res_plain):
    """Static (time-independent) term carried by a modal variant = the largest per-mode difference between
    use_static=True and use_static=False (evaluated at a spin for which no mode has zero frequency).  Works whether
    the term is replicated in every mode (known finding), carried by one mode, or by a dedicated extra mode."""
    best, bn = 0.0, -1.0
    for k, T in res_static.items():
        d = T - res_plain[k] if k in res_plain else T
        nn = float(np.max(np.abs(d)))
        if nn > bn:
            best, bn = d, nn
    return best


def _static_part(nonmodal_impl, path, lon, col, tm, P, e=None, ob=None):
    og = _generic_spin(P)
    a = _total(_call(nonmodal_impl, path, lon, col, tm, P, e=e, ob=ob, static=True, o=og))
    b = _total(_call(nonmodal_impl, path, lon, col, tm, P, e=e, ob=ob, static=False, o=og))
    return a - b


def _check_modal_sum(c, modal, res_modal, res_nonmodal, path, lon, col, tm, P, e=None, ob=None):
    nonmodal = IMPL[modal][2]
    tot = _total(res_modal)
    ssum = sum(float(np.max(np.abs(T))) for T in res_modal.values())
    ref = _total(res_nonmodal)
    n_modes = len(res_modal)
    if ssum == 0.0 and not np.any(ref):
        return
    err = float(np.max(np.abs(tot - ref)))
    if err <= TOL_SUM * max(ssum, float(np.max(np.abs(ref)))):
        return
    detail = '%s: sum of %d modes differs from %s by %.3e (relative to sum of mode magnitudes %.3e: %.2e), use_static=%s' \
             % (modal, n_modes, nonmodal, err, ssum, err / ssum if ssum else float('inf'), P['static'])
    if P['static']:
        # is the residual exactly (N-1) copies of the static term?  (known finding) - keep searching behind it
        stat = _static_part(nonmodal, 'py' if path == 'jit' else path, lon, col, tm, P, e=e, ob=ob)
        err2 = float(np.max(np.abs(tot - (n_modes - 1) * stat - ref)))
        if err2 <= 1e-11 * max(ssum, P['sc']):
            c.fail({'clause': 'modal_sum', 'impl': modal, 'static': True, 'kind': 'static_term_in_every_mode'},
                   detail + '; residual == %d x static term (to %.1e)' % (n_modes - 1, err2 / max(ssum, P['sc'])))
            return
        detail += '; NOT explained by the replicated static term (remaining %.3e)' % err2
    c.fail({'clause': 'modal_sum', 'impl': modal, 'static': P['static'], 'kind': 'mismatch'}, detail)


# ---- kinds -----------------------------------------------------------------------------------------------------------

def _eval_derivs(case, c, P, path):
    pts = [(float(p[0]), float(p[1])) for p in case['pts']]
    col, lon = _stencil(pts)
    tm = np.full(col.shape, P['t'])
    impls = [case['only']] if case.get('only') else FAMILIES[case['family']]
    res = {}
    for impl in impls:
        c.label('impl:' + impl)
        res[impl] = _call(impl, path, lon, col, tm, P)
        if path == 'jit':
            ref = _call(impl, 'py', lon, col, tm, P)
            c.check(set(ref) == set(res[impl]), {'clause': 'jit_vs_py', 'impl': impl, 'kind': 'keys'}, 'mode names differ')
            for k in ref:
                if k in res[impl]:
                    S = max(float(np.max(np.abs(ref[k]))), P['sc'] if P['static'] else 0.0)
                    d = float(np.max(np.abs(ref[k] - res[impl][k])))
                    c.check(d <= TOL_JIT * S, {'clause': 'jit_vs_py', 'impl': impl, 'mode': k},
                            '%s[%s]: compiled and un-jitted results differ by %.3e (S=%.3e)' % (impl, k, d, S))
        for mode, T in res[impl].items():
            _check_mode_derivs(c, impl, mode, T, pts, P)
    for impl in impls:
        nonmodal = IMPL[impl][2]
        if nonmodal is not None and nonmodal in res:
            _check_modal_sum(c, impl, res[impl], res[nonmodal], path, lon, col, tm, P)


def _points(case):
    pts = [(float(p[0]), float(p[1])) for p in case['pts']]
    # reductions use plain points (no stencil); add two fixed companions so that a node of one pattern cannot hide a term
    pts = pts + [(0.9, 0.35), (2.05, 3.9), (1.45, 5.1)]
    col = np.asarray([p[0] for p in pts])
    lon = np.asarray([p[1] for p in pts])
    return col, lon


def _eval_zero_obl(case, c, P, path):
    col, lon = _points(case)
    tm = np.full(col.shape, P['t'])
    sc = P['sc']
    base = _total(_call('nsr', path, lon, col, tm, P))
    base_m = _call('nsr_modes', path, lon, col, tm, P)
    stat = None
    if P['static']:
        og = _generic_spin(P)
        stat = _modal_static(_call('nsr_modes', path, lon, col, tm, P, static=True, o=og),
                             _call('nsr_modes', path, lon, col, tm, P, static=False, o=og))
    for impl in ('med', 'gen'):
        c.label('impl:' + impl)
        d = _norm(_total(_call(impl, path, lon, col, tm, P, ob=0.0)) - base, sc)
        c.check(d <= TOL_EXACT, {'clause': 'zero_obl', 'impl': impl}, '%s(obliquity=0) - nsr = %.3e scale' % (impl, d))
    for impl in ('med_modes', 'gen_modes'):
        c.label('impl:' + impl)
        r = _call(impl, path, lon, col, tm, P, ob=0.0)
        for k in base_m:
            if k not in r:       # a mode the obliquity variant does not return counts as zero
                d = _norm(base_m[k], sc) if stat is None else min(_norm(base_m[k], sc), _norm(base_m[k] - stat, sc))
                c.check(d <= TOL_EXACT, {'clause': 'zero_obl', 'impl': impl, 'mode': k, 'kind': 'missing_mode_nonzero'},
                        '%s has no mode %s but nsr_modes[%s] is non-zero (%.3e scale)' % (impl, k, k, d))
        for k, T in r.items():
            if k in base_m:
                d = _norm(T - base_m[k], sc)
                c.check(d <= TOL_EXACT, {'clause': 'zero_obl', 'impl': impl, 'mode': k},
                        '%s[%s](obliquity=0) - nsr_modes[%s] = %.3e scale' % (impl, k, k, d))
            else:
                # a mode the no-obliquity variant does not have must carry nothing at zero obliquity; with use_static=True
                # it may (known finding KF-C14-static-in-every-mode) or may not carry a copy of the static term: both
                # are accepted HERE, the replication itself is judged by the modal_sum clause.
                d = _norm(T, sc)
                if stat is not None:
                    d = min(d, _norm(T - stat, sc))
                c.check(d <= TOL_EXACT, {'clause': 'zero_obl', 'impl': impl, 'mode': k, 'kind': 'extra_mode_nonzero'},
                        '%s[%s](obliquity=0) should be zero%s, differs by %.3e scale'
                        % (impl, k, ' (or the static term alone)' if stat is not None else '', d))


SCALES = (1.0, 0.5, 0.25)


def _run_ok(ds, need):
    """ds = [D(lambda), D(lambda/2), D(lambda/4)].  Held if the difference is at rounding level or if EITHER consecutive
    ratio reaches the required order (the claim is asymptotic: lambda -> 0)."""
    if ds[0] <= FLOOR or ds[1] <= FLOOR:
        return True
    if _ratio_verdict(ds[0], ds[1], need)[0]:
        return True
    if ds[2] <= FLOOR * 1e-3:          # second pair not measurable above rounding
        return True
    return ds[1] / ds[2] >= need


def _order_test(c, name, sig, runs, need, descs):
    """runs: one [D(l), D(l/2), D(l/4)] per variant of the secondary parameter (kappa / obliquity).  A genuine term of too
    low an order shows for every variant; a ratio that is low only because the leading coefficient happens to (nearly)
    vanish at one value of the secondary parameter (e.g. mode '2o': obl^4 (kappa^2/8 - 1/36), zero at kappa = 0.4714) or
    because two consecutive orders cancel at one scale does not.  Violation <=> no variant and no scale pair reaches the
    required ratio.  Only the order of convergence is judged (the statement gives no constant)."""
    if not any(_run_ok(ds, need) for ds in runs):
        txt = '; '.join('%s: D = %s ratios %s' % (dsc, ', '.join('%.3e' % d for d in ds),
                                                  ', '.join('%.2f' % (ds[i] / ds[i + 1]) if ds[i + 1] > 0 else 'inf' for i in range(2)))
                        for dsc, ds in zip(descs, runs))
        c.fail(dict(sig, what='ratio'), '%s: difference (units of G M R^2/a^3) at lambda, lambda/2, lambda/4 never shrinks by the '
               'required factor %.2f per halving: %s' % (name, need, txt))


def _eval_med_gen(case, c, P, path):
    col, lon = _points(case)
    tm = np.full(col.shape, P['t'])
    sc = P['sc']
    ob0, kappa = float(case['obl2']), float(case['kappa'])
    c.label('twoscale:pure_obliquity' if kappa == 0.0 else 'twoscale:joint')
    og = _generic_spin(P)
    kappas = [kappa] if kappa == 0.0 else [kappa, 0.75 * kappa]
    runs = {}
    for iv, kap in enumerate(kappas):
        for lam in SCALES:
            e, ob = kap * ob0 * lam, ob0 * lam
            # periodic parts at the case's own spin (exact resonance, next to one, generic): use_static=False, so both
            # variants apply the zero-frequency switch to the same mode frequencies
            A = _call('med_modes', path, lon, col, tm, P, e=e, ob=ob, static=False)
            B = _call('gen_modes', path, lon, col, tm, P, e=e, ob=ob, static=False)
            D = {}
            for k in set(A) | set(B):
                D[('mode', k)] = _norm(B.get(k, 0.0) - A.get(k, 0.0), sc)
            At = _total(_call('med', path, lon, col, tm, P, e=e, ob=ob, static=False))
            Bt = _total(_call('gen', path, lon, col, tm, P, e=e, ob=ob, static=False))
            D[('total', 'periodic')] = _norm(Bt - At, sc)
            if P['static']:
                # static parts = (use_static=True) - (use_static=False) at a spin where no mode is switched off
                As = _total(_call('med', path, lon, col, tm, P, e=e, ob=ob, static=True, o=og)) \
                    - _total(_call('med', path, lon, col, tm, P, e=e, ob=ob, static=False, o=og))
                Bs = _total(_call('gen', path, lon, col, tm, P, e=e, ob=ob, static=True, o=og)) \
                    - _total(_call('gen', path, lon, col, tm, P, e=e, ob=ob, static=False, o=og))
                D[('total', 'static')] = _norm(Bs - As, sc)
                Ams = _modal_static(_call('med_modes', path, lon, col, tm, P, e=e, ob=ob, static=True, o=og),
                                    _call('med_modes', path, lon, col, tm, P, e=e, ob=ob, static=False, o=og))
                Bms = _modal_static(_call('gen_modes', path, lon, col, tm, P, e=e, ob=ob, static=True, o=og),
                                    _call('gen_modes', path, lon, col, tm, P, e=e, ob=ob, static=False, o=og))
                D[('modes', 'static')] = _norm(Bms - Ams, sc)
            for key, v in D.items():
                runs.setdefault(key, [[] for _ in kappas])[iv].append(v)
    for impl in ('med', 'med_modes', 'gen', 'gen_modes'):
        c.label('impl:' + impl)
    descs = ['obliquity=%r, e=%r (kappa=%r), halved together' % (ob0, kap * ob0, kap) for kap in kappas]
    for (part, k), rr in sorted(runs.items()):
        _order_test(c, 'medium vs general obliquity, %s %s' % (part, k), {'clause': 'med_gen', 'part': part, 'mode': k},
                    rr, RATIO_3RD, descs)


def _eval_sync(case, c, P, path):
    col, lon = _points(case)
    tm = np.full(col.shape, P['t'])
    e0 = float(case['e2'])
    d = []
    for lam in SCALES:
        a_ = _total(_call('simple', path, lon, col, tm, P, e=e0 * lam))
        b_ = _total(_call('nsr', path, lon, col, tm, P, e=e0 * lam, static=False, o=P['n']))
        d.append(_norm(a_ - b_, P['sc']))
    c.label('impl:simple', 'impl:nsr')
    _order_test(c, 'simple vs nsr at spin=n', {'clause': 'sync'}, [d], RATIO_2ND, ['e=%r, e/2, e/4' % e0])


def _eval_low_e(case, c, P, path):
    col, lon = _points(case)
    tm = np.full(col.shape, P['t'])
    sc = P['sc']
    e0 = float(case['e2'])
    og = _generic_spin(P)
    obls = [P['ob'], 0.8 * P['ob'] + 0.1]
    runs = {}
    for iv, ob in enumerate(obls):
        for lam in SCALES:
            e = e0 * lam
            A = _call('low_e_modes', path, lon, col, tm, P, e=e, ob=ob, static=False)      # the case's own spin
            B = _call('gen_modes', path, lon, col, tm, P, e=e, ob=ob, static=False)
            D = {}
            for k in set(A) | set(B):
                D[('mode', k)] = _norm(B.get(k, 0.0) - A.get(k, 0.0), sc)
            if P['static']:
                As = _modal_static(_call('low_e_modes', path, lon, col, tm, P, e=e, ob=ob, static=True, o=og),
                                   _call('low_e_modes', path, lon, col, tm, P, e=e, ob=ob, static=False, o=og))
                Bs = _modal_static(_call('gen_modes', path, lon, col, tm, P, e=e, ob=ob, static=True, o=og),
                                   _call('gen_modes', path, lon, col, tm, P, e=e, ob=ob, static=False, o=og))
                D[('modes', 'static')] = _norm(Bs - As, sc)
            for key, v in D.items():
                runs.setdefault(key, [[] for _ in obls])[iv].append(v)
    c.label('impl:low_e_modes', 'impl:gen_modes')
    descs = ['e=%r, e/2, e/4 at obliquity=%r' % (e0, ob) for ob in obls]
    for (part, k), rr in sorted(runs.items()):
        _order_test(c, 'general-obliquity medium-e vs low-e, %s %s' % (part, k), {'clause': 'low_e', 'part': part, 'mode': k},
                    rr, RATIO_2ND, descs)


def _eval_array(case, c, P, path):
    """Array-valued eccentricity / obliquity / time (one value per point, exact zeros at some elements, documented type
    FloatArray): (a) the array call equals the element-by-element scalar calls; (b) Laplace identity, finite-difference
    derivatives and modal sum hold per element of the array call; (c) at the elements whose obliquity is exactly 0 the
    obliquity variants equal the no-obliquity variants called with the same arrays."""
    pts = [(float(p[0]), float(p[1])) for p in case['pts']]
    col, lon = _stencil(pts)
    E = np.repeat(np.asarray(case['evec'], dtype=float), 14)
    OB = np.repeat(np.asarray(case['obvec'], dtype=float), 14)
    tm = np.repeat(np.asarray(case['tauvec'], dtype=float), 14) * (2.0 * math.pi / P['n'])
    sc = P['sc']
    impls = [case['only']] if case.get('only') else FAMILIES[case['family']]
    res = {}
    for impl in impls:
        c.label('impl:' + impl, 'array:' + impl)
        res[impl] = _call(impl, path, lon, col, tm, P, e=E, ob=OB)
        scal = _call(impl, 'py_scalar', lon, col, tm, P, e=E, ob=OB)
        c.check(set(scal) == set(res[impl]), {'clause': 'array_vs_scalar', 'impl': impl, 'kind': 'keys'},
                '%s: array call returns modes %s, scalar calls %s' % (impl, sorted(res[impl]), sorted(scal)))
        for k in scal:
            if k not in res[impl]:
                continue
            S = max(float(np.max(np.abs(scal[k]))), float(np.max(np.abs(res[impl][k]))),
                    sc if (P['static'] and IMPL[impl][1] != 'simple') else 0.0)
            # numpy evaluates cos/sin of an array and of a scalar through different code paths (<= 1 ulp apart); the source
            # computes d2P21/dtheta2 as 4 sin^4/sin^3 with sin = sqrt(1-cos^2), which amplifies that ulp by 1/sin^3(colat)
            dd = np.abs(res[impl][k] - scal[k]) * np.sin(col) ** 3
            d = float(np.max(dd))
            j = int(np.argmax(np.max(dd, axis=0)))
            c.check(d <= TOL_VEC * S + ABS_FLOOR, {'clause': 'array_vs_scalar', 'impl': impl, 'mode': k},
                    '%s[%s]: call with array e=%r obliquity=%r time differs from the element-by-element scalar calls by %.3e '
                    '(x sin^3(colat); %.2e of the mode magnitude %.3e) at element %d (e=%r, obliquity=%r): array %r scalar %r'
                    % (impl, k, case['evec'], case['obvec'], d, d / S if S else float('inf'), S, j // 14, float(E[j]), float(OB[j]),
                       res[impl][k][:, j].tolist(), scal[k][:, j].tolist()))
        for mode, T in res[impl].items():
            _check_mode_derivs(c, impl, mode, T, pts, P, per_block=True)
    for impl in impls:
        nonmodal = IMPL[impl][2]
        if nonmodal is not None and nonmodal in res:
            _check_modal_sum(c, impl, res[impl], res[nonmodal], path, lon, col, tm, P, e=E, ob=OB)
    # zero-obliquity elements of the obliquity variants vs the no-obliquity variants (same arrays)
    mask = OB == 0.0
    fam = IMPL[impls[0]][1]
    if fam in ('med_obl', 'gen_obl') and np.any(mask):
        stat = None
        if P['static']:
            og = _generic_spin(P)
            stat = _modal_static(_call('nsr_modes', 'py', lon, col, tm, P, e=E, static=True, o=og),
                                 _call('nsr_modes', 'py', lon, col, tm, P, e=E, static=False, o=og))[:, mask]
        for impl in impls:
            if IMPL[impl][2] is None:      # non-modal
                base = _total(_call('nsr', 'py', lon, col, tm, P, e=E))
                d = _norm((_total(res[impl]) - base)[:, mask], sc)
                c.check(d <= TOL_EXACT, {'clause': 'zero_obl', 'impl': impl, 'kind': 'array_element'},
                        '%s with obliquity array %r: elements with obliquity 0 differ from nsr by %.3e scale' % (impl, case['obvec'], d))
            else:
                base_m = _call('nsr_modes', 'py', lon, col, tm, P, e=E)
                for k, T in res[impl].items():
                    Tm = T[:, mask]
                    if k in base_m:
                        d = _norm(Tm - base_m[k][:, mask], sc)
                    else:
                        d = _norm(Tm, sc)
                        if stat is not None:
                            d = min(d, _norm(Tm - stat, sc))
                    c.check(d <= TOL_EXACT, {'clause': 'zero_obl', 'impl': impl, 'mode': k, 'kind': 'array_element'},
                            '%s[%s] with obliquity array %r: elements with obliquity 0 differ from nsr_modes by %.3e scale'
                            % (impl, k, case['obvec'], d))


def evaluate(case):
    P = _params(case)
    kind, fam, path = case['kind'], case['family'], case['path']
    if case.get('only'):
        fam = IMPL[case['only']][1]
    uses_obl = (kind == 'derivs' and fam in ('med_obl', 'gen_obl', 'low_e')) or kind == 'low_e'
    uses_spin = not (kind == 'sync' or (kind == 'derivs' and fam == 'simple'))
    vec_e_mixed = vec_ob_mixed = False
    if kind == 'array':
        ev, ov = case['evec'], case['obvec']
        vec_e_mixed = any(x == 0.0 for x in ev) and any(x > 0.0 for x in ev)
        vec_ob_mixed = any(x == 0.0 for x in ov) and any(x > 0.0 for x in ov)
        uses_obl = fam in ('med_obl', 'gen_obl', 'low_e')
        uses_spin = fam != 'simple'
        nontrivial = max(ev) > 0.01 and (vec_e_mixed or vec_ob_mixed)
    elif kind in ('med_gen',):
        nontrivial = True
    elif kind == 'sync':
        nontrivial = float(case['e2']) > 0.01
    elif kind == 'low_e':
        nontrivial = P['ob'] > 0.01
    else:
        nontrivial = P['e'] > 0.01 and (not uses_spin or P['ratio'] != 1.0) and (not uses_obl or P['ob'] > 0.01)
    c = Collector(nontrivial=nontrivial)
    c.label('kind:' + kind, 'path:' + path, 'static:on' if P['static'] else 'static:off')
    if uses_spin:
        c.label({'sync': 'spin:sync', 'anti': 'spin:anti', 'zero': 'spin:zero', 'near': 'spin:near_resonance'}.get(case['spin'], 'spin:generic'))
        ambiguous, below = _switch_state(P)
        if ambiguous and not P['static']:
            from vlib.result import discard
            return discard('a mode frequency lies within %g ulp (of max(|2o|,5|n|)) of the zero-frequency cut-off' % SWITCH_ULPS,
                           labels=c.labels + ['switch:ambiguous'])
        if case['spin'] == 'near':
            c.label('near:prograde' if int(case['res_k']) > 0 else ('near:retrograde' if int(case['res_k']) < 0 else 'near:k=0'))
            c.label('near:offset_lost_in_rounding' if P['o'] == P['n'] * (int(case['res_k']) / 2.0) else
                    ('near:mode_below_cutoff' if below else 'near:modes_above_cutoff'))
            if below and not P['static']:
                c.label('near:mode_below_cutoff,static_off')
    if kind in ('derivs', 'zero_obl') and P['e'] == 0.0:
        c.label('e:zero')
    if uses_obl and P['ob'] == 0.0:
        c.label('obl:zero')
    if any(p[0] < 0.15 or p[0] > math.pi - 0.15 for p in case['pts']):
        c.label('colat:near_pole')
    if kind == 'array':
        c.label('family:' + fam)
        if vec_e_mixed:
            c.label('vec:e_mixed_zero')
        if vec_ob_mixed and uses_obl:
            c.label('vec:obl_mixed_zero')
        if any(x == 0.0 for x in case['tauvec']):
            c.label('vec:time_zero')
        _eval_array(case, c, P, path)
    elif kind == 'derivs':
        c.label('family:' + fam)
        _eval_derivs(case, c, P, path)
    elif kind == 'zero_obl':
        _eval_zero_obl(case, c, P, path)
    elif kind == 'med_gen':
        _eval_med_gen(case, c, P, path)
    elif kind == 'sync':
        _eval_sync(case, c, P, path)
    else:
        _eval_low_e(case, c, P, path)
    return c.result()
