"""C15 - 3-D tidal stress and strain are consistent with the radial functions.

Targets: TidalPy.tides.multilayer.stress_strain.calculate_strain_stress (numba, parallel=True) and
TidalPy.tides.heating.calculate_volumetric_heating, called the way tides/modes/multilayer_modes.py calls them:
six potential arrays of shape (n_long, n_colat, n_time) (meshgrid indexing='ij'), tidal_solution_y complex
(6, n_radius), 1-D longitude/colatitude/time/radius arrays, complex shear, real or complex bulk, frequency, order_l.

Generated (Hypothesis)
  degree l in 2..4; 1..4 radii 1e3..1e7 m; per radius complex y1..y4 (log-uniform magnitudes y1,y3 1e-6..1,
  y2,y4 1..1e8, arbitrary phases), shear |mu| 1e7..1e12 with loss angle 0.002..1.5 rad, bulk 1e8..1e13 (float array,
  or complex array with loss angle 0..0.3); `elastic` cases have real moduli and real y (`elastic_cy`: real
  moduli, complex y); longitude (0..2pi), colatitude and time grids of 1..6 points each; colatitude points are interior
  (0.01..pi-0.01) or at a log-uniform distance 10^[-7,-2] rad from either pole (never exactly 0 or pi, where the code
  divides by zero);
  potentials satisfying the degree-l surface Laplace identity by construction:
    ylm    U = amp * sum_m N_lm P_lm(cos th) [(a_m cos wt + a'_m sin wt) cos m ph + (b_m cos wt + b'_m sin wt) sin m ph]
           with analytic derivatives from oracles/ylm.py (self-tested: closed forms, Laplace identity, central
           differences), coefficients in [-1,1], amp 1e-2..1e6;
    repo   (l = 2 only) TidalPy's own tidal_potential_simple / tidal_potential_nsr (validated by C14) on the same grids.
  Every potential handed to the code is first checked against the Laplace identity (1e-11 of the sum of term
  magnitudes); a potential that fails it would be discarded (`potential_not_harmonic`) - none is, in practice.

Oracles, at every radius and grid point (lam = K - 2 mu/3 computed by the harness)
  hooke      sigma_k == 2 mu eps_k + lam tr(eps) delta_k          |err| <= HOOKE_TOL (2|mu||eps_k| + (|K|+|mu|) sum_diag|eps|)
  traction   sigma_rr == y2 U                                      |err| <= TRAC_TOL * S_rr   (S_rr: sum of the magnitudes
             of every term that cancels in sigma_rr, see _srr_scale - the identity holds through the Laplace identity,
             so near the poles the cot/sin^-2 terms set the rounding level)
             sigma_rth == y4 U_th, sigma_rph == y4 U_ph / sin th   |err| <= TRAC_TOL * |y4| |dU|
  heating    dtype float64, finite, >= -HEAT_TOL*scale (non-negative to rounding), == c |Im sum_k w_k sigma_k conj(eps_k)|,
             w = (1,1,1,2,2,2), with one positive constant c per case (median ratio over the points whose dissipation
             is > max(1e-6, 0.1 x the best-conditioned point) of the scale; c in [1e-3,1e3]; the statement fixes no normalisation such as omega/2)
                                                                   |err| <= HEAT_TOL (1e-10) * c * sum_k w_k |sigma_k||eps_k|
  elastic    real moduli: heating <= ELASTIC_TOL * sum_k w_k (|sigma_k| + 2|mu||eps_k| + (|K|+|mu|) sum_diag|eps|) |eps_k|
             (real y: exactly 0 is expected; complex y with real moduli: sigma_k conj(eps_k) sums to a real number only
             after cancellation, tolerance ELASTIC_CY_TOL on the same scale)
  dtype_route  `route` = float | int | zerod: on `int` the radii, times and (float-dtype) bulk moduli are rounded to integral
             values and passed as int64 arrays with order_l as np.int64; on `zerod` the frequency is a 0-d float64 array.
             Strains and stresses must equal the float64 call on the same numbers (1e-11 of the row maximum; measured
             identical) and are what every other clause judges; a numba TypingError/TypeError would be a clean rejection.
  inputs_mutated  every array argument of both functions is copied before the call and must be unchanged afterwards.
  shape      outputs have shape (6, n_r, n_long, n_colat, n_time) / (n_r, n_long, n_colat, n_time).

Tolerances (plan: 1e-12 / 1e-11 / 1e-12 / 1e-14) and calibration on the unchanged tree (module-level STATS over
3 seeds x 800 cases): worst error/scale  hooke 3.6e-16, sigma_rr 2.0e-14 (= the Laplace residual of the rounded
potential arrays, 2.0e-14 of their term sum), sigma_rth 4.9e-16, sigma_rph 5.8e-16, heating 5.7e-16, elastic
(real y) exactly 0, elastic (complex y) 1.0e-16.  All scales carry an absolute floor of 1e-280 (potential values
like sin(m*1e-308) are subnormal and their products lose relative accuracy).  A wrong coefficient moves the
hooke / sigma_rr residual to O(0.01..1) of the scale, i.e. >= 1e9 x the tolerance.

Near the poles (distance d from a pole, sin th ~ d).  No tolerance is loosened; the per-point scales already carry the
amplification.  sigma_rr = y2 U holds only through the Laplace identity, i.e. after U_pp/sin^2 (~ m^2 A/d for m = 1) and
cot th U_th (~ A/d) cancel to O(A); the code (and the supplied double-precision arrays) round each of them relative to
its own magnitude, so the attainable accuracy of sigma_rr is eps * |lam| |y3|/r * (|U_pp|/sin^2 + |cot U_th|), which is
exactly the pole-dependent part of S_rr (_srr_scale) - it grows like 1/d only when the m = 1 content is present, and only
for the rr component.  sigma_rph = y4 U_ph/sin th is a single product (no cancellation): eps * |y4||U_ph|/sin th.
sigma_rth and Hooke's law do not involve 1/sin at all.  The harmonic oracle evaluates P_lm and both theta-derivatives
analytically as sin^m * polynomial(cos) (no differences, no division by sin), so its Laplace residual near the poles is
the same few eps of the term sum as elsewhere.  Calibration with pole points (3 seeds x 1 000 cases, ~ 700 pole points
per class <1e-5 / 1e-5..1e-3 / 1e-3..1e-2 rad): worst error/scale AT pole points sigma_rr 4.0e-16, sigma_rph 5.4e-16,
sigma_rth 4.4e-16, hooke 2.8e-16 (tolerances 1e-11 / 1e-12); a change that drops or alters the 1/sin, cot terms moves
sigma_rr by ~ d * S_rr (>= 1e-7 S_rr) and sigma_rph by its full scale.
The repository's own l = 2 potentials are only used at >= 0.02 rad from the poles: they evaluate P22 as 3(1 - cos^2 th),
whose relative accuracy is eps/sin^2 th, so closer in they no longer satisfy the Laplace identity to 1e-11 (the
statement's precondition; C14's domain) and would only be discarded.

Not checked (the statement has no clause for them): eps_thph beyond Hooke's law, calculate_displacements.

Sensitivity (tools/mut.py, 300 cases, all CAUGHT):
  heating.py        `2. * (stress_imag[4] * strain_real[4] ...` -> `1. * (...`  (dropped factor on one cross term)  CAUGHT heating/value
  stress_strain.py  `lame       = bulk - (2. / 3.) * shear` -> `(1. / 3.)`                                         CAUGHT hooke
  stress_strain.py  `order_l * (order_l + 1.) * y3` -> `order_l * (order_l - 1.) * y3` in dy1_dr                  CAUGHT traction/rr
  stress_strain.py  `strains[4, ...] = y4_shear * s4_t0 / 2.` -> `y4_shear * tp_p_p / 2.` (lost 1/sin theta)      CAUGHT traction/rph
  stress_strain.py  `if k < 3:` -> `if k < 2:` (lambda tr(eps) missing from sigma_phph)                           CAUGHT hooke
  stress_strain.py  `+ cot_theta * tp_p_t` -> `- cot_theta * tp_p_t` in eps_phph                                  CAUGHT traction/rr
  seeded/C15-4      "pole-safe" 1/sin, cot := 0 where |sin th| < 1e-3                                             CAUGHT traction/rr, traction/rph
"""
import math

import numpy as np
from hypothesis import strategies as st

from oracles import ylm
from vlib.result import Collector, RepoRaised, discard, repo_call

ID = 'C15'
TECHNIQUE = ('property-based testing (Hypothesis): algebraic invariants (Hooke law, radial tractions via the degree-l Laplace '
             'identity, dissipation formula) on generated radial functions, moduli, harmonic potentials and grids')
LEVEL = 'exploration'
LEVEL_TEXT = ('Generated-input exploration: for hundreds (quick) to tens of thousands (thorough) of generated radial solutions, '
              'complex material profiles, degrees 2..4, harmonic potentials and small lon/colat/time grids the constitutive '
              'law, the three radial-traction identities and the heating formula are checked at every radius and grid point; '
              'holds on everything generated, not a proof for all inputs.')
LEVEL_NOTE = ('Trusts numpy complex arithmetic and the self-tested harmonic oracle oracles/ylm.py (closed forms l<=4, Laplace '
              'identity, central differences); the l=2 repository potentials are trusted only after passing the Laplace '
              'identity in-check (their own correctness is C14). Colatitudes within 1e-7 rad of the poles, liquid layers '
              '(mu = 0) and lambda + 2 mu = 0 are outside the generated domain.')
CASES = {'quick': 1600, 'thorough': 600000}
SHARDS = {'quick': 8, 'thorough': 16}

HOOKE_TOL = 1e-12
TRAC_TOL = 1e-11
HEAT_TOL = 1e-10   # 600 000-case thorough run: worst err/scale 2.3e-12 (rounding of the median-estimated constant c); a dropped factor gives O(1)
ELASTIC_TOL = 1e-14
ELASTIC_CY_TOL = 1e-14
LAPLACE_TOL = 1e-11
ROUTE_TOL = 1e-11
ROUTES = ['float', 'int', 'zerod']
W = np.array([1.0, 1.0, 1.0, 2.0, 2.0, 2.0])

RULE = ('Hypothesis draws degree l in {2,3,4}, 1..4 radii, complex y1..y4 and complex shear/bulk per radius (log-uniform '
        'magnitudes, arbitrary phases; elastic cases real), a potential (real degree-l harmonic with random time-dependent '
        'coefficients and analytic derivatives, or for l=2 a repository potential) and lon/colat/time grids of 1..6 points. '
        'Non-trivial: complex shear modulus (loss angle > 1e-3) and each of the six potential arrays has a non-negligible '
        'entry (max |.| > 1e-6 x max |U| scale); distinct = distinct case hash.')
ASSUMPTIONS = ['hooke 1e-12, tractions 1e-11, heating 1e-12 of the sum of term magnitudes; elastic 1e-14',
               'potential arrays satisfy U_tt + cot U_t + U_pp/sin^2 = -l(l+1) U to 1e-11 (checked per case, else discard)',
               'colatitude in [1e-7, pi-1e-7] (repository potentials: [0.02, pi-0.02]); |mu| > 0; Re K, Re mu > 0']

STATS = {}


def _stat(name, value):
    value = float(value)
    if value > STATS.get(name, 0.0):
        STATS[name] = value


# ---- strategies -----------------------------------------------------------------------------------------------

def logu(lo, hi):
    return st.floats(math.log10(lo), math.log10(hi)).map(lambda x: min(hi, max(lo, 10.0 ** x)))


PHASE = st.floats(-math.pi, math.pi)
COEF = st.floats(-1.0, 1.0)
Y_SMALL = st.tuples(logu(1e-6, 1.0), PHASE).map(list)
Y_BIG = st.tuples(logu(1.0, 1e8), PHASE).map(list)
LAYER = st.fixed_dictionaries({
    'r': logu(1e3, 1e7), 'mu_abs': logu(1e7, 1e12), 'mu_loss': st.floats(0.002, 1.5), 'K_abs': logu(1e8, 1e13),
    'K_loss': st.floats(0.0, 0.3), 'y': st.tuples(Y_SMALL, Y_BIG, Y_SMALL, Y_BIG).map(list)})
LON = st.lists(st.floats(0.0, 2.0 * math.pi), min_size=1, max_size=6)
POLE_DIST = st.floats(-7.0, -2.0).map(lambda x: min(1e-2, max(1e-7, 10.0 ** x)))     # rad from a pole, log-uniform
COLAT_PT = st.one_of(st.floats(0.05, math.pi - 0.05), st.floats(0.05, math.pi - 0.05).map(lambda v: v),
                     st.floats(0.01, math.pi - 0.01),
                     POLE_DIST, POLE_DIST.map(lambda d: math.pi - d))
COLAT = st.lists(COLAT_PT, min_size=1, max_size=6)
COLAT_LO, COLAT_HI = 1e-7, math.pi - 1e-7
REPO_POLE_DIST = 0.02      # the repository's l=2 potentials use 3(1 - cos^2) for P22: relative accuracy eps/sin^2 near a pole
COLAT_REPO = st.lists(st.floats(REPO_POLE_DIST, math.pi - REPO_POLE_DIST), min_size=1, max_size=6)
TIME = st.lists(st.floats(0.0, 1.0), min_size=1, max_size=6)


def _coefs(n):
    return st.lists(COEF, min_size=n, max_size=n)


def _s_ylm(l):
    return st.fixed_dictionaries({'kind': st.just('ylm'), 'a': _coefs(l + 1), 'b': _coefs(l + 1), 'a2': _coefs(l + 1),
                                  'b2': _coefs(l + 1), 'amp': logu(1e-2, 1e6)})


S_REPO = st.fixed_dictionaries({'kind': st.sampled_from(['repo_simple', 'repo_nsr']), 'R': logu(1e5, 1e8), 'e': st.floats(0.001, 0.4),
                                'spin_ratio': st.floats(0.2, 5.0), 'host_mass': logu(1e24, 1e30), 'a': logu(1e8, 1e11)})


def _s_case(l, pot, colat=COLAT):
    return st.fixed_dictionaries({
        'l': st.just(l), 'pot': pot, 'lon': LON, 'colat': colat, 'time': TIME,
        'layers': st.lists(LAYER, min_size=1, max_size=4),
        'mode': st.sampled_from(['visco', 'visco', 'visco', 'visco', 'elastic', 'elastic_cy']),
        'bulk_dtype': st.sampled_from(['float', 'complex']),
        # the forcing frequency does not enter any clause of the property (the unchanged code ignores it): every value a caller
        # can meet is generated, incl. the static mode (0.0), a signed retrograde mode and tiny / large magnitudes
        'frequency': st.one_of(logu(1e-8, 1e-2), logu(1e-8, 1e-2), logu(1e-8, 1e-2), st.just(0.0),
                               logu(1e-8, 1e-2).map(lambda x: -x), logu(1e-30, 1e-15), logu(1e-2, 1e4)),
        'route': st.sampled_from(['float', 'float', 'int', 'zerod'])})


def strategy(tier):
    return st.one_of(_s_case(2, _s_ylm(2)), _s_case(3, _s_ylm(3)), _s_case(4, _s_ylm(4)), _s_case(2, S_REPO, COLAT_REPO))


def _layer(r, mu_abs, mu_loss, K_abs, K_loss, y):
    return {'r': r, 'mu_abs': mu_abs, 'mu_loss': mu_loss, 'K_abs': K_abs, 'K_loss': K_loss, 'y': y}


def fixed_cases(tier):
    lay = [_layer(2.0e5, 5e10, 0.3, 1e11, 0.0, [[0.02, 0.3], [3e3, -0.2], [0.005, 0.5], [8e2, 2.0]]),
           _layer(1.0e6, 3e9, 1.2, 2e10, 0.1, [[0.3, -0.1], [1e2, 0.4], [0.08, 0.2], [1e1, -2.5]])]
    out = []
    for l in (2, 3, 4):
        pot = {'kind': 'ylm', 'a': [0.5, -0.3, 0.8, 0.1, -0.6][:l + 1], 'b': [0.0, 0.7, -0.2, 0.9, 0.4][:l + 1],
               'a2': [0.1, 0.2, -0.5, 0.3, 0.2][:l + 1], 'b2': [0.0, -0.4, 0.6, -0.1, 0.5][:l + 1], 'amp': 50.0}
        for mode in ('visco', 'elastic', 'elastic_cy'):
            out.append({'l': l, 'pot': pot, 'lon': [0.3, 2.0, 4.4], 'colat': [0.05, 0.9, 1.5707963267948966, 3.0],
                        'time': [0.0, 0.3], 'layers': lay, 'mode': mode, 'bulk_dtype': 'float' if l != 3 else 'complex',
                        'frequency': 1e-5})
    for kind in ('repo_simple', 'repo_nsr'):
        out.append({'l': 2, 'pot': {'kind': kind, 'R': 1.0e6, 'e': 0.05, 'spin_ratio': 1.5, 'host_mass': 1.9e27, 'a': 4.2e8},
                    'lon': [0.0, 1.0, 3.0], 'colat': [0.4, 1.2, 2.5], 'time': [0.1, 0.6], 'layers': lay, 'mode': 'visco',
                    'bulk_dtype': 'complex', 'frequency': 4.0e-5})
    for base in list(out[:9]):                   # the same inputs on colatitude grids that hug both poles
        out.append(dict(base, colat=[1.0e-7, 2.0e-6, 3.0e-4, 5.0e-3, 1.2, math.pi - 8.0e-3, math.pi - 4.0e-5, math.pi - 1.0e-7][:6]
                        if base['l'] != 3 else [4.0e-4, math.pi - 8.0e-3, math.pi - 4.0e-5, math.pi - 1.0e-7]))
    out.append(dict(out[-1], pot=dict(out[-1]['pot']), l=2, colat=[0.02, 0.7, math.pi - 0.02], layers=lay, mode='visco',
                    bulk_dtype='complex'))
    out[-1]['pot'] = {'kind': 'repo_nsr', 'R': 1.0e6, 'e': 0.05, 'spin_ratio': 1.5, 'host_mass': 1.9e27, 'a': 4.2e8}
    for base in list(out[:6]):                   # both bulk dtypes on both dtype routes
        out.append(dict(base, route='int'))
        out.append(dict(base, route='zerod'))
    return out


def required_labels(tier):
    return ['l=2', 'l=3', 'l=4', 'pot:ylm', 'pot:repo_simple', 'pot:repo_nsr', 'mode:visco', 'mode:elastic', 'mode:elastic_cy',
            'bulk:float', 'bulk:complex', 'route:float', 'route:int', 'route:zerod', 'route_applied:int', 'freq:zero', 'freq:negative', 'freq:tiny', 'freq:positive', 'grid:single_point', 'grid:multi', 'radii:1', 'radii:>1', 'near_pole', 'pole:north', 'pole:south',
            'pole_dist:<1e-5', 'pole_dist:1e-5..1e-3', 'pole_dist:1e-3..1e-2']


def _rng(x, lo, hi):
    return isinstance(x, (int, float)) and not isinstance(x, bool) and lo <= x <= hi


def in_domain(case):
    try:
        l = case['l']
        if l not in (2, 3, 4):
            return False
        p = case['pot']
        if p['kind'] == 'ylm':
            if not all(len(p[k]) == l + 1 and all(_rng(v, -1.0, 1.0) for v in p[k]) for k in ('a', 'b', 'a2', 'b2')):
                return False
            if not _rng(p['amp'], 1e-2, 1e6):
                return False
        elif p['kind'] in ('repo_simple', 'repo_nsr'):
            if not all(_rng(v, REPO_POLE_DIST, math.pi - REPO_POLE_DIST) for v in case['colat']):
                return False
            if l != 2 or not (_rng(p['R'], 1e5, 1e8) and _rng(p['e'], 0.001, 0.4) and _rng(p['spin_ratio'], 0.2, 5.0)
                              and _rng(p['host_mass'], 1e24, 1e30) and _rng(p['a'], 1e8, 1e11)):
                return False
        else:
            return False
        ok = (1 <= len(case['lon']) <= 6 and all(_rng(v, 0.0, 2 * math.pi) for v in case['lon'])
              and 1 <= len(case['colat']) <= 6 and all(_rng(v, COLAT_LO * (1 - 1e-9), math.pi - COLAT_LO * (1 - 1e-9)) for v in case['colat'])
              and 1 <= len(case['time']) <= 6 and all(_rng(v, 0.0, 1.0) for v in case['time'])
              and 1 <= len(case['layers']) <= 4 and case['mode'] in ('visco', 'elastic', 'elastic_cy')
              and case.get('route', 'float') in ROUTES and case['bulk_dtype'] in ('float', 'complex') and _rng(case['frequency'], -1e4, 1e4))
        for la in case['layers']:
            ok = ok and (_rng(la['r'], 1e3, 1e7) and _rng(la['mu_abs'], 1e7, 1e12) and _rng(la['mu_loss'], 0.002, 1.5)
                         and _rng(la['K_abs'], 1e8, 1e13) and _rng(la['K_loss'], 0.0, 0.3) and len(la['y']) == 4
                         and all(len(v) == 2 and _rng(v[1], -math.pi, math.pi) for v in la['y'])
                         and _rng(la['y'][0][0], 1e-6, 1.0) and _rng(la['y'][2][0], 1e-6, 1.0)
                         and _rng(la['y'][1][0], 1.0, 1e8) and _rng(la['y'][3][0], 1.0, 1e8))
        return bool(ok)
    except Exception:
        return False


# ---- inputs -------------------------------------------------------------------------------------------------------

def _potential(case, lon, colat, tfrac):
    """-> (six arrays of shape (n_long, n_colat, n_time), scale)"""
    l = case['l']
    p = case['pot']
    shape = (len(lon), len(colat), len(tfrac))
    Ph = lon.reshape(-1, 1, 1)
    Th = colat.reshape(1, -1, 1)
    if p['kind'] == 'ylm':
        wt = 2.0 * math.pi * tfrac.reshape(1, 1, -1)
        cw, sw = np.cos(wt), np.sin(wt)
        a = [p['amp'] * (p['a'][m] * cw + p['a2'][m] * sw) for m in range(l + 1)]
        b = [p['amp'] * (p['b'][m] * cw + p['b2'][m] * sw) for m in range(l + 1)]
        arrs = ylm.harmonic(l, a, b, Th, Ph)
        arrs = [np.ascontiguousarray(np.broadcast_to(x, shape), dtype=np.float64) for x in arrs]
        # order expected by calculate_strain_stress: U, U_t, U_p, U_tt, U_pp, U_tp
        return [arrs[0], arrs[1], arrs[2], arrs[3], arrs[4], arrs[5]]
    from TidalPy.constants import G
    from TidalPy.tides import potential as tp
    n = math.sqrt(G * p['host_mass'] / p['a'] ** 3)
    lon_m, col_m, t_m = np.meshgrid(lon, colat, tfrac * (2.0 * math.pi / n), indexing='ij')
    lon_m, col_m, t_m = (np.ascontiguousarray(x) for x in (lon_m, col_m, t_m))
    with repo_call('tides.potential.' + p['kind']):
        if p['kind'] == 'repo_simple':
            _, _, tup = _cache_safe(tp.tidal_potential_simple, p['R'], lon_m, col_m, t_m, n, p['e'], p['host_mass'], p['a'])
        else:
            _, _, tup = _cache_safe(tp.tidal_potential_nsr, p['R'], lon_m, col_m, t_m, n, p['spin_ratio'] * n, p['e'],
                                    p['host_mass'], p['a'], False)
        keys = list(tup.keys())
        v = tup[keys[0]]
        # repository order: U, U_t, U_p, U_tt, U_pp, U_tp
        return [np.ascontiguousarray(np.broadcast_to(np.asarray(v[j], dtype=np.float64), shape)) for j in range(6)]


def _inputs(case):
    layers = sorted(case['layers'], key=lambda la: la['r'])
    mode = case['mode']
    nr = len(layers)
    radius = np.array([la['r'] for la in layers], dtype=np.float64)
    for i in range(1, nr):                      # strictly increasing radii
        if radius[i] <= radius[i - 1]:
            radius[i] = radius[i - 1] * 1.01
    y = np.zeros((6, nr), dtype=np.complex128)
    shear = np.zeros(nr, dtype=np.complex128)
    bulk_c = np.zeros(nr, dtype=np.complex128)
    for i, la in enumerate(layers):
        for k in range(4):
            mag, ph = la['y'][k]
            if mode == 'elastic':
                y[k, i] = mag * (1.0 if math.cos(ph) >= 0.0 else -1.0)
            else:
                y[k, i] = mag * complex(math.cos(ph), math.sin(ph))
        y[4, i] = 1.0 + 0.5j
        y[5, i] = -0.25 + 2.0j
        if mode == 'visco':
            shear[i] = la['mu_abs'] * complex(math.cos(la['mu_loss']), math.sin(la['mu_loss']))
            bulk_c[i] = la['K_abs'] * complex(math.cos(la['K_loss']), math.sin(la['K_loss']))
        else:
            shear[i] = la['mu_abs']
            bulk_c[i] = la['K_abs']
    if case['bulk_dtype'] == 'float':
        bulk = np.ascontiguousarray(bulk_c.real)
    else:
        bulk = bulk_c
    return radius, y, shear, bulk


# ---- evaluate -------------------------------------------------------------------------------------------------------

def _cache_safe(f, *args):
    """Call a numba dispatcher; if numba's on-disk cache directory vanished underneath us (another harness process
    pruned /verif/.nbcache while this one was compiling) recreate it and retry - an infrastructure race, not a
    property of the code under test."""
    import os
    from vlib.result import HarnessError
    for attempt in range(3):
        try:
            return f(*args)
        except OSError as ex:
            if 'nbcache' not in str(ex) or attempt == 2:
                raise HarnessError('numba cache I/O failed: %s' % ex)
            if ex.filename:
                os.makedirs(os.path.dirname(str(ex.filename)), exist_ok=True)


def _tname(a):
    return '%s[%dd]' % (a.dtype, a.ndim) if isinstance(a, np.ndarray) else type(a).__name__


def _checked(c, name, fn, args):
    """Call fn(*args); every array argument is copied before and compared after the call (inputs-not-mutated)."""
    saved = [(j, a.copy()) for j, a in enumerate(args) if isinstance(a, np.ndarray)]
    res = _cache_safe(fn, *args)
    for j, before in saved:
        after = args[j]
        if after.dtype != before.dtype or after.shape != before.shape or not np.array_equal(after, before, equal_nan=True):
            c.fail({'clause': 'inputs_mutated', 'fn': name}, '%s changed its argument #%d (%s)' % (name, j, _tname(before)))
    return res


def _fns():
    from TidalPy.tides.multilayer.stress_strain import calculate_strain_stress
    from TidalPy.tides.heating import calculate_volumetric_heating
    return calculate_strain_stress, calculate_volumetric_heating


def evaluate(case):
    l = int(case['l'])
    lon = np.array(case['lon'], dtype=np.float64)
    colat = np.array(case['colat'], dtype=np.float64)
    tfrac = np.array(case['time'], dtype=np.float64)
    radius, y, shear, bulk = _inputs(case)
    if case.get('route', 'float') != 'float':
        # dtype routes need integral metres / pascals / seconds: round (radii stay strictly increasing)
        radius = np.round(radius)
        for i in range(1, len(radius)):
            if radius[i] <= radius[i - 1]:
                radius[i] = radius[i - 1] + 1.0
        if bulk.dtype == np.float64:
            bulk = np.round(bulk)
    nr, nl, nc, nt = len(radius), len(lon), len(colat), len(tfrac)
    U, Ut, Up, Utt, Upp, Utp = _potential(case, lon, colat, tfrac)
    sin_t = np.sin(colat).reshape(1, -1, 1)
    cot_t = (np.cos(colat) / np.sin(colat)).reshape(1, -1, 1)
    # precondition of the statement: the potential satisfies the degree-l Laplace identity
    res, sc = ylm.laplace_residual(l, U, Ut, Upp, Utt, colat.reshape(1, -1, 1))
    if not np.all(np.abs(res) <= LAPLACE_TOL * sc + 1e-300):
        return discard('potential_not_harmonic', labels=['pot:' + case['pot']['kind']])
    _stat('laplace', np.max(np.abs(res) / (sc + 1e-300)))
    uscale = max(float(np.max(np.abs(x))) for x in (U, Ut, Up, Utt, Upp, Utp))
    six_nonzero = all(float(np.max(np.abs(x))) > 1e-6 * uscale for x in (U, Ut, Up, Utt, Upp, Utp)) and uscale > 0.0
    complex_mu = case['mode'] == 'visco' and all(la['mu_loss'] > 1e-3 for la in case['layers'])
    c = Collector(nontrivial=six_nonzero and complex_mu)
    c.label('l=%d' % l, 'pot:' + case['pot']['kind'], 'mode:' + case['mode'], 'bulk:' + case['bulk_dtype'],
            'grid:single_point' if nl * nc * nt == 1 else 'grid:multi', 'radii:1' if nr == 1 else 'radii:>1')
    if float(np.min(np.sin(colat))) < 0.1:
        c.label('near_pole')
    for v in colat:
        d = min(float(v), math.pi - float(v))
        if d <= 1.0000001e-2:
            c.label('pole:north' if v < 1.0 else 'pole:south',
                    'pole_dist:<1e-5' if d < 1e-5 else ('pole_dist:1e-5..1e-3' if d < 1e-3 else 'pole_dist:1e-3..1e-2'))
    if six_nonzero:
        c.label('six_derivatives_nonzero')
    strain_fn, heat_fn = _fns()
    route = case.get('route', 'float')
    times = np.round(tfrac * 1.0e5) if route != 'float' else tfrac * 1.0e5
    c.label('route:' + route)
    fq = float(case['frequency'])
    c.label('freq:zero' if fq == 0.0 else 'freq:negative' if fq < 0 else 'freq:tiny' if fq < 1e-15 else 'freq:positive')
    args = [U, Ut, Up, Utt, Upp, Utp, y, lon, colat, times, radius, shear, bulk, float(case['frequency']), l]
    with repo_call('calculate_strain_stress'):
        strains, stresses = _checked(c, 'calculate_strain_stress', strain_fn, args)
    if route != 'float':
        # dtype route: the same numbers as int64 arrays / np.int64 / 0-d array; result must equal the float64 call
        rargs = list(args)
        if route == 'int':
            rargs[9] = times.astype(np.int64)
            rargs[10] = radius.astype(np.int64)
            if bulk.dtype == np.float64:
                rargs[12] = bulk.astype(np.int64)
            rargs[14] = np.int64(l)
        else:
            rargs[13] = np.array(float(case['frequency']), dtype=np.float64)
        from numba.core.errors import NumbaError
        try:
            with repo_call('calculate_strain_stress[%s]' % route):
                r_strains, r_stresses = _checked(c, 'calculate_strain_stress', strain_fn, rargs)
        except RepoRaised as e:
            if not isinstance(e.exc, (NumbaError, TypeError)):
                raise
            c.label('route_rejected:' + route)       # undocumented dtype rejected cleanly at typing time
        else:
            c.label('route_applied:' + route)
            for nm, a, b in (('strain', strains, r_strains), ('stress', stresses, r_stresses)):
                okr = a.shape == b.shape and b.dtype == np.complex128
                if okr:
                    rowmax = np.max(np.abs(a), axis=(2, 3, 4), keepdims=True)
                    okr = bool(np.all(np.abs(a - b) <= ROUTE_TOL * rowmax + 1e-280))
                c.check(okr, {'clause': 'dtype_route', 'what': nm, 'route': route},
                        '%s differs between float64 arguments and %s arguments (types %r): max |diff| %r'
                        % (nm, route, [_tname(x) for x in rargs[9:]],
                           float(np.max(np.abs(a - b))) if a.shape == b.shape else 'shape %r vs %r' % (a.shape, b.shape)))
            strains, stresses = r_strains, r_stresses
    with repo_call('calculate_volumetric_heating'):
        heating = _checked(c, 'calculate_volumetric_heating', heat_fn, [stresses, strains])
    shp = (6, nr, nl, nc, nt)
    ok = (strains.shape == shp and stresses.shape == shp and heating.shape == shp[1:]
          and strains.dtype == np.complex128 and stresses.dtype == np.complex128)
    c.check(ok, {'clause': 'shape'}, 'shapes %r %r %r dtypes %r %r (expected %r complex128)'
            % (strains.shape, stresses.shape, heating.shape, strains.dtype, stresses.dtype, shp))
    if not ok:
        return c.result()
    fin = bool(np.all(np.isfinite(strains)) and np.all(np.isfinite(stresses)))
    c.check(fin, {'clause': 'finite'}, 'non-finite strain/stress entries')
    if not fin:
        return c.result()
    ctx = 'l=%d mode=%s bulk=%s' % (l, case['mode'], case['bulk_dtype'])

    def where(err_ratio):
        idx = np.unravel_index(int(np.argmax(err_ratio)), err_ratio.shape)
        return idx

    mu = shear.reshape(-1, 1, 1, 1)
    K = np.asarray(bulk, dtype=np.complex128).reshape(-1, 1, 1, 1)
    lam = K - 2.0 * mu / 3.0
    amu, aK = np.abs(mu), np.abs(K)
    aeps = np.abs(strains)
    tr = strains[0] + strains[1] + strains[2]
    diag_abs = aeps[0] + aeps[1] + aeps[2]
    tiny = 1e-280          # absolute floor: products involving subnormal potential values (e.g. sin(m*1e-308)) lose relative accuracy
    # -- Hooke, component-wise
    names = ['rr', 'thth', 'phph', 'rth', 'rph', 'thph']
    pole_idx0 = np.nonzero(np.sin(colat) < 1.0000001e-2)[0]
    for k in range(6):
        want = 2.0 * mu * strains[k] + (lam * tr if k < 3 else 0.0)
        scale = 2.0 * amu * aeps[k] + ((aK + amu) * diag_abs if k < 3 else 0.0)
        ratio = np.abs(stresses[k] - want) / (scale + tiny)
        _stat('hooke', np.max(ratio))
        if len(pole_idx0):
            _stat('hooke@pole', np.max(ratio[:, :, pole_idx0, :]))
        if not np.all(ratio <= HOOKE_TOL):
            i = where(ratio)
            c.fail({'clause': 'hooke', 'component': names[k]},
                   '%s: sigma_%s=%r but 2 mu eps + lam tr(eps) delta=%r at (r,lon,colat,t) index %r (mu=%r K=%r eps=%r tr=%r), '
                   'err/scale=%.3e' % (ctx, names[k], complex(stresses[k][i]), complex(np.broadcast_to(want, ratio.shape)[i]), i,
                                       complex(shear[i[0]]), complex(K[i[0], 0, 0, 0]), complex(strains[k][i]), complex(tr[i]),
                                       float(ratio[i])))
    # -- radial tractions
    y1, y2, y3, y4 = (y[k].reshape(-1, 1, 1, 1) for k in range(4))
    r = radius.reshape(-1, 1, 1, 1)
    Ub, Utb, Upb, Uttb, Uppb = (x.reshape((1,) + x.shape) for x in (U, Ut, Up, Utt, Upp))
    st4, ct4 = sin_t.reshape(1, 1, -1, 1), cot_t.reshape(1, 1, -1, 1)
    want_rr = y2 * Ub
    s_rr = _srr_scale(l, y1, y2, y3, r, mu, K, lam, Ub, Utb, Uttb, Uppb, st4, ct4)
    ratio = np.abs(stresses[0] - want_rr) / (s_rr + tiny)
    _stat('traction/rr', np.max(ratio))
    pole_idx = np.nonzero(np.sin(colat) < 1.0000001e-2)[0]
    if len(pole_idx):
        _stat('traction/rr@pole', np.max(ratio[:, :, pole_idx, :]))
    if not np.all(ratio <= TRAC_TOL):
        i = where(ratio)
        c.fail({'clause': 'traction', 'component': 'rr'},
               '%s: sigma_rr=%r but y2 U=%r at index %r (r=%r y1..y4=%r mu=%r K=%r U=%r colat=%r), err/scale=%.3e'
               % (ctx, complex(stresses[0][i]), complex(np.broadcast_to(want_rr, ratio.shape)[i]), i, float(radius[i[0]]),
                  [complex(v) for v in y[:4, i[0]]], complex(shear[i[0]]), complex(K[i[0], 0, 0, 0]), float(U[i[1:]]),
                  float(colat[i[2]]), float(ratio[i])))
    for comp, k, want, scale in (('rth', 3, y4 * Utb, np.abs(y4) * np.abs(Utb)),
                                 ('rph', 4, y4 * Upb / st4, np.abs(y4) * np.abs(Upb) / st4)):
        ratio = np.abs(stresses[k] - want) / (scale + tiny)
        ratio = np.where(scale > 0.0, ratio, np.where(np.abs(stresses[k]) == 0.0, 0.0, np.inf))
        _stat('traction/' + comp, np.max(ratio))
        if len(pole_idx):
            _stat('traction/%s@pole' % comp, np.max(ratio[:, :, pole_idx, :]))
        if not np.all(ratio <= TRAC_TOL):
            i = where(ratio)
            c.fail({'clause': 'traction', 'component': comp},
                   '%s: sigma_%s=%r but y4 dU=%r at index %r (y4=%r colat=%r), err/scale=%.3e'
                   % (ctx, comp, complex(stresses[k][i]), complex(np.broadcast_to(want, ratio.shape)[i]), i,
                      complex(y[3, i[0]]), float(colat[i[2]]), float(ratio[i])))
    # -- heating
    hok = heating.dtype == np.float64 and bool(np.all(np.isfinite(heating)))
    c.check(hok, {'clause': 'heating', 'what': 'real_finite'}, '%s: heating dtype %r, finite=%r' % (ctx, heating.dtype, hok))
    if hok:
        wv = W.reshape(6, 1, 1, 1, 1)
        want_h = np.abs(np.sum(wv * (stresses * np.conj(strains)).imag, axis=0))
        hscale = np.sum(wv * np.abs(stresses) * aeps, axis=0)
        # non-negative up to rounding: an implementation without abs() may return -1e-16*scale for an exact zero
        c.check(bool(np.all(heating >= -HEAT_TOL * hscale)), {'clause': 'heating', 'what': 'nonnegative'},
                '%s: min heating %r (min heating/scale %.3e)' % (ctx, float(np.min(heating)),
                                                                 float(np.min(heating / (hscale + tiny)))))
        # "derived from them": heating == c * |Im sum_k w_k sigma_k conj(eps_k)| with ONE positive constant c for all
        # points of the case (the statement fixes no normalisation such as omega/2); c = median ratio over the points
        # where the dissipation is not a cancellation residue.
        cond = want_h / (hscale + tiny)                    # conditioning of the dissipation at each point
        sig_pts = cond > max(1e-6, 0.1 * float(np.max(cond)))   # median over the well-conditioned points only
        if np.any(sig_pts) and np.all(hscale[sig_pts] > 1e-250):
            cfac = float(np.median(heating[sig_pts] / want_h[sig_pts]))
            c.label('heating:c=1' if abs(cfac - 1.0) <= 1e-9 else 'heating:c!=1')
            if not (math.isfinite(cfac) and 1e-3 <= cfac <= 1e3):
                c.fail({'clause': 'heating', 'what': 'value'},
                       '%s: heating / |Im sum w sigma conj(eps)| has median %r over %d points (no positive constant in [1e-3,1e3])'
                       % (ctx, cfac, int(np.sum(sig_pts))))
            else:
                ratio = np.abs(heating - cfac * want_h) / (cfac * hscale + tiny)
                _stat('heating/value', np.max(ratio))
                if not np.all(ratio <= HEAT_TOL):
                    i = where(ratio)
                    c.fail({'clause': 'heating', 'what': 'value'},
                           '%s: heating=%r but c*|Im sum w sigma conj(eps)|=%r (c=%r, median ratio over %d points) at index %r, '
                           'err/scale=%.3e; sigma=%r eps=%r'
                           % (ctx, float(heating[i]), cfac * float(want_h[i]), cfac, int(np.sum(sig_pts)), i, float(ratio[i]),
                              [complex(v) for v in stresses[(slice(None),) + i]], [complex(v) for v in strains[(slice(None),) + i]]))
        if case['mode'] != 'visco':
            tol = ELASTIC_TOL if case['mode'] == 'elastic' else ELASTIC_CY_TOL
            # scale: magnitudes of the terms of sigma (2 mu eps_k and lam tr(eps) may cancel inside sigma_k, and their
            # rounding then shows up as a spurious imaginary part of sigma_k conj(eps_k))
            escale = hscale + np.sum(wv * aeps * (2.0 * amu * aeps + (aK + amu) * diag_abs * (wv == 1.0)), axis=0)
            ratio = heating / (escale + tiny)
            _stat('elastic/' + case['mode'], np.max(ratio))
            if not np.all(ratio <= tol):
                i = where(ratio)
                c.fail({'clause': 'elastic', 'mode': case['mode']},
                       '%s: real moduli but heating=%r (scale sum w (|sigma|+2|mu||eps|+|lam||tr eps|)|eps|=%r) at index %r'
                       % (ctx, float(heating[i]), float(escale[i]), i))
    return c.result()


def _srr_scale(l, y1, y2, y3, r, mu, K, lam, U, Ut, Utt, Upp, sin_t, cot_t):
    """Sum of the magnitudes of every term that enters sigma_rr = 2 mu eps_rr + lam (eps_rr + eps_thth + eps_phph):
    the rounding error of the code (and of the supplied potential derivatives) is a few eps times this."""
    L = np.abs(K) + np.abs(mu)                               # bounds |lam| and its own rounding
    ll1 = l * (l + 1.0)
    aU = np.abs(U)
    eps_rr = (np.abs(y2) + (L / r) * (2.0 * np.abs(y1) + ll1 * np.abs(y3))) * aU / np.abs(lam + 2.0 * mu)
    eps_tt = (np.abs(y3) * np.abs(Utt) + np.abs(y1) * aU) / r
    eps_pp = (np.abs(y1) * aU + np.abs(y3) * (np.abs(Upp) / sin_t ** 2 + np.abs(cot_t * Ut))) / r
    return 2.0 * np.abs(mu) * eps_rr + L * (eps_rr + eps_tt + eps_pp) + np.abs(y2) * aU


def selftest():
    ylm.selftest()
    for case in fixed_cases('quick'):
        assert in_domain(case), case
    # the traction identity on an exact toy input evaluated by the harness' own formulas (guards the oracle algebra)
    l, r, mu, K = 3, 2.0, 1.5 + 0.5j, 4.0 + 0.1j
    lam = K - 2 * mu / 3
    y1, y2, y3 = 0.3 + 0.1j, 2.0 - 1.0j, -0.2 + 0.4j
    th, ph = 0.8, 1.1
    a, b = [0.3, -0.2, 0.5, 0.7], [0.0, 0.4, -0.6, 0.1]
    U, Ut, Up, Utt, Upp, Utp = (float(x) for x in ylm.harmonic(l, a, b, th, ph))
    dy1 = (y2 - lam / r * (2 * y1 - l * (l + 1) * y3)) / (lam + 2 * mu)
    err = dy1 * U
    ett = y3 / r * Utt + y1 / r * U
    epp = y1 / r * U + y3 / r * (Upp / math.sin(th) ** 2 + Ut / math.tan(th))
    srr = 2 * mu * err + lam * (err + ett + epp)
    assert abs(srr - y2 * U) < 1e-13 * (abs(y2 * U) + 1.0), (srr, y2 * U)


def warm():
    for case in fixed_cases('quick'):
        evaluate(case)
