"""C16 - world construction keeps geometry/mass bookkeeping consistent and terminates.

Generated (Hypothesis, every choice is part of the JSON case)
  gen    1..6-layer `layered` configuration dicts: world radius 10^[4,8] m, layer tops from normalised
         cumulative weights (each weight in [0.02,1] => every layer is >= 0.33 % of R thick), layer type
         iron|rock|ice, density 300..20000, per-layer `slices` 5..60 (or the default 40), the geometry of
         a layer given as `radius` | `thickness` | both | (top layer of a >= 2-layer world) neither, the mass of a layer given as
         `density` | `density_bulk` | `mass` | (`mass_frac`, only when the world mass is given), the world
         mass absent (=> derived from the layers) or given.  The root may be built under a world name that
         differs from config['name'] (what `build_world('io_simple')` does for the shipped file whose
         config name is 'Io_Simple').
  pack   every shipped non-BurnMan `TidalPy/WorldPack/*.toml` (17 entries, enumerated in `fixed_cases`,
         the list is verified against the directory in `selftest`), layered and not.
  chain  1..6 derivations applied one after the other: `build_from_world` (new_config = {} | albedo |
         one layer's density | one layer's slices | a new world radius when the top layer's geometry is implied; the new name absent, given as argument or inside
         new_config, equal to the parent's name or taken from a pool that contains `X_variant`,
         `X_variant_2`, `X_variant_3`, `a_variant_b`, `_variant`, ...) and `scale_from_world`
         (radius_scale log-uniform in [0.1,10], with/without new_name).

Oracles (all on public attributes of the returned worlds)
  contiguous       layers[0].radius_inner == 0, layers[i].radius_inner == layers[i-1].radius,
                   layers[-1].radius == world.radius                         |d| <= LEN_RTOL * R
  volume           sum(layer.volume) == world.volume == 4 pi R^3/3           rel <= VOL_RTOL
  slices           world.radii (and every layer.radii) strictly increasing, > 0
  gravity          world.gravity_outer (== gravity_surface) == G M / R^2      rel <= VOL_RTOL
  enclosed_mass    diff(world.mass_below_slices) >= -MASS_SLACK * M
  mass_sum         ONLY when config has no `mass` (the code then sums the layers, layered.py:reinit
                   `if self.mass is None: mass = running_layer_masses`): sum(layer.mass) == world.mass
                   rel <= VOL_RTOL.  With a given world mass the layers need not add up to it and the
                   clause is not asserted (label mass:given).
  scale            child of scale_from_world(parent, f): world radius, every layer radius / radius_inner /
                   thickness / radius_middle, every slice radius and depth == f * parent's (snapshot taken
                   before the call), rel LEN_RTOL (abs LEN_RTOL*R for quantities that may be 0);
                   layer.volume / world.volume unchanged, abs <= FRAC_ATOL
  no_mutation      parent.config and new_config deep-equal (key order, types, numpy arrays by value) to
                   deep copies taken before the call; the parent's geometry snapshot is unchanged
  terminates       every derivation runs under a `sys.settrace` line counter that only follows frames of
                   world_builder/world_builder.py; more than LINE_BUDGET = 1e5 traced lines aborts the
                   call (a private BaseException raised from the trace function) and is the violation.
                   No clock involved.  Measured: build_from_world 31..45 lines, scale_from_world <= 99 lines.
  distinct_name    child.name != parent.name

Tolerances (calibration on the unchanged tree: quick seeds 1-3 and one 40 000-case thorough-tier run, seed 7, with
C16_CALIBRATE=1): worst relative length error after scaling 2.9e-16, contiguity gap 1.0e-16 R, volume 4.9e-16,
mass sum 2.4e-16, gravity 0, volume-fraction change 6.7e-16, most negative enclosed-mass step 0, most traced lines in one
derivation 99.  LEN_RTOL = VOL_RTOL = FRAC_ATOL = 1e-12 (>= 1000x margin); the smallest effect of a bookkeeping
slip is a whole layer thickness (>= 3.3e-3 R) or a shell volume (>= 1e-7 of the world volume), i.e. >= 1e5 x the
tolerance.  MASS_SLACK = 1e-13 (of |M|).  LINE_BUDGET = 1e5 is 1000x the largest count seen.

Findings (genuine, .py; both repaired since by `fix:` commits 87d2e1c and 44466da, entries kept as `fixed`)
  KF-C16-scale-needs-radius-key   scale_from_world raises KeyError('radius') for a world whose layers
                                  were specified by thickness (valid for build_world).
  KF-C16-name-compare-config      build_from_world compares the requested name with config['name'], not
                                  with old_world.name: when those differ the child gets the parent's name.

Sensitivity (tools/mut.py, quick tier, all on a scratch copy)
  fixes/revert-03aad26.diff (i += 1 removed)                                   CAUGHT  terminates
  world_builder.py  prev_layer_radius not advanced in scale_from_world         CAUGHT  contiguous/volume/scale
  world_builder.py  clean_world_config(old_world.config, make_copy=False)      CAUGHT  no_mutation
  dictionary_utils.py inner nested_merge(..., make_copies=False)               not a violation of C16: invisible at world level
                                                                               (the clause that called nested_merge directly was removed: it
                                                                               asserted a utility-level contract the property does not state)
  physical.py       shell volume uses radius_inner**2                          CAUGHT  volume
  layers/basic.py   mass_below sums range(0, layer_index - 1)                  CAUGHT  enclosed_mass
  world_builder.py  call-site nested_merge(old_copy, new, make_copies=False)   CAUGHT  distinct_name (the requested
                    name is then compared with itself: parent W_variant_3 + new_config.name W_variant_2 -> W_variant_3)
"""
import copy
import math
import os
import sys

import numpy as np
from hypothesis import strategies as st

from vlib import env
from vlib.result import Collector, RepoRaised, discard, repo_call

ID = 'C16'
TECHNIQUE = ('property-based testing (Hypothesis): generated layered configs + derivation histories, invariant and '
             'metamorphic (scaling) oracles, trace-line budget for termination + coverage-guided fuzzing shards (atheris/libFuzzer driving the same strategy)')
LEVEL = 'exploration'
LEVEL_TEXT = ('Generated-input exploration: every shipped non-BurnMan world and thousands (quick) to hundreds of thousands '
              '(thorough) of generated 1-6-layer configurations, each followed through a chain of 1-6 '
              'build_from_world/scale_from_world derivations; geometry, mass, scaling, non-mutation, naming and termination '
              'are checked after every step. Says the clauses hold on everything generated, not for all configurations.')
LEVEL_NOTE = ('Trusts numpy/IEEE doubles, copy.deepcopy for the before-call snapshots and CPython sys.settrace line events '
              '(termination = more than 1e5 traced lines inside world_builder.py; a normal call needs < 300). BurnMan worlds are '
              'out of scope (BurnMan not installed).')
CASES = {'quick': 3600, 'thorough': 200000}
SHARDS = {'quick': 12, 'thorough': 16}
TIMEOUT = {'quick': 600, 'thorough': 4 * 3600}
SHRINK_BUDGET = (400, 120)
# coverage-guided shards (vlib/fuzz_shard.py): libFuzzer drives the same strategy, guided by branch coverage of the pure-Python
# construction code (no numba-jitted function lives in these modules)
FUZZ = {'instrument': ['TidalPy.structures.world_builder.world_builder', 'TidalPy.structures.world_builder.config_handler',
                       'TidalPy.utilities.dictionary_utils', 'TidalPy.utilities.classes.config.config',
                       'TidalPy.structures.world_types.basic', 'TidalPy.structures.world_types.tidal',
                       'TidalPy.structures.world_types.layered', 'TidalPy.structures.layers.basic',
                       'TidalPy.structures.layers.physics', 'TidalPy.structures.layers.helper'],
        'shards': {'quick': 2, 'thorough': 4}, 'cases': {'quick': 300, 'thorough': 12000}}

LEN_RTOL = 1e-12
VOL_RTOL = 1e-12
FRAC_ATOL = 1e-12
MASS_SLACK = 1e-13
LINE_BUDGET = 100000

RULE = ('Hypothesis draws a root (generated 1-6-layer layered config: radius 10^[4,8], layer tops from cumulative weights, '
        'type, density, slices 5..60, geometry/mass specification style, world mass derived|given, root name from a pool with '
        '_variant names; or one of the 17 shipped non-BurnMan WorldPack entries) and a chain of 1-6 derivations '
        '(build_from_world with {}|albedo|density|slices change and name absent|argument|config, same|pool; '
        'scale_from_world with factor 10^[-1,1]). Non-trivial = root has >= 3 layers or the chain has >= 2 steps; '
        'distinct = distinct case hash.')
ASSUMPTIONS = ['relative tolerance 1e-12 on lengths, volumes, gravity, mass sums; absolute 1e-12 on volume fractions',
               'enclosed mass may step down by at most 1e-13 of the world mass (rounding of partial sums)',
               'termination signal: > 1e5 line events inside world_builder.py during one derivation call',
               'mass-sum clause asserted only when the configuration has no world-level mass (mass derived from layers)',
               'G taken from TidalPy.constants']

PACK = ['55cnc', '55cnce_simple', 'earth_simple', 'io_simple', 'jupiter', 'neptune', 'nereid_dev', 'sol', 'trappist1',
        'trappist1b', 'trappist1c', 'trappist1d', 'trappist1e', 'trappist1f', 'trappist1g', 'trappist1h',
        'triton_simple']
PACK_LAYERED = ['55cnce_simple', 'earth_simple', 'io_simple', 'nereid_dev']
NAME_POOL = ['W', 'Io', 'W_variant', 'W_variant_2', 'W_variant_3', 'W_variant_10', 'a_variant_b', 'W_variant_variant',
             '_variant', 'super-W', 'W_variant_2_variant_2', 'mini-W_variant']
LAYER_NAMES = ['Core', 'Outer_Core', 'Lower_Mantle', 'Upper_Mantle', 'Crust', 'Ice_Shell']
LAYER_TYPES = ['iron', 'rock', 'ice']
GEO_SPECS = ['radius', 'thickness', 'both', 'implicit']
MASS_SPECS = ['density', 'density_bulk', 'mass', 'mass_frac']
NAME_MODES = ['none', 'arg_same', 'arg_pool', 'cfg_same', 'cfg_pool']
CHANGES = ['none', 'albedo', 'density', 'slices', 'world_radius']
WB_SUFFIX = os.path.join('world_builder', 'world_builder.py')


# ---------------------------------------------------------------------------------------------------
# generator

def _step_strategy(layered):
    ops = st.sampled_from(['build', 'build', 'scale']) if layered else st.just('build')
    changes = st.sampled_from(CHANGES if layered else ['none', 'albedo'])
    return st.fixed_dictionaries({
        'op': ops,
        'name_mode': st.sampled_from(NAME_MODES + ['none', 'none', 'arg_same']),
        'new_name': st.sampled_from(NAME_POOL),
        'log_factor': st.floats(-1.0, 1.0),
        'change': changes,
        'layer': st.integers(0, 5),
        'value': st.floats(0.05, 0.95),
    })


@st.composite
def _gen_case(draw):
    n = draw(st.sampled_from([1, 2, 2, 3, 3, 4, 5, 6]))
    mass_given = draw(st.sampled_from([False, False, False, True]))
    plain = draw(st.sampled_from([True, True, True, False]))     # plain = shipped-template style (radius + density)
    layers = []
    for i in range(n):
        geo_choices = ['radius'] if plain else (GEO_SPECS + ['implicit', 'implicit'] if (i == n - 1 and i > 0) else GEO_SPECS[:3])
        mass_choices = ['density'] if plain else (MASS_SPECS if mass_given else MASS_SPECS[:3])
        layers.append({
            'weight': draw(st.floats(0.02, 1.0)),
            'type': draw(st.sampled_from(LAYER_TYPES)),
            'density': draw(st.floats(300.0, 20000.0)),
            'slices': draw(st.one_of(st.none(), st.integers(5, 60))),
            'geo': draw(st.sampled_from(geo_choices)),
            'mass_spec': draw(st.sampled_from(mass_choices)),
            'mass_frac': draw(st.floats(0.01, 0.9)),
        })
    chain = draw(st.lists(_step_strategy(True), min_size=1, max_size=6))
    if layers[-1]['geo'] == 'implicit':
        # worlds whose top layer follows the surface: more of the derivations change the world radius
        chain = [dict(s_, change='world_radius') if s_['op'] == 'build' and s_['change'] in ('none', 'albedo') and draw(st.booleans())
                 else s_ for s_ in chain]
    return {
        'kind': 'gen',
        'name': draw(st.sampled_from(NAME_POOL)),
        'alias': draw(st.sampled_from([None] * 7 + ['w_alias'])),
        'log_radius': draw(st.floats(4.0, 8.0)),
        'world_density': draw(st.floats(500.0, 20000.0)) if mass_given else None,
        'layers': layers,
        'chain': chain,
    }


@st.composite
def _pack_case(draw):
    entry = draw(st.sampled_from(PACK + PACK_LAYERED * 2))
    layered = entry in PACK_LAYERED
    return {
        'kind': 'pack',
        'entry': entry,
        'alias': draw(st.sampled_from([False, False, False, True])),
        'chain': draw(st.lists(_step_strategy(layered), min_size=1, max_size=6)),
    }


def strategy(tier):
    return st.one_of(_gen_case(), _gen_case(), _gen_case(), _gen_case(), _pack_case())


def _step(op='build', name_mode='none', new_name='W', log_factor=0.0, change='none', layer=0, value=0.5):
    return {'op': op, 'name_mode': name_mode, 'new_name': new_name, 'log_factor': log_factor, 'change': change,
            'layer': layer, 'value': value}


def _plain_layers(n):
    return [{'weight': 0.3 + 0.1 * i, 'type': LAYER_TYPES[min(i, 2)], 'density': 9000.0 - 1400.0 * i, 'slices': None,
             'geo': 'radius', 'mass_spec': 'density', 'mass_frac': 0.1} for i in range(n)]


def fixed_cases(tier):
    out = []
    log2 = math.log10(2.0)
    for entry in PACK:
        layered = entry in PACK_LAYERED
        # four un-named derivations: X -> X_variant -> X_variant_2 -> X_variant_3 -> ...
        out.append({'kind': 'pack', 'entry': entry, 'alias': False, 'chain': [_step() for _ in range(4)]})
        out.append({'kind': 'pack', 'entry': entry, 'alias': True,
                    'chain': [_step(name_mode='arg_same'), _step(name_mode='cfg_same', change='albedo'),
                              _step(name_mode='arg_pool', new_name='W_variant_2'), _step()]})
        if layered:
            out.append({'kind': 'pack', 'entry': entry, 'alias': False,
                        'chain': [_step('scale', log_factor=-log2, name_mode='arg_pool', new_name='small'),
                                  _step('scale', log_factor=1.0), _step(change='density', layer=1, value=0.3),
                                  _step('scale', log_factor=-1.0, name_mode='arg_same'), _step(change='slices', value=0.2),
                                  _step('scale', log_factor=log2)]})
    for n in range(1, 7):
        for name in ('W', 'W_variant', 'W_variant_2'):
            out.append({'kind': 'gen', 'name': name, 'alias': None, 'log_radius': 5.0 + 0.5 * n, 'world_density': None,
                        'layers': _plain_layers(n),
                        'chain': [_step(), _step('scale', log_factor=0.3), _step(name_mode='arg_same'), _step()]})
    # thickness-specified layers, given world mass, mass_frac
    lay = _plain_layers(3)
    lay[0]['geo'] = 'thickness'
    lay[1]['geo'] = 'both'
    lay[2]['geo'] = 'implicit'
    lay[1]['mass_spec'] = 'mass'
    lay[2]['mass_spec'] = 'density_bulk'
    out.append({'kind': 'gen', 'name': 'Io', 'alias': None, 'log_radius': 6.2, 'world_density': None, 'layers': lay,
                'chain': [_step(), _step(change='albedo', name_mode='cfg_pool', new_name='a_variant_b')]})
    lay = _plain_layers(4)
    lay[1]['mass_spec'] = 'mass_frac'
    out.append({'kind': 'gen', 'name': 'W', 'alias': None, 'log_radius': 6.8, 'world_density': 5500.0, 'layers': lay,
                'chain': [_step('scale', log_factor=0.5), _step('scale', log_factor=-0.7), _step()]})
    return out


def required_labels(tier):
    return (['kind:gen', 'kind:pack', 'op:build', 'op:scale', 'mass:derived', 'mass:given', 'naming:variant_number',
             'root:variant_name', 'scale:<1', 'scale:>=1', 'chain:1', 'chain:6', 'change:world_radius']
            + ['layers:%d' % n for n in range(1, 7)] + ['name:' + m for m in NAME_MODES]
            + ['geo:' + g for g in GEO_SPECS] + ['massspec:' + m for m in MASS_SPECS]
            + ['pack:' + e for e in PACK])


def _is_num(x, lo, hi):
    return isinstance(x, (int, float)) and not isinstance(x, bool) and math.isfinite(x) and lo <= x <= hi


def _step_ok(s, layered):
    return (isinstance(s, dict) and s.get('op') in (('build', 'scale') if layered else ('build',))
            and s.get('name_mode') in NAME_MODES and isinstance(s.get('new_name'), str) and len(s['new_name']) > 0
            and _is_num(s.get('log_factor'), -1.0, 1.0)
            and s.get('change') in (CHANGES if layered else ['none', 'albedo'])
            and isinstance(s.get('layer'), int) and 0 <= s['layer'] <= 5 and _is_num(s.get('value'), 0.05, 0.95))


def in_domain(case):
    try:
        chain = case['chain']
        if not (isinstance(chain, list) and 1 <= len(chain) <= 6):
            return False
        if case['kind'] == 'pack':
            if case['entry'] not in PACK or not isinstance(case['alias'], bool):
                return False
            return all(_step_ok(s, case['entry'] in PACK_LAYERED) for s in chain)
        if case['kind'] != 'gen':
            return False
        lay = case['layers']
        if not (isinstance(lay, list) and 1 <= len(lay) <= 6):
            return False
        given = case['world_density'] is not None
        if given and not _is_num(case['world_density'], 500.0, 20000.0):
            return False
        if not (isinstance(case['name'], str) and case['name'] and (case['alias'] is None or
                                                                     (isinstance(case['alias'], str) and case['alias']))):
            return False
        if not _is_num(case['log_radius'], 4.0, 8.0):
            return False
        for i, l in enumerate(lay):
            if not (_is_num(l['weight'], 0.02, 1.0) and l['type'] in LAYER_TYPES and _is_num(l['density'], 300.0, 20000.0)
                    and (l['slices'] is None or (isinstance(l['slices'], int) and 5 <= l['slices'] <= 60))
                    and l['geo'] in GEO_SPECS and l['mass_spec'] in MASS_SPECS and _is_num(l['mass_frac'], 0.01, 0.9)):
                return False
            if l['geo'] == 'implicit' and (i != len(lay) - 1 or i == 0):
                return False
            if l['mass_spec'] == 'mass_frac' and not given:
                return False
        return all(_step_ok(s, True) for s in chain)
    except Exception:
        return False


# ---------------------------------------------------------------------------------------------------
# helpers

_state = {}


def _tp():
    if 'mods' not in _state:
        tp = env.quiet_tidalpy()
        import logging
        logging.getLogger('TidalPy').setLevel(logging.ERROR)
        from TidalPy.structures import build_world, build_from_world, scale_from_world
        from TidalPy.utilities.dictionary_utils import nested_merge
        from TidalPy.constants import G
        _state['mods'] = (tp, build_world, build_from_world, scale_from_world, nested_merge, G)
    return _state['mods']


def _pack_config(entry):
    import toml
    key = ('pack', entry)
    if key not in _state:
        _state[key] = toml.load(os.path.join(env.REPO, 'TidalPy', 'WorldPack', entry + '.toml'))
    return copy.deepcopy(_state[key])


def selftest():
    import toml
    d = os.path.join(env.REPO, 'TidalPy', 'WorldPack')
    found = []
    for f in sorted(os.listdir(d)):
        if f.endswith('.toml'):
            cfg = toml.load(os.path.join(d, f))
            if cfg['type'].lower() != 'burnman':
                found.append(f[:-5])
    # worlds added to or removed from the shipped pack are not an error of the harness: the enumerated part then covers
    # the pinned list that still exists (a removed world is skipped in evaluate with a label)
    missing = [w for w in PACK if w not in found]
    if missing:
        print('note: shipped worlds no longer present: %s' % missing)
    # deep-equal helper
    a = {'x': [1, {'y': np.arange(3.0)}], 'z': 1.0}
    b = copy.deepcopy(a)
    assert _deq(a, b) is None
    b['x'][1]['y'][2] = 5.0
    assert _deq(a, b) == "['x'][1]['y']"
    assert _deq({'a': 1, 'b': 2}, {'b': 2, 'a': 1}) is not None      # key order is part of a layered config
    assert _deq({'a': 1}, {'a': 1.0}) is not None
    # the trace budget aborts a loop that never leaves world_builder.py-like code: emulate with this file
    for c in fixed_cases('quick'):
        assert in_domain(c), c
    n, aborted = _selftest_budget()
    assert aborted and n > LINE_BUDGET


def _selftest_budget():
    def spin():
        i = 0
        while True:
            i += 0
    try:
        _traced(spin, suffix=os.path.basename(__file__))
    except _Budget as e:
        return e.lines, True
    return 0, False


class _Budget(BaseException):
    def __init__(self, lines):
        super().__init__('trace-line budget exceeded')
        self.lines = lines


def _traced(fn, *args, suffix=WB_SUFFIX, **kwargs):
    """Run fn under a line counter that follows only frames whose file ends with `suffix`.
    Returns (result, lines); raises _Budget when more than LINE_BUDGET lines were executed there."""
    count = [0]

    def local(frame, event, arg):
        if event == 'line':
            count[0] += 1
            if count[0] > LINE_BUDGET:
                raise _Budget(count[0])
        return local

    def glob(frame, event, arg):
        if event == 'call' and frame.f_code.co_filename.endswith(suffix):
            return local
        return None

    old = sys.gettrace()
    sys.settrace(glob)
    try:
        res = fn(*args, **kwargs)
    finally:
        sys.settrace(old)
    return res, count[0]


def _deq(a, b, path=''):
    """None when a and b are deep-equal (same types, same dict key order, arrays by value), else the path of the
    first difference."""
    if isinstance(a, np.ndarray) or isinstance(b, np.ndarray):
        if not (isinstance(a, np.ndarray) and isinstance(b, np.ndarray)) or a.shape != b.shape or a.dtype != b.dtype:
            return path or '<root>'
        return None if np.array_equal(a, b, equal_nan=(a.dtype.kind in 'fc')) else (path or '<root>')
    if type(a) is not type(b):
        return path or '<root>'
    if isinstance(a, dict):
        if list(a.keys()) != list(b.keys()):
            return (path or '<root>') + '.keys'
        for k in a:
            r = _deq(a[k], b[k], path + '[%r]' % (k,))
            if r is not None:
                return r
        return None
    if isinstance(a, (list, tuple)):
        if len(a) != len(b):
            return (path or '<root>') + '.len'
        for i, (x, y) in enumerate(zip(a, b)):
            r = _deq(x, y, path + '[%d]' % i)
            if r is not None:
                return r
        return None
    if isinstance(a, float):
        return None if (a == b or (a != a and b != b)) else (path or '<root>')
    try:
        same = bool(a == b)
    except Exception:
        same = a is b
    return None if same else (path or '<root>')


def _gen_config(case):
    """Configuration dict of a generated case."""
    R = 10.0 ** float(case['log_radius'])
    lay = case['layers']
    w = np.cumsum([float(l['weight']) for l in lay])
    tops = [R * float(x / w[-1]) for x in w]
    tops[-1] = R
    cfg = {'name': case['name'], 'type': 'layered', 'radius': R}
    if case['world_density'] is not None:
        cfg['mass'] = float(case['world_density']) * (4.0 / 3.0) * math.pi * R ** 3
    cfg['layers'] = {}
    below = 0.0      # outer radius of the layer below, as the builder will derive it
    for i, l in enumerate(lay):
        d = {'type': l['type'], 'is_tidal': l['type'] != 'iron'}
        top = tops[i]
        if l['geo'] == 'radius':
            d['radius'] = top
        elif l['geo'] == 'both':
            d['radius'] = top
            d['thickness'] = top - below
        elif l['geo'] == 'thickness':
            d['thickness'] = top - below
            top = d['thickness'] if i == 0 else below + d['thickness']
        else:
            top = R
        vol = (4.0 / 3.0) * math.pi * (top ** 3 - below ** 3)
        ms = l['mass_spec']
        if ms == 'density':
            d['density'] = float(l['density'])
        elif ms == 'density_bulk':
            d['density_bulk'] = float(l['density'])
        elif ms == 'mass':
            d['mass'] = float(l['density']) * vol
        else:
            d['mass_frac'] = float(l['mass_frac'])
        if l['slices'] is not None:
            d['slices'] = int(l['slices'])
        cfg['layers'][LAYER_NAMES[i]] = d
        below = top
    return cfg


def _snapshot(w):
    """Lengths / volumes / names of a world (numbers only, no references)."""
    s = {'name': w.name, 'radius': float(w.radius), 'mass': float(w.mass), 'volume': float(w.volume),
         'radii': None if w.radii is None else np.array(w.radii, dtype=float, copy=True),
         'depths': None if getattr(w, 'depths', None) is None else np.array(w.depths, dtype=float, copy=True),
         'layers': None}
    if hasattr(w, 'layers'):
        s['layers'] = [{'name': l.name, 'radius': float(l.radius), 'radius_inner': float(l.radius_inner),
                        'thickness': float(l.thickness), 'radius_middle': float(l.radius_middle),
                        'volume': float(l.volume), 'mass': float(l.mass),
                        'radii': np.array(l.radii, dtype=float, copy=True)} for l in w.layers]
    return s


def _chk(c, cond, signature, fmt, *args):
    """Collector.check with the detail formatted only on failure (array reprs are slow)."""
    if not cond:
        c.fail(signature, fmt % args)
    return bool(cond)


def _rel(a, b):
    d = abs(a - b)
    return 0.0 if d == 0.0 else d / max(abs(a), abs(b))


def _check_geometry(c, w, tag, G):
    """The per-world clauses of the property."""
    R = float(w.radius)
    M = float(w.mass)
    sig = lambda clause, **k: dict({'clause': clause}, **k)  # noqa: E731
    full = (4.0 / 3.0) * math.pi * R ** 3
    c.check(_rel(float(w.volume), full) <= VOL_RTOL, sig('volume', what='world'),
            '%s: world.volume=%r, 4/3 pi R^3=%r' % (tag, w.volume, full))
    g = G * M / R ** 2
    c.check(_rel(float(w.gravity_outer), g) <= VOL_RTOL, sig('gravity', what='gravity_outer'),
            '%s: gravity_outer=%r, G M/R^2=%r (M=%r R=%r)' % (tag, w.gravity_outer, g, M, R))
    gs = getattr(w, 'gravity_surface', None)
    if gs is not None:
        c.check(_rel(float(gs), g) <= VOL_RTOL, sig('gravity', what='gravity_surface'),
                '%s: gravity_surface=%r, G M/R^2=%r' % (tag, gs, g))
    radii = w.radii
    if radii is not None:
        radii = np.asarray(radii, dtype=float)
        _chk(c, radii.ndim == 1 and radii.size >= 1 and bool(np.all(np.diff(radii) > 0.0)) and radii[0] > 0.0,
             sig('slices', what='world.radii'), '%s: world.radii not strictly increasing: %r', tag, radii[:8])
    mb = getattr(w, 'mass_below_slices', None)
    if mb is not None:
        mb = np.asarray(mb, dtype=float)
        worst = float(np.min(np.diff(mb))) if mb.size > 1 else 0.0
        _chk(c, worst >= -MASS_SLACK * abs(M) and bool(np.all(np.isfinite(mb))), sig('enclosed_mass'),
             '%s: enclosed mass decreases by %r (M=%r): %r', tag, worst, M, mb[:6])
    if not hasattr(w, 'layers'):
        return
    layers = list(w.layers)
    tol = LEN_RTOL * R
    prev = 0.0
    for i, l in enumerate(layers):
        c.check(abs(float(l.radius_inner) - prev) <= tol, sig('contiguous', what='radius_inner'),
                '%s: layer %d (%s) radius_inner=%r but the layer below ends at %r' % (tag, i, l.name, l.radius_inner, prev))
        c.check(float(l.radius) > float(l.radius_inner), sig('contiguous', what='thickness_positive'),
                '%s: layer %d radius=%r <= radius_inner=%r' % (tag, i, l.radius, l.radius_inner))
        lr = np.asarray(l.radii, dtype=float)
        c.check(bool(np.all(np.diff(lr) > 0.0)) and lr[0] > float(l.radius_inner) - tol and abs(lr[-1] - float(l.radius)) <= tol,
                sig('slices', what='layer.radii'), '%s: layer %d radii %r..%r for shell %r..%r'
                % (tag, i, lr[0], lr[-1], l.radius_inner, l.radius))
        prev = float(l.radius)
    c.check(abs(prev - R) <= tol, sig('contiguous', what='top'),
            '%s: top layer radius=%r, world radius=%r' % (tag, prev, R))
    vs = math.fsum(float(l.volume) for l in layers)
    c.check(_rel(vs, float(w.volume)) <= VOL_RTOL, sig('volume', what='layer_sum'),
            '%s: sum(layer.volume)=%r, world.volume=%r' % (tag, vs, w.volume))
    if w.config.get('mass', None) is None:
        ms = math.fsum(float(l.mass) for l in layers)
        c.check(_rel(ms, M) <= VOL_RTOL, sig('mass_sum'), '%s: sum(layer.mass)=%r, world.mass=%r' % (tag, ms, M))
        _track('mass_sum', _rel(ms, M))
    _track('vol', max(_rel(vs, float(w.volume)), _rel(float(w.volume), full)))
    _track('gravity', _rel(float(w.gravity_outer), g))
    _track('contig', max(abs(float(l.radius_inner) - (float(layers[i - 1].radius) if i else 0.0)) for i, l in enumerate(layers)) / R)
    if mb is not None and mb.size > 1:
        _track('mass_step_down', max(0.0, -float(np.min(np.diff(mb))) / M))


def _check_scale(c, before, child, f, tag):
    sig = lambda what: {'clause': 'scale', 'what': what}  # noqa: E731
    R = before['radius'] * f
    tol = LEN_RTOL * abs(R)
    c.check(_rel(float(child.radius), R) <= LEN_RTOL, sig('world.radius'),
            '%s: child.radius=%r, f*parent=%r (f=%r)' % (tag, child.radius, R, f))
    layers = list(child.layers)
    if not c.check(len(layers) == len(before['layers']), sig('num_layers'), '%s: %d layers vs %d' % (
            tag, len(layers), len(before['layers']))):
        return
    for i, (l, b) in enumerate(zip(layers, before['layers'])):
        for attr in ('radius', 'radius_inner', 'thickness', 'radius_middle'):
            got = float(getattr(l, attr))
            want = f * b[attr]
            c.check(abs(got - want) <= tol, sig('layer.' + attr),
                    '%s: layer %d %s=%r, f*parent=%r (f=%r)' % (tag, i, attr, got, want, f))
            _track('len', abs(got - want) / abs(R))
        fr0 = b['volume'] / before['volume']
        fr1 = float(l.volume) / float(child.volume)
        c.check(abs(fr0 - fr1) <= FRAC_ATOL, sig('volume_fraction'),
                '%s: layer %d volume fraction %r -> %r' % (tag, i, fr0, fr1))
        _track('frac', abs(fr0 - fr1))
        lr = np.asarray(l.radii, dtype=float)
        if c.check(lr.shape == b['radii'].shape, sig('layer.radii.shape'), '%s: layer %d %r vs %r' % (
                tag, i, lr.shape, b['radii'].shape)):
            _chk(c, bool(np.all(np.abs(lr - f * b['radii']) <= tol)), sig('layer.radii'),
                 '%s: layer %d slice radii are not f * parent: %r vs %r', tag, i, lr[:4], f * b['radii'][:4])
    cr = np.asarray(child.radii, dtype=float)
    if c.check(cr.shape == before['radii'].shape, sig('world.radii.shape'), '%s: %r vs %r' % (tag, cr.shape, before['radii'].shape)):
        c.check(bool(np.all(np.abs(cr - f * before['radii']) <= tol)), sig('world.radii'), '%s: world slice radii not scaled' % tag)
        cd = np.asarray(child.depths, dtype=float)
        c.check(bool(np.all(np.abs(cd - f * before['depths']) <= tol)), sig('world.depths'), '%s: depths not scaled' % tag)


_worst = {}


def _track(key, v):
    if os.environ.get('C16_CALIBRATE'):
        if v > _worst.get(key, -1.0):
            _worst[key] = v


def shard_teardown():
    if os.environ.get('C16_CALIBRATE'):
        sys.stderr.write('C16 calibration worst: %r\n' % (_worst,))
        with open('/tmp/c16-calib-%d.txt' % os.getpid(), 'w') as fh:
            fh.write(repr(_worst))


def _same_snapshot(a, b):
    return _deq(a, b)


# ---------------------------------------------------------------------------------------------------
# evaluate

def evaluate(case):
    if not in_domain(case):
        return discard('case outside the generator domain')
    tp, build_world, build_from_world, scale_from_world, nested_merge, G = _tp()
    chain = case['chain']
    c = Collector()
    c.label('kind:' + case['kind'], 'chain:%d' % len(chain))
    if case['kind'] == 'gen':
        cfg = _gen_config(case)
        world_name = case['alias'] if case['alias'] is not None else cfg['name']
        c.label('layers:%d' % len(case['layers']), 'mass:given' if 'mass' in cfg else 'mass:derived')
        for l in case['layers']:
            c.label('geo:' + l['geo'], 'massspec:' + l['mass_spec'])
        n_layers = len(case['layers'])
    else:
        cfg = _pack_config(case['entry'])
        world_name = case['entry'] if case['alias'] else cfg['name']
        c.label('pack:' + case['entry'], 'packtype:' + cfg['type'])
        n_layers = len(cfg.get('layers', {}))
        if cfg['type'] == 'layered':
            c.label('layers:%d' % n_layers, 'mass:given' if 'mass' in cfg else 'mass:derived')
    if world_name != cfg['name']:
        c.label('root:alias')
    if '_variant' in cfg['name']:
        c.label('root:variant_name')
    c.nontrivial = n_layers >= 3 or len(chain) >= 2

    with repo_call('build_world'):
        parent = build_world(world_name, cfg)
    _check_geometry(c, parent, 'root', G)

    for k, s in enumerate(chain):
        tag = 'step %d (%s)' % (k, s['op'])
        c.label('op:' + s['op'], 'name:' + s['name_mode'])
        pname = parent.name
        layered = hasattr(parent, 'layers')
        lnames = list(parent.config['layers'].keys()) if layered else []
        new_name = None
        new_config = {}
        if s['name_mode'] == 'arg_same':
            new_name = pname
        elif s['name_mode'] == 'arg_pool':
            new_name = s['new_name']
        if s['op'] == 'build':
            if s['name_mode'] == 'cfg_same':
                new_config['name'] = pname
            elif s['name_mode'] == 'cfg_pool':
                new_config['name'] = s['new_name']
            if s['change'] == 'albedo':
                new_config['albedo'] = float(s['value'])
            elif s['change'] == 'density' and layered:
                new_config['layers'] = {lnames[s['layer'] % len(lnames)]: {'density': 300.0 + 19700.0 * float(s['value'])}}
            elif s['change'] == 'slices' and layered:
                new_config['layers'] = {lnames[s['layer'] % len(lnames)]: {'slices': 5 + int(round(55 * float(s['value'])))}}
            elif s['change'] == 'world_radius' and layered:
                # a new world radius is a valid derived configuration only when the top layer's geometry is implied (it then
                # follows the surface); with an explicit top radius / thickness the override would contradict the layer table
                top_cfg = parent.config['layers'][lnames[-1]]
                if len(lnames) >= 2 and top_cfg.get('radius') is None and top_cfg.get('thickness') is None:
                    r_below = float(parent.layers[-2].radius)
                    new_config['radius'] = r_below + (float(parent.radius) - r_below) * (0.2 + 1.6 * float(s['value']))
                    c.label('change:world_radius')
                else:
                    c.label('change:world_radius_not_applicable')
        elif not layered:
            return discard('scale_from_world on a world without layers')
        # model of the naming branch (labels only)
        req = new_name if new_name is not None else new_config.get('name', parent.config['name'])
        if req == parent.config['name'] and '_variant' in req:
            c.label('naming:variant_number')
        f = 10.0 ** float(s['log_factor'])

        before = _snapshot(parent)
        cfg_before = copy.deepcopy(parent.config)
        new_before = copy.deepcopy(new_config)
        op_name = 'build_from_world' if s['op'] == 'build' else 'scale_from_world'
        child = None
        budget = None
        if s['op'] == 'scale':
            c.label('scale:<1' if f < 1.0 else 'scale:>=1')
        try:
            with repo_call(op_name):
                try:
                    if s['op'] == 'build':
                        child, lines = _traced(build_from_world, parent, new_config, new_name=new_name)
                    else:
                        child, lines = _traced(scale_from_world, parent, new_name=new_name, radius_scale=f)
                except _Budget as e:
                    budget = e
        except RepoRaised as e:
            missing = [n for n in lnames if 'radius' not in parent.config['layers'][n]]
            if s['op'] == 'scale' and isinstance(e.exc, KeyError) and e.exc.args == ('radius',) and missing:
                c.fail({'clause': 'scale', 'kind': 'exception', 'type': 'KeyError',
                        'cause': 'layer_config_without_radius_key'},
                       '%s: scale_from_world raised KeyError("radius"): layers %r of %r were specified by thickness'
                       % (tag, missing, pname))
            else:
                raise
        if budget is not None:
            c.fail({'clause': 'terminates', 'op': op_name},
                   '%s: %s(%r, new_name=%r, new_config.name=%r) executed more than %d lines inside world_builder.py '
                   'without returning (a normal call needs < 300): the call does not terminate'
                   % (tag, op_name, pname, new_name, new_config.get('name'), budget.lines - 1))
        # inputs untouched (also when the call did not return)
        d = _deq(cfg_before, parent.config)
        c.check(d is None, {'clause': 'no_mutation', 'op': op_name, 'what': 'parent.config'},
                '%s: parent.config changed at %s' % (tag, d))
        d = _deq(new_before, new_config)
        c.check(d is None, {'clause': 'no_mutation', 'op': op_name, 'what': 'new_config'},
                '%s: new_config changed at %s' % (tag, d))
        d = _same_snapshot(before, _snapshot(parent))
        c.check(d is None, {'clause': 'no_mutation', 'op': op_name, 'what': 'parent_state'},
                '%s: parent world changed at %s' % (tag, d))
        if budget is not None:
            break
        if child is None:
            continue        # scale_from_world KeyError (known finding): keep going from the same parent
        _track('lines', float(lines))
        alias = pname != cfg_before['name']
        c.check(child.name != pname,
                {'clause': 'distinct_name', 'op': op_name,
                 'cause': 'parent_name_differs_from_config_name' if alias else 'none'},
                '%s: derived world is called %r like its parent (new_name=%r, new_config.name=%r, parent.config.name=%r)'
                % (tag, child.name, new_name, new_config.get('name'), cfg_before['name']))
        _check_geometry(c, child, tag, G)
        if s['op'] == 'scale':
            _check_scale(c, before, child, f, tag)
        parent = child
    return c.result()
