"""C18 - an interrupted multiprocessing parameter study restarts without redoing or losing cases.

Anchor: TidalPy/utilities/multiprocessing/multiprocessing.py:multiprocessing_run (restart path: re-read the
inputs from tpy_mp.log, skip the cases that have a success marker, reload their mp_results.npz).

A case of this check is a *scenario* (pure JSON):
  axes      1..3 MultiprocessingInput axes: start/end (int or float, also 1e-07 / 1e+16 style reprs), scale
            linear|log, n in 2..4, must_include given as [] | list | TUPLE (0..3 values, some coinciding with
            grid points so that np.unique merges them); at most 64 grid points in total
  pool      max_procs 4..16
  raise     set of case numbers whose study function raises on the first run (avoid_crashes=True path)
  kill      None, or (case k, step s, delay_ms): when the worker that handles case k reaches step s it
            waits delay_ms (the other workers run on: the sampled schedule dimension) and SIGKILLs the
            WHOLE process group of the study (parent, all pool workers, resource tracker).
            Steps: pre_log (before the worker opens tpy_mp.log to append the line that starts a case), post_log
            (after that append is closed) - for these two the case number is not yet visible in any file
            operation, so `case` = k means "the k-th case START of the study" (global ticket) -, post_mkdir
            (after os.makedirs of the directory ..._run_k), post_func (the harness' study function is about to
            return for case k), mid_savez (np.savez done, file truncated to half its size), post_savez,
            post_marker (mp_success.log written and closed), post_success_line (the append to tpy_mp.log that
            follows the study function of case k is closed).
            All kill points are recognised by FILE OPERATIONS (open/close of tpy_mp.log and mp_success.log,
            os.makedirs, np.savez, the harness' own study function), never by the text of a message: rewording
            the log/print messages of the module leaves every kill point in place (see vlib/mp_driver.py).
            Header steps (kill in the study PARENT while it writes the header of tpy_mp.log, before the pool
            exists and before any case has started; `case` then only selects the cut of header_mid_inputs):
            header_empty (log file created by open(.., 'w'), still empty), header_mid_inputs (log cut after
            1 .. dims-1 input lines, i.e. between input lines; with one axis: after its only line),
            header_no_close (only the last line of the header, the terminator of the input block, missing).
            The cut is made by line position counted from the end of what the parent wrote (last line =
            terminator, the dims lines before it = inputs), cross-checked with the harness' axis names; a
            failed cross-check is a HarnessError (the header layout changed: the model needs review).
Vacuity guard: a planned kill that never fires is labelled kill:not_reached; if more than 10 % of the planned
kills of a run are not reached, or a planned step never fires at all, the run ends with HARNESS-ERROR (exit 2).
  work_ms   unit of the per-case sleep inside the study function (spreads the workers over the steps)
  For scenarios without kill (the interruption is "individual cases raising"):
  avoid_crashes  True (the module catches the exception per case, the study returns with those cases failed) or
            False (the exception reaches the pool: the first run reports 'Study unsuccessfully concluded' and
            returns None - that IS the interruption; the cases after the raising one in its chunk never ran)
  same_process   False: the restart is a new python process; True: run 1 and run 2 are calls of
            multiprocessing_run in ONE driver process (interactive session / retrying script: pathos caches its
            pools per node count, module state survives), the driver takes the "complete at the restart"
            snapshot in between (after the disk has gone quiet)
  pool2     max_procs of the restart (null = the same pool size as run 1)
  prelude   same_process only: an unrelated successful 2x2 study ran earlier in the same process, same pool size
  Kill scenarios keep avoid_crashes=True / fresh process (the killed process is gone).
  History (sequence of runs on ONE directory D, fresh processes):
  force_restart_first  force_restart flag of run 1 (on an empty directory both values start the study in D)
  middle    0..3 further calls multiprocessing_run(D, ...) between run 1 and the final resumes, each with its own
            force_restart (False = resume of D; True = the module opens a NESTED study D/restarted_study_N, a fresh
            study with the same inputs), its own raising subset and its own kill point (a kill in a resume is
            taken among the cases still to be done; header kills only where a header is written)
  final_order  nested_first | outer_first: order of the final resumes.
  The harness tracks, per run, the directory the run works in (model: a forced restart of a study whose header
  is complete goes to the first free restarted_study_N, everything else works in D) and, observed on disk before
  every run, which cases are complete in EACH study directory (D and every nested one).  After the history,
  every study directory gets a final resume (multiprocessing_run(<that directory>, force_restart=False), no
  faults) which must satisfy all oracles against the same uninterrupted reference.

Every scenario runs three times `python -m vlib.mp_driver` (own session/process group, stdin=/dev/null) in
scratch directories under one tempfile.mkdtemp() that is always removed:
  reference  uninterrupted, fresh directory, no faults (cached per (axes, pool) inside a shard)
  run 1      faults injected: proxies for the names open/os/np inside the module under test,
             installed before the pool forks (fork start method + dill pickles func_to_use's globals by
             reference to the module dict - both facts are asserted by selftest())
  run 2      same directory, force_restart=False, no faults.
Between run 1 and run 2 the harness waits until no live process of run 1's group is left, then takes the
snapshot "complete at the kill" per case: success marker present AND mp_results.npz loadable with both
arrays.  The study function (vlib/mp_driver.py:study_function, importable so dill pickles it by reference)
appends one line to a per-case counter file outside the study directory (O_APPEND, one write) *before* it
sleeps/raises, and returns {'v': f(inputs), 'args': inputs}.

Oracles (exactly the clauses of the statement)
  completes   run 2 returns: no exception, not None, no hang (timeout RUN_TIMEOUT s => signature kind 'hang',
              reported separately from 'exception' / 'returned_none' / 'died').  A run 1 that neither
              finishes nor reaches its kill point within the timeout is reported as {clause: run1, kind: hang}.
  one_result  for every case number 0..N-1 exactly one element in the list returned by run 2.
  equal       its v and args are == the reference run's (bitwise float equality: the same function of
              the same grid value; the restart re-reads the inputs from repr() text, which round-trips
              doubles exactly - any difference is a different grid, not rounding).
  labels      every returned element (plain tuple or namedtuple, accessed positionally) carries its own case
              number and grid index: index == unravel(case_number) in the C-ordered grid, and the args
              the study function saw are the grid values at that index (harness model of the grid:
              linspace/logspace + must_include, unique).  The same clause is applied to the reference run.
  counters    executions per (study directory, grid point) - the counter lines record the inputs and the study
              directory the case was executed for - judged per run of the history: a case that was complete
              (marker + loadable result) in its directory when a run started is not executed by that run; any
              other case at most once per run; after the final resume of a directory every case was executed
              at least once for that directory; no execution of a point outside the grid.  (For the two-run
              scenario this is the old rule: <= 1 for cases complete at the kill, <= 2 otherwise, <= 1 after a
              header kill.)
No numeric tolerance anywhere (equality only; see 'equal').

Non-trivial = at the restart at least one case was complete and at least one was not (kill fired, or cases
raised), or a header kill fired (the log exists but is incomplete).  Distinct = distinct scenario JSON.  The positions of the *other* workers at the kill are whatever
the OS scheduler made of them (plus delay_ms, work_ms): sampled, not controlled - stated limitation.

Sensitivity (tools/mut.py, quick tier, all CAUGHT; signatures seen in brackets):
  fixes/revert-e71b860.diff (tuple must_include not parsed on restart)      [completes/exception ValueError]
  fixes/revert-f86d9b1.diff (case_number=run_num closure)                   [labels + one_result, reference and restart]
  fixes/revert-ae3bd3c.diff (success marker written before the result file) [completes/exception FileNotFoundError,
                                                                             BadZipFile, EOFError]
  fixes/revert-94c69eb.diff (incomplete log header taken for a study to restart) [completes/exception IndexError
                      (header_empty); equal, labels, counters/never_executed + point_outside_grid (header_mid_inputs:
                      the restart runs a smaller grid)]
  dropped `continue` after `skipped_indicies[run_num] = ...` (completed cases run again)
                                                          [counters/completed_case_executed_again, one_result/duplicate]
  `mp_results = mp_results + previous_run_data` -> `pass` (reloaded results dropped)       [one_result/missing]
  first `if not os.path.isfile(success_file_path):` -> `if os.path.isfile(...)`            [completes/exception, counters]
  `input_data[2] = float(input_data[2])` -> `float(input_data[1])` (end := start on restart) [completes/exception, counters]
  `previous_run_data.append((run_num, run_indicies, ...` -> `run_indicies[::-1]`           [labels]
  np.load of the first skipped case's file for every skipped case (stale alias)            [equal, labels]

  seeded/C18-1 (restart reads must_include with a digits regex: 1e-07 style values split)  [completes/exception, counters]
  seeded/C18-2 (restart reuses any existing result file of an unmarked case, also truncated ones) [completes/returned_none]
  seeded/C18-3 (pool.terminate() in the crash handler leaves a dead pool in pathos' cache: rerun in the same process
               with the same max_procs after an avoid_crashes=False failure -> 'Pool not running')  [completes/returned_none]
  seeded/C18-4 (skip list collected by a recursive search for mp_success.log: markers of a nested restarted_study_N
               count for the outer study)  [completes/exception FileNotFoundError / BadZipFile on the outer resume]
Negative controls: rewording the messages ('MP Study:: Working on Case' -> 'MP Study: case', 'completed successfully'
  -> 'done') plus an extra preamble line in the log header => rc 0 with all 11 kill steps firing (injection is keyed on
  file operations); `os.makedirs(this_run_dir)` -> `os.mkdir(...)` (post_mkdir hook no longer reached) => HARNESS-ERROR
  exit 2 from the vacuity guard, not a silent pass.

Note: on the tree before 94c69eb a header_no_close log happened to restart correctly (the parser simply ran to the
end of the file), so that variant does not discriminate the revert; header_empty and header_mid_inputs do.

Measured: one scenario ~3 CPU-s (three runs of ~1 s: 0.8 s import + pool start); quick = 36 fixed + 142 generated (about 1/3 of them histories with 1-2 middle runs, 4-6 runs each)
scenarios on 16 shards.
"""
import json
import os
import re
import shutil
import signal
import subprocess
import tempfile
import time

import numpy as np
from hypothesis import strategies as st

from vlib import env
from vlib.mp_driver import (CASE_STEPS, HEADER_STEPS, STEPS, f_value, header_lines, read_counters as _read_counters,
                            snapshot as _snapshot)
from vlib.result import Collector, HarnessError, discard

ID = 'C18'
TECHNIQUE = ('fault-injection fuzzing (Hypothesis scenarios + enumerated kill points): SIGKILL of the study process '
             'group at instrumented bookkeeping steps, restart, differential against an uninterrupted reference run')
LEVEL = 'fault_enumeration'
LEVEL_TEXT = ('Fault enumeration over the named bookkeeping steps (8 kill steps inside one case + 3 kill points inside the log header; 8 steps x every case of the enumerated '
              'grids x pool sizes, plus generated grids/pools/raising subsets): for every scenario run, the restart completed, '
              'returned exactly one correctly labelled result per case equal to an uninterrupted run, and did not re-execute '
              'completed cases.  The interleaving of the other pool workers at the kill is sampled (scheduler, delays), not '
              'enumerated; header kills are modelled at line granularity (empty / cut between lines / closing line missing), not mid-line.')
LEVEL_NOTE = ('Trusts: Linux SIGKILL/process-group semantics and page-cache persistence across SIGKILL (no power loss model), '
              'fork start method of pathos/multiprocess and dill by-reference pickling of module globals (asserted in selftest), '
              'the harness model of the grid (numpy linspace/logspace/unique), and the injected truncation as model of a '
              'partially written npz.  Study function, counters and proxies are harness code.')
CASES = {'quick': 142, 'thorough': 4000}
SHARDS = {'quick': 16, 'thorough': 16}
TIMEOUT = {'quick': 1500, 'thorough': 4 * 3600}
SHRINK_BUDGET = (12, 60.0)
RUN_TIMEOUT = 90.0           # seconds per study run; a healthy run takes ~1 s (import 0.8 s + pool)
MAX_POINTS = 64

RULE = ('A scenario = (1-3 axes with n 2-4, linear/log, must_include as []/list/tuple; pool 4-16; raising subset; kill point '
        '(case k, one of 8 case steps or 3 log-header steps, delay) or none; optionally a history of 1-2 further runs on the same '
        'directory with generated force_restart flags (forced = nested study) and their own interruptions, then a final '
        'resume of every study directory).  Fixed cases enumerate every kill step (thorough: every (case, step) of a '
        '3x3 grid x 4 pool sizes x 2 delays); the rest is drawn by Hypothesis.  Non-trivial: at the restart >= 1 case was '
        'complete (success marker and loadable result file) and >= 1 was not, or a header kill fired.  Distinct = distinct scenario JSON.')
ASSUMPTIONS = ['equality of results is bitwise (same function, same grid values; repr() round-trips doubles)',
               'SIGKILL of the whole process group models "process killed"; the schedule of the other workers is sampled',
               'mid_savez models a partially written result file by truncating the finished file to half its size',
               'header_* kills model a partially written log header by flushing the lines written so far before SIGKILL',
               'complete-at-kill := mp_success.log exists and mp_results.npz loads with arrays v and args',
               'run timeout %.0f s (healthy run ~1 s): longer => reported as hang' % RUN_TIMEOUT]

_DELAYS = [0, 0, 1, 3, 10, 30]


# ---- model of the grid --------------------------------------------------------------------------------

def model_arrays(axes):
    out = []
    for ax in axes:
        if ax['scale'] == 'log':
            arr = np.logspace(ax['start'], ax['end'], ax['n'])
        else:
            arr = np.linspace(ax['start'], ax['end'], ax['n'])
        if len(ax['mi']) > 0:
            m = np.asarray([float(v) for v in ax['mi']])
            if ax['scale'] == 'log':
                m = 10 ** m
            arr = np.unique(np.concatenate((arr, m)))
        out.append(np.asarray(arr, dtype=float))
    return out


def _shape(arrays):
    return tuple(len(a) for a in arrays)


def _npoints(axes):
    return int(np.prod(_shape(model_arrays(axes))))


# ---- generator ------------------------------------------------------------------------------------------

def _num(draw, lo, hi):
    kind = draw(st.sampled_from(['int', 'f3', 'f3', 'float']))
    if kind == 'int':
        return draw(st.integers(int(np.ceil(lo)), int(np.floor(hi))))
    if kind == 'f3':
        return round(draw(st.floats(lo, hi)), 3)
    return draw(st.floats(lo, hi))


@st.composite
def _axis(draw, i, max_len):
    scale = draw(st.sampled_from(['linear', 'log']))
    n = draw(st.integers(2, min(4, max_len)))
    if scale == 'log':
        start = _num(draw, -3.0, 2.0)
        end = start + draw(st.sampled_from([1, 2, 0.5, 1.5, 3])) if draw(st.booleans()) else \
            round(start + draw(st.floats(0.25, 4.0)), 3)
    else:
        if draw(st.integers(0, 9)) == 0:
            start = draw(st.sampled_from([1e-07, 2.5e-05, 1.5e+16, -3e+17, 1.25e-10]))
            end = start + abs(start) * draw(st.sampled_from([1.0, 2.5, 10.0]))
        else:
            start = _num(draw, -5.0, 5.0)
            end = start + draw(st.sampled_from([1, 2, 0.5, 10])) if draw(st.booleans()) else \
                round(start + draw(st.floats(0.01, 20.0)), 3)
    mi_as = draw(st.sampled_from(['none', 'list', 'tuple', 'tuple']))
    mi = []
    room = min(3, max_len - n)
    if mi_as == 'list' and room < 1:
        mi_as = 'none'
    if mi_as != 'none':
        k = draw(st.integers(0 if mi_as == 'tuple' else 1, room))
        span = float(end) - float(start)
        for _ in range(k):
            how = draw(st.sampled_from(['start', 'end', 'mid', 'inside', 'outside', 'outside', 'inside']))
            if how == 'start':
                v = float(start)
            elif how == 'end':
                v = float(end)
            elif how == 'mid':
                v = float(start) + span / 2.0
            elif how == 'inside':
                v = float(start) + span * round(draw(st.floats(0.0, 1.0)), 3)
            else:
                v = float(end) + span * round(draw(st.floats(0.01, 1.0)), 2) if draw(st.booleans()) \
                    else float(start) - span * round(draw(st.floats(0.01, 1.0)), 2)
            mi.append(float(v))
    return {'name': 'ax%d' % i, 'start': start, 'end': end, 'scale': scale, 'n': n, 'mi_as': mi_as, 'mi': mi}


def _rotated_steps():
    """STEPS, rotated by the shard index when running under vlib.shard: Hypothesis starts every shard with the
    minimal example (first element of every sampled_from), which would otherwise be the same scenario 16 times."""
    import sys
    try:
        r = int(sys.argv[4]) % len(STEPS) if sys.argv[0].endswith('shard.py') else 0
    except (IndexError, ValueError):
        r = 0
    return list(STEPS[r:] + STEPS[:r])


@st.composite
def _scenario(draw):
    dims = draw(st.sampled_from([1, 2, 2, 2, 3]))
    max_len = {1: 7, 2: 6, 3: 4}[dims]
    axes = [draw(_axis(i, max_len)) for i in range(dims)]
    n_pts = _npoints(axes)
    pool = draw(st.integers(4, 16))
    raise_set = sorted(draw(st.sets(st.integers(0, n_pts - 1), max_size=min(n_pts, 4)))) if draw(st.booleans()) else []
    extra = {'avoid_crashes': True, 'same_process': False, 'pool2': None, 'prelude': False}
    if draw(st.sampled_from(['kill'] * 7 + ['none'] * 2)) == 'none':
        kill = None
        if not raise_set:
            raise_set = sorted(draw(st.sets(st.integers(0, n_pts - 1), min_size=1, max_size=min(n_pts, 3))))
        extra['avoid_crashes'] = draw(st.sampled_from([False, True, False]))
        extra['same_process'] = draw(st.sampled_from([True, False, True]))
        extra['pool2'] = draw(st.sampled_from([None, None, 4, 5, 8, 11, 16]))
        extra['prelude'] = extra['same_process'] and draw(st.sampled_from([False, False, True]))
    else:
        kill = {'case': draw(st.integers(0, n_pts - 1)), 'step': draw(st.sampled_from(_rotated_steps())),
                'delay_ms': draw(st.sampled_from(_DELAYS))}
    out = {'axes': axes, 'pool': pool, 'raise': raise_set, 'kill': kill, 'work_ms': draw(st.sampled_from([0, 1, 2, 5]))}
    out.update(extra)
    # history: further calls on the same directory between run 1 and the final resume(s), each with its own
    # force_restart flag (True = multiprocessing_run opens a nested study <dir>/restarted_study_N) and interruption
    out['force_restart_first'] = draw(st.sampled_from([False, False, True]))
    out['middle'] = []
    out['final_order'] = 'nested_first'
    if not extra['same_process'] and draw(st.sampled_from(['history', 'plain', 'plain', 'history', 'plain'])) == 'history':
        for _ in range(draw(st.sampled_from([1, 1, 2]))):
            forced = draw(st.sampled_from([True, False, True]))
            if draw(st.sampled_from(['kill', 'none', 'kill'])) == 'kill':
                steps = list(CASE_STEPS) + (list(HEADER_STEPS[:1]) if forced else [])
                mk = {'case': draw(st.integers(0, n_pts - 1)), 'step': draw(st.sampled_from(steps)),
                      'delay_ms': draw(st.sampled_from(_DELAYS))}
            else:
                mk = None
            mr = sorted(draw(st.sets(st.integers(0, n_pts - 1), max_size=2))) if draw(st.sampled_from([False, True, False])) else []
            out['middle'].append({'force_restart': forced, 'kill': mk, 'raise': mr})
        out['final_order'] = draw(st.sampled_from(['nested_first', 'outer_first', 'nested_first']))
    return out


def strategy(tier):
    return _scenario()


def in_domain(case):
    try:
        axes = case['axes']
        if not (1 <= len(axes) <= 3):
            return False
        for i, ax in enumerate(axes):
            if ax['scale'] not in ('linear', 'log') or not (2 <= int(ax['n']) <= 4) or ax['n'] != int(ax['n']):
                return False
            if not (np.isfinite(ax['start']) and np.isfinite(ax['end']) and float(ax['end']) > float(ax['start'])):
                return False
            if ax['scale'] == 'log' and not (-20 <= ax['start'] and ax['end'] <= 25):
                return False
            if ax['mi_as'] not in ('none', 'list', 'tuple') or len(ax['mi']) > 3:
                return False
            if ax['mi_as'] == 'none' and ax['mi']:
                return False
            if not all(isinstance(v, (int, float)) and np.isfinite(v) for v in ax['mi']):
                return False
            if not re.fullmatch(r'[A-Za-z][A-Za-z0-9]*', ax['name']):
                return False
        if len({ax['name'] for ax in axes}) != len(axes):
            return False
        arrays = model_arrays(axes)
        if any(len(np.unique(a)) != len(a) or not np.all(np.isfinite(a)) for a in arrays):
            return False
        n_pts = int(np.prod(_shape(arrays)))
        if not (2 <= n_pts <= MAX_POINTS) or not (4 <= int(case['pool']) <= 16):
            return False
        if not all(isinstance(r, int) and 0 <= r < n_pts for r in case['raise']):
            return False
        k = case['kill']
        if k is not None and not (k['step'] in STEPS and isinstance(k['case'], int) and 0 <= k['case'] < n_pts
                                  and 0 <= k['delay_ms'] <= 100):
            return False
        if not all(isinstance(case.get(f, d), bool) for f, d in (('avoid_crashes', True), ('same_process', False), ('prelude', False))):
            return False
        p2 = case.get('pool2')
        if p2 is not None and not (isinstance(p2, int) and 4 <= p2 <= 16):
            return False
        if k is not None and (not case.get('avoid_crashes', True) or case.get('same_process', False) or p2 is not None):
            return False            # kill scenarios: the process is gone, restart = fresh process, avoid_crashes=True
        if case.get('prelude', False) and not case.get('same_process', False):
            return False
        mid = case.get('middle') or []
        if len(mid) > 3 or (mid and case.get('same_process', False)):
            return False
        if not isinstance(case.get('force_restart_first', False), bool) or \
                case.get('final_order', 'nested_first') not in ('nested_first', 'outer_first'):
            return False
        for m in mid:
            if not isinstance(m['force_restart'], bool):
                return False
            if not all(isinstance(r, int) and 0 <= r < n_pts for r in (m.get('raise') or [])):
                return False
            mk = m.get('kill')
            if mk is not None and not (mk['step'] in STEPS and isinstance(mk['case'], int) and 0 <= mk['case'] < n_pts
                                       and 0 <= mk['delay_ms'] <= 100):
                return False
        return 0 <= case['work_ms'] <= 10
    except Exception:
        return False


_G33 = {
    'tuple': [{'name': 'visc', 'start': 0, 'end': 1, 'scale': 'linear', 'n': 3, 'mi_as': 'tuple', 'mi': [0.5]},
              {'name': 'shear', 'start': -1.0, 'end': 1.0, 'scale': 'log', 'n': 3, 'mi_as': 'none', 'mi': []}],
    'list': [{'name': 'visc', 'start': 0, 'end': 1, 'scale': 'linear', 'n': 3, 'mi_as': 'list', 'mi': [0.5, 1.0]},
             {'name': 'shear', 'start': -1.0, 'end': 1.0, 'scale': 'log', 'n': 3, 'mi_as': 'none', 'mi': []}],
    'none': [{'name': 'visc', 'start': 0, 'end': 1, 'scale': 'linear', 'n': 3, 'mi_as': 'none', 'mi': []},
             {'name': 'shear', 'start': 9, 'end': 11.0, 'scale': 'log', 'n': 3, 'mi_as': 'none', 'mi': []}],
}
_GA = [{'name': 'x', 'start': 0, 'end': 1.5, 'scale': 'linear', 'n': 3, 'mi_as': 'list', 'mi': [0.3]},
       {'name': 'y', 'start': -1.0, 'end': 1.0, 'scale': 'log', 'n': 3, 'mi_as': 'none', 'mi': []}]           # 4 x 3
_GB = [{'name': 'ecc', 'start': 0.25, 'end': 0.75, 'scale': 'linear', 'n': 3, 'mi_as': 'tuple', 'mi': [0.5, 1.0]},
       {'name': 'obl', 'start': -2, 'end': 0, 'scale': 'log', 'n': 2, 'mi_as': 'tuple', 'mi': [-1.0]}]        # 4 x 3


_G3 = [{'name': 'a', 'start': 1, 'end': 2, 'scale': 'linear', 'n': 2, 'mi_as': 'tuple', 'mi': [1.5]},
       {'name': 'b', 'start': 0.0, 'end': 1.0, 'scale': 'log', 'n': 2, 'mi_as': 'none', 'mi': []},
       {'name': 'c', 'start': -1.0, 'end': 1.0, 'scale': 'linear', 'n': 2, 'mi_as': 'list', 'mi': [0.25]}]   # 3 x 2 x 3


_GE = [{'name': 'tiny', 'start': 1e-07, 'end': 3e-07, 'scale': 'linear', 'n': 2, 'mi_as': 'tuple', 'mi': [2.5e-07, -1.5e-05]},
       {'name': 'huge', 'start': 1.5e+16, 'end': 3e+16, 'scale': 'linear', 'n': 2, 'mi_as': 'list', 'mi': [2.25e+16]}]   # 4 x 3


def fixed_cases(tier):
    out = []
    for s in CASE_STEPS:
        out.append({'axes': _GA, 'pool': 4, 'raise': [1], 'kill': {'case': 5, 'step': s, 'delay_ms': 10}, 'work_ms': 1})
        out.append({'axes': _GB, 'pool': 6, 'raise': [], 'kill': {'case': 3, 'step': s, 'delay_ms': 0}, 'work_ms': 2})
    for s in HEADER_STEPS:
        out.append({'axes': _GA, 'pool': 4, 'raise': [], 'kill': {'case': 0, 'step': s, 'delay_ms': 0}, 'work_ms': 0})
        out.append({'axes': _G3, 'pool': 7, 'raise': [2], 'kill': {'case': 1, 'step': s, 'delay_ms': 0}, 'work_ms': 1})
    out.append({'axes': _GE, 'pool': 4, 'raise': [], 'kill': {'case': 1, 'step': 'post_marker', 'delay_ms': 5}, 'work_ms': 1})
    out.append({'axes': _GA, 'pool': 5, 'raise': [0, 7, 11], 'kill': None, 'work_ms': 0})
    # histories with forced nested studies (force_restart=True on an interrupted study), then the resumes
    k_mkdir = {'case': 5, 'step': 'post_mkdir', 'delay_ms': 10}
    out.append({'axes': _GA, 'pool': 4, 'raise': [], 'kill': k_mkdir, 'work_ms': 1,
                'middle': [{'force_restart': True, 'kill': None, 'raise': []}]})                       # nested completes
    out.append({'axes': _GB, 'pool': 6, 'raise': [2, 7], 'kill': None, 'work_ms': 1, 'final_order': 'outer_first',
                'middle': [{'force_restart': True, 'kill': {'case': 9, 'step': 'post_marker', 'delay_ms': 30}, 'raise': []}]})
    out.append({'axes': _G3, 'pool': 5, 'raise': [1], 'kill': {'case': 8, 'step': 'mid_savez', 'delay_ms': 3}, 'work_ms': 2,
                'middle': [{'force_restart': False, 'kill': {'case': 2, 'step': 'post_savez', 'delay_ms': 0}, 'raise': [0]},
                           {'force_restart': True, 'kill': None, 'raise': [4]}]})                     # resume killed, then nested
    out.append({'axes': _GA, 'pool': 8, 'raise': [], 'kill': {'case': 3, 'step': 'pre_log', 'delay_ms': 3}, 'work_ms': 1,
                'force_restart_first': True,
                'middle': [{'force_restart': True, 'kill': {'case': 0, 'step': 'header_empty', 'delay_ms': 0}, 'raise': []},
                           {'force_restart': True, 'kill': {'case': 6, 'step': 'post_success_line', 'delay_ms': 10}, 'raise': []}]})
    out.append({'axes': _GB, 'pool': 4, 'raise': [], 'kill': {'case': 0, 'step': 'header_no_close', 'delay_ms': 0}, 'work_ms': 0,
                'middle': [{'force_restart': True, 'kill': {'case': 4, 'step': 'post_func', 'delay_ms': 10}, 'raise': []}]})
    nk = {'kill': None, 'avoid_crashes': False, 'same_process': True, 'pool2': None, 'prelude': False}
    out.append(dict(nk, axes=_GA, pool=4, work_ms=1, **{'raise': [7]}))                    # crash, same process, same pool
    out.append(dict(nk, axes=_GB, pool=6, work_ms=0, **{'raise': [2, 9]}))                 # crash, same process, same pool
    out.append(dict(nk, axes=_G3, pool=5, work_ms=2, prelude=True, **{'raise': [10]}))     # ... after an unrelated study
    out.append(dict(nk, axes=_GA, pool=4, work_ms=1, pool2=7, **{'raise': [4]}))           # crash, same process, other pool
    out.append(dict(nk, axes=_GB, pool=8, work_ms=1, same_process=False, **{'raise': [0, 5]}))   # crash, fresh process
    out.append(dict(nk, axes=_GA, pool=4, work_ms=0, avoid_crashes=True, **{'raise': [3, 8]}))   # caught failures, same process
    out.append({'axes': _GB, 'pool': 16, 'raise': [2], 'kill': None, 'work_ms': 1})
    if tier == 'thorough':
        for pool, g in ((4, 'tuple'), (6, 'list'), (9, 'tuple'), (16, 'none')):
            for k in range(9):
                for s in CASE_STEPS:
                    for d in (0, 15):
                        out.append({'axes': _G33[g], 'pool': pool, 'raise': [], 'kill': {'case': k, 'step': s, 'delay_ms': d},
                                    'work_ms': 1})
            for s in HEADER_STEPS:
                out.append({'axes': _G33[g], 'pool': pool, 'raise': [], 'kill': {'case': 0, 'step': s, 'delay_ms': 0},
                            'work_ms': 1})
        for pool, g in ((4, 'tuple'), (6, 'list'), (9, 'none')):
            for r in range(9):
                for avoid in (False, True):
                    for same, p2, pre in ((True, None, False), (True, None, True), (True, 5, False), (False, None, False)):
                        out.append({'axes': _G33[g], 'pool': pool, 'raise': [r], 'kill': None, 'work_ms': 1,
                                    'avoid_crashes': avoid, 'same_process': same, 'pool2': p2, 'prelude': pre})
        for k in range(9):
            for s in ('post_mkdir', 'post_func', 'post_marker', 'post_success_line'):
                for mid in ([{'force_restart': True, 'kill': None, 'raise': []}],
                            [{'force_restart': True, 'kill': {'case': (k + 4) % 9, 'step': 'post_marker', 'delay_ms': 15}, 'raise': []}],
                            [{'force_restart': False, 'kill': {'case': k, 'step': 'post_savez', 'delay_ms': 0}, 'raise': []},
                             {'force_restart': True, 'kill': None, 'raise': [k]}]):
                    out.append({'axes': _G33['tuple'], 'pool': 4, 'raise': [], 'kill': {'case': k, 'step': s, 'delay_ms': 15},
                                'work_ms': 1, 'middle': mid, 'final_order': 'outer_first' if k % 2 else 'nested_first'})
        for s in HEADER_STEPS:
            for k in (0, 1):
                out.append({'axes': _G3, 'pool': 5, 'raise': [], 'kill': {'case': k, 'step': s, 'delay_ms': 0}, 'work_ms': 0})
    return out


def _cpus():
    try:
        import psutil
        return int(psutil.cpu_count() or 0)
    except ImportError:
        return int(os.cpu_count() or 0)


def required_labels(tier):
    pools = ['pool:4-7'] + (['pool:8-11'] if _cpus() >= 8 else []) + (['pool:12-16'] if _cpus() >= 16 else [])
    return (['step:' + s for s in STEPS] + ['killed:' + s for s in STEPS] + pools
            + ['kill:none', 'mi:tuple', 'mi:list', 'mi:none', 'scale:log', 'scale:linear', 'dims:1', 'dims:2', 'dims:3',
               'raise:some', 'raise:none', 'restart:reloaded_some', 'avoid_crashes:false', 'run1:study_crashed',
               'same_process', 'same_process:same_pool', 'same_process:other_pool', 'same_process:after_prelude',
               'fresh_process:after_crash', 'history:forced_nested_study_then_resume_of_outer',
               'history:nested_completed_cases_the_outer_has_not', 'middle:forced_new_study', 'middle:resume',
               'middle:in_nested_directory', 'final_order:nested_first', 'final_order:outer_first',
               'restart:reran_some', 'at_restart:marker_and_result', 'at_restart:result_without_marker',
               'at_restart:truncated_result', 'at_restart:dir_only'])


def extra_coverage(tier, merged):
    lab = merged['labels']
    fired = {s: lab.get('killed:' + s, 0) for s in STEPS}        # 8 case steps + 3 header steps
    planned = {s: lab.get('step:' + s, 0) for s in STEPS}
    not_reached = lab.get('kill:not_reached', 0) + lab.get('mkill:not_reached', 0)
    never = [s for s in STEPS if planned[s] > 0 and fired[s] == 0]
    m_planned = sum(v for k, v in lab.items() if k.startswith('mstep:'))
    if not_reached * 10 > sum(planned.values()) + m_planned or never:
        # vacuity guard: the injection no longer finds its kill points (e.g. after a refactor of the module)
        raise HarnessError('fault injection is not reaching its kill points: %d of %d planned kills not reached; steps that '
                           'never fired: %s' % (not_reached, sum(planned.values()), never))
    out = {'kill_points_fired_per_step': fired, 'kill_points_fired': sum(fired.values()),
           'kill_planned_but_not_reached': lab.get('kill:not_reached', 0),
           'middle_run_kills_planned': m_planned, 'middle_run_kills_fired': sum(v for k, v in lab.items() if k.startswith('mkilled:')),
           'middle_run_kills_not_reached': lab.get('mkill:not_reached', 0),
           'histories_with_forced_nested_study_then_outer_resume': lab.get('history:forced_nested_study_then_resume_of_outer', 0),
           'scenarios_without_kill_raising_only': lab.get('kill:none', 0),
           'explanation': 'each evaluation = one scenario = reference run + faulted run 1 + restart run 2 of the real '
                          'multiprocessing_run in its own process group; kill_points_fired counts scenarios whose SIGKILL was '
                          'actually delivered at the named step (marker file written by the proxy just before killpg).'}
    if tier == 'thorough':
        out['enumerated'] = ('every header step and every (case 0..8, case step) of a 3x3 grid x pool sizes 4, 6, 9, 16 (must_include tuple/list/tuple/none) '
                             'x kill delay 0/15 ms = 576 scenarios, in addition to the generated ones; the schedule of the '
                             'other workers is sampled, so the space is not exhausted')
    return out


# ---- process plumbing -------------------------------------------------------------------------------------

def _group_alive(pgid):
    for name in os.listdir('/proc'):
        if not name.isdigit():
            continue
        try:
            with open('/proc/%s/stat' % name) as fh:
                rest = fh.read().rsplit(')', 1)[1].split()
        except (OSError, IndexError):
            continue
        if int(rest[2]) == pgid and rest[0] not in ('Z', 'X'):
            return True
    return False


def _kill_group(pgid, wait_s=20.0):
    try:
        os.killpg(pgid, signal.SIGKILL)
    except (ProcessLookupError, PermissionError):
        pass
    t_end = time.time() + wait_s
    while _group_alive(pgid):
        if time.time() > t_end:
            raise HarnessError('process group %d still alive %.0f s after SIGKILL' % (pgid, wait_s))
        time.sleep(0.01)


class _Run:
    def __init__(self, root, tag, spec):
        self.tag = tag
        self.spec = dict(spec, out=os.path.join(root, tag + '.out.json'), kill_marker=os.path.join(root, tag + '.kill'))
        self.spec_path = os.path.join(root, tag + '.spec.json')
        with open(self.spec_path, 'w') as fh:
            json.dump(self.spec, fh)
        self.log_path = os.path.join(root, tag + '.log')
        self.log = open(self.log_path, 'w')
        child_env = dict(os.environ)
        child_env['PYTHONPATH'] = env.VERIF + os.pathsep + child_env.get('PYTHONPATH', '')
        self.t0 = time.time()
        self.proc = subprocess.Popen([env.PY, '-u', '-m', 'vlib.mp_driver', self.spec_path], cwd=env.VERIF, env=child_env,
                                     stdin=subprocess.DEVNULL, stdout=self.log, stderr=subprocess.STDOUT,
                                     start_new_session=True)
        self.pgid = self.proc.pid
        self.hang = False
        self.rc = None
        self.payload = None

    def finish(self, timeout=RUN_TIMEOUT):
        try:
            self.rc = self.proc.wait(timeout=max(1.0, self.t0 + timeout - time.time()))
        except subprocess.TimeoutExpired:
            self.hang = True
        _kill_group(self.pgid)
        if self.hang:
            self.rc = self.proc.wait()
        self.log.close()
        if os.path.exists(self.spec['out']):
            with open(self.spec['out']) as fh:
                self.payload = json.load(fh)
        return self

    def kill_fired(self):
        return os.path.exists(self.spec['kill_marker'])

    def log_tail(self, n=700):
        try:
            with open(self.log_path) as fh:
                return fh.read()[-n:]
        except OSError:
            return ''

    def abort(self):
        try:
            _kill_group(self.pgid, 5.0)
        except HarnessError:
            pass
        try:
            self.proc.wait(timeout=5)
        except Exception:  # noqa
            pass
        if not self.log.closed:
            self.log.close()


def _inputs_spec(axes):
    return [[ax['name'], ax['name'].upper() + ' [arb]', ax['start'], ax['end'], ax['scale'], list(ax['mi']), int(ax['n']),
             ax['mi_as'] == 'tuple'] for ax in axes]


_ref_cache = {}


def _reference(case, root):
    """Result list of an uninterrupted run in a fresh directory (a started _Run, or the cached payload)."""
    key = json.dumps([case['axes'], case['pool']], sort_keys=True)
    if key in _ref_cache:
        return key, None
    os.makedirs(os.path.join(root, 'ref_counters'))
    run = _Run(root, 'reference', {'dir': os.path.join(root, 'ref_study'), 'inputs': _inputs_spec(case['axes']),
                                   'pool': case['pool'], 'counter_dir': os.path.join(root, 'ref_counters'),
                                   'raise_cases': [], 'kill': None, 'work_ms': 0, 'force_restart': False})
    return key, run


def _point_of(args, arrays):
    """Grid index of the point with exactly these coordinates (None if it is not a grid point)."""
    if args is None or len(args) != len(arrays):
        return None
    idx = []
    for a, arr in zip(args, arrays):
        w = np.nonzero(arr == a)[0]
        if len(w) != 1:
            return None
        idx.append(int(w[0]))
    return tuple(idx)


def _repo_where(tb):
    hits = re.findall(r'File "[^"]*TidalPy/([^"]+)", line \d+, in (\w+)', tb or '')
    return '%s:%s' % (os.path.basename(hits[-1][0]), hits[-1][1]) if hits else None


def _check_results(c, run_name, results, arrays, ref_by_case, detail_ctx):
    """Clauses one_result / labels / equal on one returned list.  Returns {case_number: element}."""
    shape = _shape(arrays)
    n_pts = int(np.prod(shape))
    by_case = {}
    for el in results:
        if el.get('error') or (el.get('len') or 0) < 3 or not isinstance(el.get('case_number'), int):
            c.fail({'clause': 'labels', 'run': run_name, 'what': 'malformed_element'}, '%r %s' % (el, detail_ctx))
            continue
        by_case.setdefault(el['case_number'], []).append(el)
    missing = [k for k in range(n_pts) if k not in by_case]
    dup = sorted(k for k, v in by_case.items() if len(v) > 1)
    extra = sorted(k for k in by_case if not (0 <= k < n_pts))
    c.check(not missing, {'clause': 'one_result', 'run': run_name, 'what': 'missing'},
            'no result for case(s) %s of %d; returned case numbers %s %s'
            % (missing[:12], n_pts, sorted(el.get('case_number') for el in results)[:40], detail_ctx))
    c.check(not dup and not extra, {'clause': 'one_result', 'run': run_name, 'what': 'duplicate_or_foreign'},
            'case numbers reported more than once: %s, outside 0..%d: %s %s' % (dup[:12], n_pts - 1, extra[:12], detail_ctx))
    bad_idx, bad_own, bad_eq = [], [], []
    for k, els in sorted(by_case.items()):
        for el in els:
            if 0 <= k < n_pts:
                want = tuple(int(i) for i in np.unravel_index(k, shape))
                if tuple(el['index']) != want:
                    bad_idx.append((k, el['index'], want))
            pt = _point_of(el['args'], arrays)
            if pt is None or tuple(el['index']) != pt:
                bad_own.append((k, el['index'], el['args'], pt))
            if ref_by_case is not None and k in ref_by_case:
                r = ref_by_case[k]
                if el['v'] is None or el['v'] != r['v'] or el['args'] != r['args']:
                    bad_eq.append((k, el['v'], el['args'], r['v'], r['args']))
    c.check(not bad_idx, {'clause': 'labels', 'run': run_name, 'what': 'index_of_case_number'},
            '(case_number, reported index, index of that case number in the grid %s): %s %s' % (shape, bad_idx[:6], detail_ctx))
    c.check(not bad_own, {'clause': 'labels', 'run': run_name, 'what': 'result_of_other_point'},
            '(case_number, reported index, inputs the study function saw, grid index of those inputs): %s %s'
            % (bad_own[:6], detail_ctx))
    c.check(not bad_eq, {'clause': 'equal', 'run': run_name},
            '(case, v, args, reference v, reference args): %s %s' % (bad_eq[:6], detail_ctx))
    return {k: v[0] for k, v in by_case.items()}


def _study_dirs(outer):
    """The outer study directory and the nested studies multiprocessing_run created in it (forced restarts)."""
    out = [outer]
    if os.path.isdir(outer):
        nested = []
        for name in os.listdir(outer):
            m = re.fullmatch(r'restarted_study_(\d+)', name)
            if m is not None and os.path.isdir(os.path.join(outer, name)):
                nested.append((int(m.group(1)), os.path.join(outer, name)))
        out += [p for _, p in sorted(nested)]
    return out


def _complete_of(snap):
    return {k for k, sn in snap.items() if sn['marker'] and sn['npz'] == 'complete'}


def _counts(lines, arrays, shape):
    """{(study dir, case number of the grid point that was executed): executions}, [lines outside the grid]."""
    counts, foreign = {}, []
    for k_dir, args, sdir in lines:
        pt = _point_of(args, arrays)
        if pt is None:
            foreign.append((k_dir, args, os.path.basename(sdir)))
            continue
        key = (os.path.normpath(sdir), int(np.ravel_multi_index(pt, shape)))
        counts[key] = counts.get(key, 0) + 1
    return counts, foreign


def _effective_kill(kill, incomplete):
    """Kill point of a run that resumes a study: the case is taken among the cases still to be done."""
    if kill is None or not incomplete:
        return None
    todo = sorted(incomplete)
    k = dict(kill)
    if kill['step'] in ('pre_log', 'post_log'):
        k['case'] = kill['case'] % len(todo)              # k-th case start of this run
    elif kill['step'] in CASE_STEPS:
        k['case'] = todo[kill['case'] % len(todo)]
    return k


def _label_snapshot(c, snap, n_pts):
    for sn in snap.values():
        if sn['marker'] and sn['npz'] == 'complete':
            c.label('at_restart:marker_and_result')
        elif sn['marker']:
            c.label('at_restart:marker_without_result')
        elif sn['npz'] == 'complete':
            c.label('at_restart:result_without_marker')
        elif sn['npz'] == 'broken':
            c.label('at_restart:truncated_result')
        elif sn['error']:
            c.label('at_restart:error_log')
        else:
            c.label('at_restart:dir_only')
    if len(snap) < n_pts:
        c.label('at_restart:not_started')


def _check_deltas(c, before, after, snaps_before, what_run, ctx):
    """Executions during one run, per (study directory, case): none for a case that was complete in that directory
    when the run started, at most one otherwise."""
    redone, twice = [], []
    for key, n in sorted(after.items()):
        d = n - before.get(key, 0)
        if d <= 0:
            continue
        sdir, k = key
        if k in _complete_of(snaps_before.get(sdir, {})):
            redone.append((os.path.basename(sdir), k, d))
        elif d > 1:
            twice.append((os.path.basename(sdir), k, d))
    c.check(not redone, {'clause': 'counters', 'what': 'completed_case_executed_again'},
            '%s: cases complete (marker + loadable result) in their study directory when the run started but executed again '
            '(directory, case, executions in this run): %s %s' % (what_run, redone[:12], ctx))
    c.check(not twice, {'clause': 'counters', 'what': 'executed_more_than_once_in_one_run'},
            '%s: (directory, case, executions in this run): %s %s' % (what_run, twice[:12], ctx))


def _judge_restart(c, name, hang, payload, rc, log_tail, arrays, ref_by_case, ctx):
    """Clauses completes / one_result / labels / equal for one final resume.  True if it returned a list."""
    if hang:
        c.fail({'clause': 'completes', 'kind': 'hang', 'run': name},
               '%s did not return within %.0f s %s\n%s' % (name, RUN_TIMEOUT, ctx, log_tail))
        return False
    if payload is None:
        c.fail({'clause': 'completes', 'kind': 'died', 'rc': rc, 'run': name}, '%s died rc=%r %s\n%s' % (name, rc, ctx, log_tail))
        return False
    if payload['status'] == 'raised':
        c.fail({'clause': 'completes', 'kind': 'exception', 'type': payload['exc_type'], 'where': _repo_where(payload['traceback']),
                'run': name},
               '%s raised %s: %s %s\n%s' % (name, payload['exc_type'], payload['exc'], ctx, payload['traceback'][-900:]))
        return False
    if payload['status'] != 'returned':
        c.fail({'clause': 'completes', 'kind': 'returned_none', 'run': name},
               '%s returned None (study reported as crashed) %s\n%s' % (name, ctx, log_tail))
        return False
    results = payload['results']
    if any(el.get('result_type') == 'NpzFile' for el in results):
        c.label('restart:reloaded_some')
    if any(el.get('result_type') == 'dict' for el in results):
        c.label('restart:reran_some')
    _check_results(c, name, results, arrays, ref_by_case, ctx)
    return True


def evaluate(case):
    if not in_domain(case):
        return discard('scenario outside the generator domain')
    axes = case['axes']
    arrays = model_arrays(axes)
    shape = _shape(arrays)
    n_pts = int(np.prod(shape))
    all_cases = set(range(n_pts))
    if _cpus() < 4:
        return discard('host has fewer than 4 CPUs: multiprocessing_run refuses to start')
    pool = min(int(case['pool']), _cpus())      # max_procs above the CPU count is rejected by the module
    kill = case['kill']
    raise_set = set(case['raise'])
    if kill is not None and kill['step'] in CASE_STEPS and kill['step'] not in ('pre_log', 'post_log', 'post_mkdir'):
        raise_set.discard(kill['case'])       # steps after the study function do not exist for a raising case
    middle = list(case.get('middle') or [])
    c = Collector(nontrivial=False)
    c.label('dims:%d' % len(axes), 'pool:4-7' if pool < 8 else 'pool:8-11' if pool < 12 else 'pool:12-16',
            'raise:some' if raise_set else 'raise:none', 'kill:none' if kill is None else 'step:' + kill['step'],
            'history:%d_runs_before_the_final_resume' % (1 + len(middle)))
    if pool != int(case['pool']):
        c.label('pool:capped_by_cpu_count')
    avoid = bool(case.get('avoid_crashes', True))
    same = bool(case.get('same_process', False))
    prelude = bool(case.get('prelude', False))
    pool2 = pool if case.get('pool2') is None else min(int(case['pool2']), _cpus())
    if not avoid:
        c.label('avoid_crashes:false')
    if same:
        c.label('same_process', 'same_process:same_pool' if pool2 == pool else 'same_process:other_pool')
        if prelude:
            c.label('same_process:after_prelude')
    elif pool2 != pool:
        c.label('fresh_process:other_pool')
    for ax in axes:
        c.label('scale:' + ax['scale'], 'mi:' + ax['mi_as'] + ('' if ax['mi'] or ax['mi_as'] == 'none' else '_empty'))
        if ax['mi_as'] != 'none' and ax['mi']:
            c.label('mi:' + ax['mi_as'])
    root = tempfile.mkdtemp(prefix='c18-')
    runs = []
    try:
        study = os.path.join(root, 'study')
        counters = os.path.join(root, 'counters')
        os.makedirs(counters)
        base = {'dir': study, 'inputs': _inputs_spec(axes), 'pool': pool, 'counter_dir': counters, 'force_restart': False,
                'avoid_crashes': avoid, 'raise_flag': os.path.join(root, 'raise_flag')}
        ref_key, ref_run = _reference(dict(case, pool=pool), root)
        if ref_run is not None:
            runs.append(ref_run)
        ctx = '| scenario: grid %s pool %d raise %s kill %s' % (shape, pool, sorted(raise_set), kill)
        if kill is None:
            ctx += ' avoid_crashes=%s restart in %s process with pool %d%s' % (
                avoid, 'the SAME' if same else 'a fresh', pool2, ' after an unrelated study' if prelude else '')

        # ---- the history: run 1 and the middle runs, all called on the outer directory, each possibly interrupted
        plan = [{'force_restart': bool(case.get('force_restart_first', False)), 'kill': kill, 'raise': sorted(raise_set),
                 'avoid': avoid, 'work_ms': case['work_ms']}]
        for m in middle:
            plan.append({'force_restart': bool(m['force_restart']), 'kill': m.get('kill'), 'raise': sorted(m.get('raise') or []),
                         'avoid': True, 'work_ms': case['work_ms']})
        header_ok = {}                     # study directory -> its log header was written completely (model)
        counts = {}
        out2 = os.path.join(root, 'run2.out.json')
        same_payload = None
        only_header_kills = True
        for i, step in enumerate(plan):
            tag = 'run%d' % (i + 1)
            dirs = _study_dirs(study)
            snaps = {d: _snapshot(d) for d in dirs}
            if step['force_restart'] and header_ok.get(study):
                n = 1
                while os.path.isdir(os.path.join(study, 'restarted_study_%d' % n)):
                    n += 1
                work, mode = os.path.join(study, 'restarted_study_%d' % n), 'fresh'
            else:
                work, mode = study, ('resume' if header_ok.get(study) else 'fresh')
            k_eff = step['kill']
            r_eff = list(step['raise'])
            if mode == 'resume':
                todo = all_cases - _complete_of(snaps.get(work, {}))
                k_eff = _effective_kill(step['kill'], todo)
                r_eff = sorted(set(r_eff) & todo)
            if k_eff is not None and k_eff['step'] in HEADER_STEPS and mode == 'resume':
                k_eff = None                 # a resume does not write a header
            if k_eff is not None and k_eff['step'] in CASE_STEPS and k_eff['step'] not in ('pre_log', 'post_log', 'post_mkdir'):
                r_eff = [r for r in r_eff if r != k_eff['case']]
            if i > 0:
                c.label('middle:forced_new_study' if step['force_restart'] else 'middle:resume',
                        'middle:in_nested_directory' if work != study else 'middle:in_outer_directory')
                if step['kill'] is not None:
                    c.label('mstep:' + step['kill']['step'] if k_eff is not None else 'middle:kill_dropped_nothing_to_do')
                ctx += ' | run %d: force_restart=%s -> %s of %s, raise %s kill %s' % (
                    i + 1, step['force_restart'], mode, os.path.basename(work), r_eff, k_eff)
            spec = dict(base, raise_cases=r_eff, raise_on=True, kill=k_eff, work_ms=step['work_ms'],
                        force_restart=step['force_restart'], avoid_crashes=step['avoid'])
            if same:
                # run 1 and the restart are two calls inside one driver process
                spec['then'] = [{'pool': pool2, 'raise_on': False, 'out': out2, 'force_restart': False}]
                if prelude:
                    spec['prelude_dir'] = os.path.join(root, 'prelude_study')
            run = _Run(root, tag, spec)
            runs.append(run)
            run.finish(RUN_TIMEOUT * (2 if same else 1))
            fired = run.kill_fired()
            if run.hang and not (same and run.payload is not None):
                c.fail({'clause': 'run1', 'kind': 'hang', 'kill_fired': fired},
                       'run %d neither finished nor died within %.0f s %s\n%s' % (i + 1, RUN_TIMEOUT, ctx, run.log_tail()))
                return c.result()
            if fired:
                if run.rc != -signal.SIGKILL:
                    raise HarnessError('kill point reached but run %d ended with rc=%r\n%s' % (i + 1, run.rc, run.log_tail()))
                c.label(('killed:' if i == 0 else 'mkilled:') + k_eff['step'])
                with open(run.spec['kill_marker']) as fh:
                    note = fh.read()
                if 'MISMATCH' in note:
                    raise HarnessError('header layout differs from the model of the header cut: %s' % note)
            else:
                if run.payload is None or (run.rc != 0 and not same):
                    raise HarnessError('run %d died without injected kill: rc=%r\n%s' % (i + 1, run.rc, run.log_tail()))
                if k_eff is not None:
                    c.label('kill:not_reached' if i == 0 else 'mkill:not_reached')
                pre = run.payload.get('prelude')
                if pre is not None and (pre['status'] != 'returned' or pre['n'] != 4):
                    raise HarnessError('the unrelated prelude study did not complete: %r' % (pre,))
                if run.payload['status'] == 'none' and not step['avoid'] and r_eff:
                    # avoid_crashes=False: the raising case crashed the study - this is the interruption
                    c.label('run1:study_crashed')
                    if not same:
                        c.label('fresh_process:after_crash')
                elif run.payload['status'] != 'returned':
                    # a run whose raising cases are caught by avoid_crashes (or that has none) must return
                    c.fail({'clause': 'run1', 'kind': run.payload['status'], 'type': run.payload.get('exc_type'),
                            'where': _repo_where(run.payload.get('traceback'))},
                           'run %d (no kill) did not return: %s %s' % (i + 1, run.payload.get('traceback', '')[-900:], ctx))
                    return c.result()
            header_kill = bool(fired and k_eff['step'] in HEADER_STEPS)
            only_header_kills = only_header_kills and header_kill
            if mode == 'fresh':
                header_ok[work] = not header_kill
            if same:
                same_payload = run.payload
                new_counts, foreign = _counts(same_payload['counters_after'], arrays, shape)
            else:
                new_counts, foreign = _counts(_read_counters(counters), arrays, shape)
            if header_kill and new_counts != counts:
                raise HarnessError('header kill fired but cases were executed: %r' % sorted(set(new_counts) - set(counts)))
            if header_kill and k_eff['step'] == 'header_mid_inputs':
                c.label('header_lines:%d_of_%d' % (header_lines(k_eff['case'], len(axes)), len(axes)))
            c.check(not foreign, {'clause': 'counters', 'what': 'point_outside_grid'},
                    'run %d: study function executed on inputs that are no grid point of the study (dir case number, inputs, '
                    'directory): %s %s' % (i + 1, foreign[:6], ctx))
            _check_deltas(c, counts, new_counts, snaps, 'run %d' % (i + 1), ctx)
            counts = new_counts

        # ---- reference
        if ref_run is not None:
            ref_run.finish()
            if ref_run.hang or ref_run.payload is None or ref_run.payload['status'] != 'returned':
                st_ = 'hang' if ref_run.hang else (ref_run.payload or {}).get('status', 'died')
                c.fail({'clause': 'reference', 'kind': st_, 'type': (ref_run.payload or {}).get('exc_type'),
                        'where': _repo_where((ref_run.payload or {}).get('traceback'))},
                       'uninterrupted reference run did not return (rc=%r): %s\n%s %s'
                       % (ref_run.rc, (ref_run.payload or {}).get('traceback', '')[-900:], ref_run.log_tail(300), ctx))
                return c.result()
            chk = ref_run.payload['inject_check']
            if chk['start_method'] != 'fork' or not chk['globals_by_ref']:
                raise HarnessError('fault injection precondition not met: %r' % chk)
            if len(_ref_cache) > 256:
                _ref_cache.clear()
            _ref_cache[ref_key] = ref_run.payload['results']
        ref_results = _ref_cache[ref_key]
        ref_by_case = _check_results(c, 'reference', ref_results, arrays, None, ctx)
        if c.fails:
            ref_by_case = None      # a mislabelled reference cannot serve as the expected value; its own failures are reported

        # ---- final resumes (force_restart=False, no faults): the outer study and every nested study
        dirs = _study_dirs(study)
        order = list(dirs[1:]) + [study] if case.get('final_order', 'nested_first') == 'nested_first' else list(dirs)
        if len(dirs) > 1:
            c.label('history:forced_nested_study_then_resume_of_outer', 'final_order:' + case.get('final_order', 'nested_first'))
        finished = []
        for d in order:
            name = 'restart' if d == study else 'restart_nested'
            if same:
                snaps = {study: {int(k): v for k, v in same_payload['snapshot_after'].items()}}
            else:
                snaps = {x: _snapshot(x) for x in _study_dirs(study)}
            complete = _complete_of(snaps.get(d, {}))
            if d == study:
                _label_snapshot(c, snaps.get(d, {}), n_pts)
                c.label('complete_at_restart:' + ('none' if not complete else 'all' if len(complete) == n_pts else 'some'))
                had_interruption = any(lb.startswith(('killed:', 'mkilled:')) for lb in c.labels) or bool(raise_set) \
                    or any(m.get('raise') for m in middle)
                c.nontrivial = only_header_kills or (bool(complete) and len(complete) < n_pts and had_interruption)
                nested_done = set()
                for x in dirs[1:]:
                    nested_done |= _complete_of(snaps.get(x, {}))
                if nested_done - complete:
                    c.label('history:nested_completed_cases_the_outer_has_not')
            else:
                c.label('nested:complete_%s' % ('none' if not complete else 'all' if len(complete) == n_pts else 'some'))
            here = ctx + ' | final resume of %s: %d of %d cases complete there' % (
                os.path.relpath(d, root), len(complete), n_pts)
            if same:
                p2 = None
                if os.path.exists(out2):
                    with open(out2) as fh:
                        p2 = json.load(fh)
                run2 = runs[-1]
            else:
                run2 = _Run(root, 'final%d' % len(finished), dict(base, dir=d, pool=pool2 if d == study else pool, raise_cases=[],
                                                                 raise_on=False, kill=None, work_ms=0, force_restart=False))
                runs.append(run2)
                run2.finish()
                p2 = run2.payload
            ok = _judge_restart(c, name, run2.hang, p2, run2.rc, run2.log_tail(), arrays, ref_by_case, here)
            new_counts, foreign = _counts(_read_counters(counters), arrays, shape)
            c.check(not foreign, {'clause': 'counters', 'what': 'point_outside_grid'},
                    '%s: study function executed on inputs that are no grid point of the study (dir case number, inputs, '
                    'directory): %s %s' % (name, foreign[:6], here))
            _check_deltas(c, counts, new_counts, snaps, name, here)
            counts = new_counts
            if ok:
                finished.append(d)
                never = sorted(k for k in range(n_pts) if counts.get((os.path.normpath(d), k), 0) < 1)
                c.check(not never, {'clause': 'counters', 'what': 'never_executed'},
                        '%s: cases never executed for this study directory: %s %s' % (name, never[:12], here))
        return c.result()
    finally:
        for r in runs:
            r.abort()
        shutil.rmtree(root, ignore_errors=True)


def selftest():
    """The facts the injection rests on, and the harness' own pieces."""
    assert f_value([1.0, 2.0]) == 1.5 + 0.25 + 5.0 + 1.0
    arrays = model_arrays(_GB)
    assert _shape(arrays) == (4, 3), _shape(arrays)
    assert _point_of([float(arrays[0][2]), float(arrays[1][1])], arrays) == (2, 1)
    assert _point_of([0.123, float(arrays[1][1])], arrays) is None
    for case in fixed_cases('thorough'):
        assert in_domain(case), case
    # one killed run: fork start method, module globals pickled by reference, the kill takes the whole group down
    root = tempfile.mkdtemp(prefix='c18-self-')
    run = None
    try:
        os.makedirs(os.path.join(root, 'cnt'))
        run = _Run(root, 'self', {'dir': os.path.join(root, 'study'), 'inputs': _inputs_spec(_GA), 'pool': 4,
                                  'counter_dir': os.path.join(root, 'cnt'), 'raise_cases': [], 'work_ms': 0,
                                  'kill': {'case': 2, 'step': 'post_marker', 'delay_ms': 0}, 'force_restart': False})
        run.finish()
        assert run.kill_fired() and run.rc == -signal.SIGKILL and not run.hang, (run.rc, run.hang, run.log_tail())
        assert not _group_alive(run.pgid)
        snap = _snapshot(os.path.join(root, 'study'))
        assert snap[2]['marker'], snap
    finally:
        if run is not None:
            run.abort()
        shutil.rmtree(root, ignore_errors=True)
