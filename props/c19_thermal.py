"""C19 - thermal building blocks are additive, monotone and sign-correct.

Targets (all numba-jitted, called exactly as `LayerModelHolder.func/func_array` calls them - positional, "live"
arguments as floats in scalar mode or as equal-shape float arrays in array mode, constants as floats/tuples):
  radiogenics.radiogenic_models   isotope, fixed
  cooling.cooling_models          convection, conduction
  rheology.viscosity.viscosity_models          arrhenius, reference, constant
  rheology.partial_melt.melting_models         henning, spohn, off

Generated domain (every continuous parameter log-uniform unless stated; the docstrings give units, the
shipped configuration (TidalPy/defaultc.py) gives the magnitudes the ranges are built around):
  radio   1..6 isotopes: mass fraction 1e-4..1, concentration 1e-12..1e-3, half-life 0.1..1e5, heat production
          1e-8..1e-1 W/kg; layer mass 1e10..1e27 kg; ref_time 0 | 4600 | +-1e4; times ref + u*half-life, u in
          [-40, 40] (backwards always in units of the shortest half-life so nothing overflows); scale factor
          k 1e-3..1e3; `fixed`: rate 1e-14..1e-8 W/kg, half-life 0.1..1e5 or 0 (documented "no decay").
  cool    dT = 0 or 1e-14..1e4 K (the code treats dT <= float_eps = 2.2e-16 K as "no contrast"; such values
          are not generated), pairs dT2 = dT1*(1+10^u), u in [-6,1] or one ulp, eta 1..1e28 Pa s with pairs
          eta2 = eta1*(1+10^u),
          k 0.1..100, kappa 1e-8..1e-4, alpha_T 1e-6..1e-3, thickness 1..1e7 m incl. the MIN_THICKNESS=50 m
          edge, g 0.01..100, rho 100..2e4, convection_alpha 0.05..5, beta 0..0.5 (incl. 0, 1/4, 1/3), Ra_c 100..1e4.
  visc    2..5 temperatures 50..4500 K (sorted; steps T*(10^u) or one ulp), P 0 | 1e5..1e11 Pa,
          E 4e4..7e5 J/mol (reference law also 0 and the shipped 6.64e-20), V 0 | 1e-7..2e-5 m3/mol,
          arrhenius: coeff 1e-20..1e10, stress 1e-2..1e8 Pa, stress_expo 1..5, grain 1e-6..0.1 m, grain_expo 0..3,
          additional_temp_dependence both.  (E+PV)/R >= 4811 K > every generated T, so T*exp(B/T) is
          mathematically decreasing on the whole domain.
  melt    melt fractions in [0,1] incl. 0, crit, crit+width, the next double after crit+width, 1; crit 0.05..0.8,
          width 0.001..0.15 (crit+width <= 0.95); eta_liq 1e-3..1e4 (spohn ..1e6), eta_pre = eta_liq*10^[0,25],
          mu_liq 1e-8..1e2, mu_pre 1e7..1e12 (pre-melt >= liquid: the only reading under which "pre-melt value
          at zero melt" and "never below liquid" are compatible); solidus 150..3000 K, liquidus = solidus + 1..1500;
          temperature linked to the melt fraction or free in [0.5,1.5]*solidus; Henning slopes around the shipped
          defaults: visc_slope_1 0..40, visc_falloff 0..700, shear_param_1 = [0,40]*solidus, shear_param_2 0..40,
          shear_falloff 0..1000 capped at 400/crit (keeps the masked-out branches finite: the code multiplies
          every branch by a 0/1 mask, so an overflowing unused branch would give 0*inf); Spohn slopes 0.5..1.2 x
          defaults, T 350..5000 K.

Argument dtype routes (every family): `route` = float (3/6) | pyint | npint | zerod.  On a non-float route every
integer-eligible quantity (times, ref_time, masses and viscosities < 2^62, half-lives, temperatures, pressures,
thicknesses, conductivity, gravity, density, alpha, Ra_c, activation energy, stress, exponents, moduli, solidus/liquidus,
slopes/phases) is first rounded to an integral value inside its range (_integralize; pairs and orderings are kept) and
then passed as python int / np.int64 (int64 arrays in array mode, int tuples for half-lives) or as 0-d float64 arrays.
  dtype_route      routed result == float64 result of the same numbers (ROUTE_TOL = 1e-11 relative; measured: identical
                   or <= 2 eps); the routed result is what all other clauses judge.  A numba TypingError / TypeError for
                   the routed call is a clean rejection of an undocumented dtype (label route_rejected:*, not a failure;
                   seen only for arrhenius(additional_temp_dependence=True) with a 0-d temperature: `float *= 0-d array`).
  inputs_mutated   every array argument (incl. 0-d) is copied before each call and must be unchanged afterwards.

Oracles (metamorphic / invariant; "pairs" are two calls - or two elements of one array call - that differ in
exactly one argument)
  radio/additive   isotope(all) == sum_i isotope(only i)                      (ADD_TOL  = 64 eps relative)
  radio/halflife   single isotope: q(t + tau) == q(t)/2; bound HALF_ULP*eps*(4 + 0.7(|u|+1) + 0.7(|t1|+|t2|+|ref|)/tau):
                   the second term is the rounding of gamma*(t-ref), the third the rounding of the generated
                   times themselves relative to one half-life (analytic, like C17's exponent-literal term).
  radio/mass       q(k m) == k q(m)                                            (LIN_TOL = 32 eps)
  radio/conc       q(k c) == k q(c) (all), q(c_j -> k c_j) == q + (k-1) q_j    (LIN_TOL)
  radio/ref        q(t_ref) == fsum(f c q) * mass                              (LIN_TOL * n)
  radio/fixed_no_decay   half-life 0 is documented as "no decay": q == mass*rate
  cool/positive    flux_conv > 0, flux_cond > 0 for dT > float_eps; cool/mono_dT, cool/mono_eta on pairs
                   (SLACK = 1e-12 relative, as fixed by the plan); cool/conv_ge_cond point-wise (SLACK).
  visc/mono_T      eta(T_{i+1}) <= eta(T_i) (1 + SLACK + 8 eps (B/T_i + B/T_ref)): the analytic term is the
                   rounding of the exponent B/T (up to 3e5/50 = 6e3 for the reference law, where the clamp
                   applies to B(1/T-1/T_ref) and not to B/T); it is < 1e-12 whenever B/T < 560.
  melt/ge_liquid   eta >= eta_liq, mu >= mu_liq (exact comparisons: the code clamps with the same numbers)
  melt/henning_zero      phi == 0  => (eta, mu) == (eta_pre, mu_pre) exactly
  melt/henning_beyond    phi > (crit + width)(1 + 4 eps) => (eta, mu) == (eta_liq, mu_liq) exactly (melt fractions within
                         4 ulp of the threshold only have to satisfy melt/ge_liquid and monotonicity: a correct
                         implementation may round crit+width differently)
  melt/henning_mono      eta non-increasing along the sorted melt fractions (SLACK)
  melt/off         returns the pre-melt values unchanged.

Calibration on the unchanged tree (module-level STATS, 24 000 cases over three seeds): worst error/tolerance ratio
radio/additive 0.03 (1.9 eps of 64), radio/halflife 0.011 of the analytic bound, radio/mass|conc 0.15 at 16 eps =
2.5 eps (tolerance then doubled to 32 eps), radio/reference 0.03; no cooling or Henning pair was ever inverted at
all, viscosity pairs were inverted by at most 3.2e-16 relative (slack 1e-12). A wrong coefficient moves the radio
clauses by >= 1e-3 relative and the monotone ones by the pair ratio (median step 1e-3), i.e. >= 1e9 x the slack.

Findings on the pinned tree (see known_findings.json)
  KF-C19-fixed-halflife-zero   `fixed(..., average_half_life=0)` raises ZeroDivisionError although the docstring
                               says "Set to 0 for no decay".
  KF-C19-arrhenius-clamp-T     arrhenius with additional_temp_dependence=True: once (E+PV)/(RT) >= ln(DBL_MAX) the
                               exponent is clamped and the T prefactor makes the returned viscosity *increase*
                               with T (finite when coeff*stress^(1-n)*d^p*T < 1).

Sensitivity (tools/mut.py, quick tier, all CAUGHT):
  fixes/revert-407b6c0.diff (Henning liquid shear := liquid viscosity)      -> melt/henning_beyond(shear)
  radiogenic_models.py  LOG_HALF = np.log(0.5) -> np.log(2.0)                 -> radio/halflife
  cooling_models.py     `(nusselt <= 2.) * 2.` -> `(nusselt <= 2.) * nusselt` (clamp removed) -> cool/conv_ge_cond
  melting_models.py     first `-hn_visc_slope_1` -> `hn_visc_slope_1`         -> melt/henning_mono
  viscosity_models.py   reference: (1/T - 1/Tref) -> (1/Tref - 1/T)           -> visc/mono_T
  radiogenic_models.py  `total_specific_heating += ` -> `total_specific_heating = ` (dropped accumulation) -> radio/additive
  melting_models.py     henning `(melt_fraction_shape <= 0.) * premelt_viscosity` -> `... < 0.` -> melt/henning_zero
  viscosity_models.py   arrhenius `(E + P V)/(T R)` -> `(E - P V)/(T R)` (sign of the pressure term)   -> visc/mono_T
  seeded/C19-3 (Ra rewritten with layer_thickness**3: int64 wrap for integer thicknesses >= 2^21 m) -> dtype_route + cool/finite
Both proposed repairs (out/proposed-fix-C19-1.diff, -2.diff) applied to a scratch copy make the two known findings
disappear and leave every other clause green (tools/mut.py --patch, 6 000 cases).
"""
import math
import sys

import numpy as np
from hypothesis import strategies as st

from vlib.result import Collector, repo_call

ID = 'C19'
TECHNIQUE = ('property-based testing (Hypothesis): metamorphic relations (additivity, half-life, linearity) and '
             'monotonicity/sign invariants on generated pairs, scalar and array calls')
LEVEL = 'exploration'
LEVEL_TEXT = ('Generated-input exploration of the ten thermal model functions: every clause of the statement is an executable '
              'relation evaluated on tens of thousands (quick) to millions (thorough) of generated parameter sets and '
              'argument pairs, scalar and array calling conventions; it shows the relations hold on everything generated '
              'inside the stated domain, not for all doubles.')
LEVEL_NOTE = ('Trusts IEEE double arithmetic, numpy/numba exp and pow being accurate to about one ulp, and math.fsum. The '
              'generated domain (module docstring / RULE) is built around the shipped configuration because the docstrings '
              'give units but hardly any ranges; temperature contrasts in (0, 2.2e-16 K], which the convection code treats '
              'as zero, and pre-melt values below the liquid values are outside the domain.')
CASES = {'quick': 30000, 'thorough': 3000000}
SHARDS = {'quick': 16, 'thorough': 16}

EPS = 2.0 ** -52
SLACK = 1e-12
ADD_TOL = 64 * EPS
LIN_TOL = 32 * EPS
HALF_ULP = 16.0
FLOAT_EPS = float(np.finfo(float).eps)
LOGMAX = math.log(sys.float_info.max)
MIN_THICKNESS = 50.0

RULE = ('Hypothesis draws one of ten families (radio_isotope, radio_fixed, cool, visc_arrhenius, visc_reference, '
        'visc_constant, melt_henning, melt_spohn, melt_off), an argument dtype route (float64 | python int | np.int64/int64 arrays | 0-d arrays; '
        'integer-eligible quantities are then rounded to integral values), its parameters log-uniformly in the ranges listed in the module '
        'docstring, the argument pairs/lists the monotonicity clauses need, and scalar|array calling mode. Non-trivial: '
        'radio - some time != ref_time and scale factor != 1; cool - dT2 > dT1, eta2 > eta1 and dT2 > float_eps; visc - at '
        'least two distinct temperatures; henning - at least two distinct melt fractions; spohn/off - always. '
        'distinct = distinct case hash.')
ASSUMPTIONS = ['monotonicity slack 1e-12 relative (+ 8 eps * exponent magnitude for the viscosity laws)',
               'radiogenic tolerances: additivity 64 eps, linearity/reference 16 eps, half-life 16 eps * analytic conditioning',
               'temperature contrasts in (0, float_eps] are outside the domain (treated as zero by the code)',
               'pre-melt viscosity/rigidity >= liquid values; Henning/Spohn parameters within a factor ~3 of shipped defaults']

FAMILIES = ['radio_isotope', 'radio_fixed', 'cool', 'visc_arrhenius', 'visc_reference', 'visc_constant',
            'melt_henning', 'melt_spohn', 'melt_off']
PHI_TAGS = ['zero', 'one', 'crit', 'just_below_crit', 'crit_plus_width', 'just_beyond', 'barely_beyond', 'beyond', 'mid_window']


def _R():
    from scipy.constants import R
    return float(R)


def _mods():
    from TidalPy.radiogenics import radiogenic_models as rm
    from TidalPy.cooling import cooling_models as cm
    from TidalPy.rheology.viscosity import viscosity_models as vm
    from TidalPy.rheology.partial_melt import melting_models as mm
    return rm, cm, vm, mm


# ---- strategies --------------------------------------------------------------------------------------------
# Every sub-strategy is built once (module level) and the dependent quantities are computed in a `.map` builder
# from flat raw draws: constructing strategies inside @composite bodies cost 5-9 ms per case.

def logu(lo, hi):
    return st.floats(math.log10(lo), math.log10(hi)).map(lambda x: min(hi, max(lo, 10.0 ** x)))


def weighted(*pairs):
    """one_of with integer weights (one_of drops repeated identical branches, so every repeat gets its own wrapper)."""
    out = []
    for strat, w in pairs:
        out.append(strat)
        out.extend(strat.map(lambda x: x) for _ in range(w - 1))
    return st.one_of(*out)


STEP = weighted((st.floats(-6.0, 1.0).map(lambda u: 10.0 ** u), 4), (st.just(0.0), 1))   # relative pair step; 0.0 = one ulp
BOOL = st.booleans()
ROUTE = st.sampled_from(['float', 'float', 'float', 'pyint', 'npint', 'zerod'])


def _bump(x, rel):
    """x*(1+rel), or the next double above x when rel == 0 (or when the product does not move x)."""
    y = x * (1.0 + rel)
    if not y > x:
        y = math.nextafter(x, math.inf)
    return y


REF_TIME = st.one_of(st.just(0.0), st.just(4600.0), st.floats(-1.0e4, 1.0e4))
U_LIST = st.lists(st.one_of(st.floats(-40.0, 40.0), st.just(0.0), st.just(1.0)), min_size=1, max_size=5)
MASS = logu(1e10, 1e27)
KFAC = logu(1e-3, 1e3)
TAU = logu(0.1, 1e5)
ISO = st.tuples(logu(1e-4, 1.0), logu(1e-12, 1e-3), TAU, logu(1e-8, 1e-1)).map(list)
DT = logu(1e-14, 1e4)
DT_BIG = logu(1e-3, 1e4)
ETA = logu(1e-4, 1e28)      # down to liquid-like values (water ~1e-3 Pa s): the flux must stay monotone across eta = 1 Pa s too
TEMP = logu(50.0, 4500.0)
PRESSURE = weighted((st.just(0.0), 1), (logu(1e5, 1e11), 2))
ACT_VOL = st.one_of(st.just(0.0), logu(1e-7, 2e-5))
ACT_E = logu(4e4, 7e5)
ETA_REF = logu(1e-4, 1e25)
UNIT = st.floats(0.0, 1.0)
PHI = weighted((UNIT, 2), (st.sampled_from(PHI_TAGS), 1))


def _s_radio_isotope():
    return st.fixed_dictionaries({
        'family': st.just('radio_isotope'), 'array': BOOL, 'route': ROUTE, 'mass': MASS, 'ref_time': REF_TIME,
        'isotopes': st.lists(ISO, min_size=1, max_size=6), 'u': U_LIST, 'unit': st.sampled_from(['min', 'max']),
        'k': KFAC, 'j': st.integers(0, 5)})


def _s_radio_fixed():
    return st.fixed_dictionaries({
        'family': st.just('radio_fixed'), 'array': BOOL, 'route': ROUTE, 'mass': MASS, 'ref_time': REF_TIME,
        'rate': logu(1e-14, 1e-8), 'tau': weighted((TAU, 7), (st.just(0.0), 1)), 'u': U_LIST, 'k': KFAC})


def _build_cool(r):
    dT1 = r.pop('dT1')
    dT2 = r.pop('dT2_abs') if dT1 == 0.0 else _bump(dT1, r.pop('dT_step'))
    r.pop('dT2_abs', None)
    r.pop('dT_step', None)
    eta1 = r.pop('eta1')
    out = {'family': 'cool', 'array': r.pop('array'), 'dT1': dT1, 'dT2': dT2, 'eta1': eta1,
           'eta2': _bump(eta1, r.pop('eta_step'))}
    out.update(r)
    return out


def _s_cool():
    return st.fixed_dictionaries({
        'array': BOOL, 'route': ROUTE, 'dT1': weighted((st.just(0.0), 1), (DT, 2), (DT_BIG, 3)), 'dT2_abs': DT, 'dT_step': STEP,
        'eta1': ETA, 'eta_step': STEP,
        'k': logu(0.1, 100.0), 'kappa': logu(1e-8, 1e-4), 'alphaT': logu(1e-6, 1e-3),
        'L': weighted((st.sampled_from([50.0, math.nextafter(50.0, math.inf), math.nextafter(50.0, 0.0), 1.0, 49.0, 51.0]), 1),
                      (logu(1.0, 1e7), 2), (logu(1e2, 1e7), 1), (logu(1e3, 1e7), 2)),
        'g': logu(0.01, 100.0), 'rho': logu(100.0, 2e4), 'alpha': logu(0.05, 5.0),
        'beta': st.one_of(st.sampled_from([0.0, 0.25, 1.0 / 3.0, 0.3333333333333333, 0.5]), st.floats(0.0, 0.5)),
        'Rac': logu(100.0, 1e4),
        'extras': st.lists(st.tuples(st.one_of(st.just(0.0), DT), ETA).map(list), max_size=3)}).map(_build_cool)


def _build_temps(r, lo=50.0, hi=4500.0):
    t = r['t0']
    out = [t]
    for stp in r['steps'][:r['n'] - 1]:
        t2 = _bump(t, stp)
        if t2 > hi:
            break
        out.append(t2)
        t = t2
    if len(out) < 2:
        out = [math.nextafter(hi, 0.0), hi] if out[0] >= hi else [out[0], min(hi, _bump(out[0], 1e-3))]
    return out


TEMPS = st.fixed_dictionaries({'n': st.integers(2, 5), 't0': TEMP,
                               'steps': st.lists(STEP, min_size=4, max_size=4)}).map(_build_temps)


def _s_visc_arrhenius():
    return st.fixed_dictionaries({
        'family': st.just('visc_arrhenius'), 'array': BOOL, 'route': ROUTE, 'temps': TEMPS, 'P': PRESSURE, 'coeff': logu(1e-20, 1e10),
        'addT': BOOL, 'stress': logu(1e-2, 1e8), 'stress_expo': st.floats(1.0, 5.0), 'grain': logu(1e-6, 0.1),
        'grain_expo': st.floats(0.0, 3.0), 'E': ACT_E, 'V': ACT_VOL})


def _s_visc_reference():
    return st.fixed_dictionaries({
        'family': st.just('visc_reference'), 'array': BOOL, 'route': ROUTE, 'temps': TEMPS, 'P': PRESSURE, 'eta_ref': ETA_REF, 'T_ref': TEMP,
        'E': weighted((ACT_E, 3), (logu(1e3, 7e5), 1), (st.sampled_from([0.0, 6.64e-20]), 1)), 'V': ACT_VOL})


def _s_visc_constant():
    return st.fixed_dictionaries({'family': st.just('visc_constant'), 'array': BOOL, 'route': ROUTE, 'temps': TEMPS, 'P': PRESSURE,
                                  'eta_ref': ETA_REF})


def _build_henning(r):
    crit = r['crit']
    r['width'] = min(r['width'], 0.95 - crit)
    r['eta_pre'] = r['eta_liq'] * 10.0 ** r.pop('eta_decades')
    r['liquidus'] = r['solidus'] + r.pop('melt_range')
    r['shear_falloff'] = min(r['shear_falloff'], 400.0 / crit)
    return r


def _s_melt_henning():
    return st.fixed_dictionaries({
        'family': st.just('melt_henning'), 'array': BOOL, 'route': ROUTE, 'phis': st.lists(PHI, min_size=2, max_size=6),
        'T_mode': st.sampled_from(['linked', 'linked', 'free']), 'T_free': st.floats(0.5, 1.5),
        'eta_liq': logu(1e-3, 1e4), 'eta_decades': weighted((st.floats(0.01, 25.0), 3), (st.floats(5.0, 25.0), 4), (st.just(0.0), 1)),
        'mu_pre': logu(1e7, 1e12), 'mu_liq': logu(1e-8, 1e2), 'solidus': st.floats(150.0, 3000.0),
        'melt_range': st.floats(1.0, 1500.0), 'crit': st.floats(0.05, 0.8), 'width': st.floats(0.001, 0.15),
        'visc_slope_1': st.floats(0.0, 40.0), 'visc_falloff': st.floats(0.0, 700.0),
        'shear_p1_over_solidus': st.floats(0.0, 40.0), 'shear_p2': st.floats(0.0, 40.0),
        'shear_falloff': st.floats(0.0, 1000.0)}).map(_build_henning)


def _s_melt_spohn():
    return st.fixed_dictionaries({
        'family': st.just('melt_spohn'), 'array': BOOL, 'route': ROUTE,
        'pts': st.lists(st.tuples(UNIT, logu(350.0, 5000.0)).map(list), min_size=1, max_size=5),
        'eta_liq': logu(1e-3, 1e6), 'mu_liq': logu(1e-8, 1e2), 'visc_slope': st.floats(13500.0, 32400.0),
        'visc_phase': st.floats(0.0, 3.0), 'shear_slope': st.floats(41000.0, 98400.0), 'shear_phase': st.floats(30.0, 50.0)})


def _s_melt_off():
    return st.fixed_dictionaries({'family': st.just('melt_off'), 'array': BOOL, 'route': ROUTE,
                                  'phis': st.lists(UNIT, min_size=1, max_size=5),
                                  'eta_pre': logu(1e-3, 1e29), 'mu_pre': logu(1e-8, 1e12)})


def strategy(tier):
    ri, rf, co, va, vr, vc, mh, ms, mo = (_s_radio_isotope(), _s_radio_fixed(), _s_cool(), _s_visc_arrhenius(),
                                          _s_visc_reference(), _s_visc_constant(), _s_melt_henning(), _s_melt_spohn(),
                                          _s_melt_off())
    return weighted((ri, 3), (rf, 1), (co, 4), (va, 3), (vr, 2), (vc, 1), (mh, 4), (ms, 1), (mo, 1))


def fixed_cases(tier):
    """Shipped defaults (rock layer, modern-day chondritic isotopes) in both calling modes."""
    out = []
    chond = [[0.9928, 0.012e-6, 4470.0, 9.48e-5], [0.0071, 0.012e-6, 704.0, 5.69e-4], [0.9998, 0.04e-6, 14000.0, 2.69e-5],
             [1.19e-4, 840.0e-6, 1250.0, 2.92e-5]]
    for arr in (False, True):
        out.append({'family': 'radio_isotope', 'array': arr, 'mass': 4.0e24, 'ref_time': 4600.0, 'isotopes': chond,
                    'u': [0.0, 1.0, -0.5, 3.25], 'unit': 'min', 'k': 2.5, 'j': 1})
        out.append({'family': 'radio_fixed', 'array': arr, 'mass': 4.0e24, 'ref_time': 4600.0, 'rate': 5.0e-12,
                    'tau': 2000.0, 'u': [0.0, 1.0, -2.0], 'k': 0.3})
        out.append({'family': 'cool', 'array': arr, 'dT1': 800.0, 'dT2': 1200.0, 'eta1': 1e20, 'eta2': 1e22, 'k': 3.75,
                    'kappa': 9.15751e-7, 'alphaT': 5.2e-5, 'L': 2.0e6, 'g': 9.8, 'rho': 4500.0, 'alpha': 1.0,
                    'beta': 1.0 / 3.0, 'Rac': 1100.0, 'extras': [[0.0, 1e20], [1.0, 1e28]]})
        out.append({'family': 'visc_arrhenius', 'array': arr, 'temps': [180.0, 220.0, 260.0], 'P': 0.0,
                    'coeff': 1.1037527593819e07, 'addT': True, 'stress': 1.0, 'stress_expo': 1.0, 'grain': 5.0e-4,
                    'grain_expo': 2.0, 'E': 59.4e3, 'V': 0.0})
        out.append({'family': 'visc_reference', 'array': arr, 'temps': [900.0, 1000.0, 1600.0, 2000.0], 'P': 1e9,
                    'eta_ref': 1e22, 'T_ref': 1000.0, 'E': 300000.0, 'V': 1e-6})
        out.append({'family': 'melt_henning', 'array': arr,
                    'phis': ['zero', 0.2, 'just_below_crit', 'crit', 'mid_window', 'crit_plus_width'],
                    'T_mode': 'linked', 'T_free': 1.0, 'eta_pre': 1e20, 'eta_liq': 1.0, 'mu_pre': 5e10, 'mu_liq': 1e-5,
                    'solidus': 1600.0, 'liquidus': 2000.0, 'crit': 0.5, 'width': 0.05, 'visc_slope_1': 13.5,
                    'visc_falloff': 370.0, 'shear_p1_over_solidus': 25.0, 'shear_p2': 25.0, 'shear_falloff': 700.0})
        out.append({'family': 'melt_henning', 'array': arr, 'phis': ['just_beyond', 'beyond', 'one'],
                    'T_mode': 'linked', 'T_free': 1.0, 'eta_pre': 1e20, 'eta_liq': 1.0, 'mu_pre': 5e10, 'mu_liq': 1e-5,
                    'solidus': 1600.0, 'liquidus': 2000.0, 'crit': 0.5, 'width': 0.05, 'visc_slope_1': 13.5,
                    'visc_falloff': 370.0, 'shear_p1_over_solidus': 25.0, 'shear_p2': 25.0, 'shear_falloff': 700.0})
        out.append({'family': 'melt_spohn', 'array': arr, 'pts': [[0.5, 1800.0], [0.9, 2500.0]], 'eta_liq': 1.0,
                    'mu_liq': 1e-5, 'visc_slope': 27000.0, 'visc_phase': 1.0, 'shear_slope': 82000.0, 'shear_phase': 40.6})
    out.append({'family': 'cool', 'array': False, 'dT1': 1500.0, 'dT2': 3000.0, 'eta1': 1e21, 'eta2': 1e22, 'k': 4.0,
                'kappa': 1.0e-6, 'alphaT': 3.0e-5, 'L': 2200000.0, 'g': 10.0, 'rho': 4500.0, 'alpha': 1.0, 'beta': 1.0 / 3.0,
                'Rac': 1100.0, 'extras': []})      # thick mantle: L**3 does not fit an int64
    return _with_routes(out)


def _with_routes(cases):
    out = []
    for case in cases:
        out.append(case)
        for r in ('pyint', 'npint', 'zerod'):
            out.append(dict(case, route=r))
    return out


def required_labels(tier):
    return ['family:' + f for f in FAMILIES] + [
        'scalar', 'array', 'route:float', 'route:pyint', 'route:npint', 'route:zerod', 'route_applied:pyint',
        'route_applied:npint', 'route_applied:zerod', 'radio:n=1', 'radio:n>=2', 'radio:t=ref', 'radio:t<ref', 'radio:t>ref', 'fixed:halflife=0',
        'cool:Nu>2', 'cool:Nu=2', 'cool:thin', 'cool:dT=0', 'visc:addT', 'visc:no_addT', 'visc:clamped', 'visc:unclamped',
        'henning:phi=0', 'henning:below_crit', 'henning:window', 'henning:beyond', 'henning:beyond_exact_checked', 'henning:eta_pre=eta_liq',
        'spohn:visc_clamped', 'spohn:visc_free', 'spohn:shear_clamped', 'spohn:shear_free']


# ---- domain (used by the shrinker) -----------------------------------------------------------------------------

def _pos(*xs):
    return all(isinstance(x, float) and math.isfinite(x) and x > 0.0 for x in xs)


def _rng(x, lo, hi):
    return isinstance(x, (int, float)) and not isinstance(x, bool) and lo <= x <= hi


def in_domain(case):
    try:
        fam = case['family']
        if not isinstance(case['array'], bool) or case.get('route', 'float') not in ROUTES:
            return False
        if fam == 'radio_isotope':
            isos = case['isotopes']
            return (1 <= len(isos) <= 6 and all(len(i) == 4 and _rng(i[0], 1e-4, 1.0) and _rng(i[1], 1e-12, 1e-3)
                                                and _rng(i[2], 0.1, 1e5) and _rng(i[3], 1e-8, 1e-1) for i in isos)
                    and _rng(case['mass'], 1e10, 1e27) and _rng(case['ref_time'], -1e4, 1e4)
                    and 1 <= len(case['u']) <= 5 and all(_rng(u, -40.0, 40.0) for u in case['u'])
                    and case['unit'] in ('min', 'max') and _rng(case['k'], 1e-3, 1e3) and 0 <= case['j'] <= 5)
        if fam == 'radio_fixed':
            return (_rng(case['mass'], 1e10, 1e27) and _rng(case['ref_time'], -1e4, 1e4) and _rng(case['rate'], 1e-14, 1e-8)
                    and (case['tau'] == 0.0 or _rng(case['tau'], 0.1, 1e5))
                    and 1 <= len(case['u']) <= 5 and all(_rng(u, -40.0, 40.0) for u in case['u']) and _rng(case['k'], 1e-3, 1e3))
        if fam == 'cool':
            def dt_ok(x):
                return x == 0.0 or _rng(x, 1e-14, 1e4)
            return (dt_ok(case['dT1']) and _rng(case['dT2'], 1e-14, 1.2e5) and case['dT2'] >= case['dT1']
                    and _rng(case['eta1'], 1e-4, 1e28) and _rng(case['eta2'], 1e-4, 1.2e29) and case['eta2'] >= case['eta1']
                    and _rng(case['k'], 0.1, 100.0) and _rng(case['kappa'], 1e-8, 1e-4) and _rng(case['alphaT'], 1e-6, 1e-3)
                    and _rng(case['L'], 1.0, 1e7) and _rng(case['g'], 0.01, 100.0) and _rng(case['rho'], 100.0, 2e4)
                    and _rng(case['alpha'], 0.05, 5.0) and _rng(case['beta'], 0.0, 0.5) and _rng(case['Rac'], 100.0, 1e4)
                    and len(case['extras']) <= 3 and all(len(e) == 2 and dt_ok(e[0]) and _rng(e[1], 1e-4, 1e28)
                                                         for e in case['extras']))
        if fam.startswith('visc_'):
            t = case['temps']
            ok = (2 <= len(t) <= 5 and all(_rng(x, 50.0, 4500.0) for x in t) and all(a <= b for a, b in zip(t, t[1:]))
                  and (case['P'] == 0.0 or _rng(case['P'], 1e5, 1e11)))
            if fam == 'visc_constant':
                return ok and _rng(case['eta_ref'], 1e-4, 1e25)
            ok = ok and (case['V'] == 0.0 or _rng(case['V'], 1e-7, 2e-5))
            if fam == 'visc_reference':
                return (ok and _rng(case['eta_ref'], 1e-4, 1e25) and _rng(case['T_ref'], 50.0, 4500.0)
                        and (case['E'] in (0.0, 6.64e-20) or _rng(case['E'], 1e3, 7e5)))
            return (ok and _rng(case['E'], 4e4, 7e5) and _rng(case['coeff'], 1e-20, 1e10) and isinstance(case['addT'], bool)
                    and _rng(case['stress'], 1e-2, 1e8) and _rng(case['stress_expo'], 1.0, 5.0)
                    and _rng(case['grain'], 1e-6, 0.1) and _rng(case['grain_expo'], 0.0, 3.0))
        if fam == 'melt_henning':
            return (2 <= len(case['phis']) <= 6 and all((p in PHI_TAGS) if isinstance(p, str) else _rng(p, 0.0, 1.0)
                                                        for p in case['phis'])
                    and case['T_mode'] in ('linked', 'free') and _rng(case['T_free'], 0.5, 1.5)
                    and _rng(case['eta_liq'], 1e-3, 1e4) and _rng(case['eta_pre'], case['eta_liq'], 1e30)
                    and _rng(case['mu_liq'], 1e-8, 1e2) and _rng(case['mu_pre'], 1e7, 1e12)
                    and _rng(case['solidus'], 150.0, 3000.0) and _rng(case['liquidus'] - case['solidus'], 1.0, 1500.0)
                    and _rng(case['crit'], 0.05, 0.8) and _rng(case['width'], 0.0, 0.15) and case['width'] > 0.0
                    and case['crit'] + case['width'] <= 0.95 + 1e-12
                    and _rng(case['visc_slope_1'], 0.0, 40.0) and _rng(case['visc_falloff'], 0.0, 700.0)
                    and _rng(case['shear_p1_over_solidus'], 0.0, 40.0) and _rng(case['shear_p2'], 0.0, 40.0)
                    and _rng(case['shear_falloff'], 0.0, 1000.0) and case['shear_falloff'] * case['crit'] <= 400.0 + 1e-9)
        if fam == 'melt_spohn':
            return (1 <= len(case['pts']) <= 5 and all(len(p) == 2 and _rng(p[0], 0.0, 1.0) and _rng(p[1], 350.0, 5000.0)
                                                       for p in case['pts'])
                    and _rng(case['eta_liq'], 1e-3, 1e6) and _rng(case['mu_liq'], 1e-8, 1e2)
                    and _rng(case['visc_slope'], 13500.0, 32400.0) and _rng(case['visc_phase'], 0.0, 3.0)
                    and _rng(case['shear_slope'], 41000.0, 98400.0) and _rng(case['shear_phase'], 30.0, 50.0))
        if fam == 'melt_off':
            return (1 <= len(case['phis']) <= 5 and all(_rng(p, 0.0, 1.0) for p in case['phis'])
                    and _rng(case['eta_pre'], 1e-3, 1e29) and _rng(case['mu_pre'], 1e-8, 1e12))
        return False
    except Exception:
        return False


# ---- calling conventions --------------------------------------------------------------------------------------

ROUTES = ['float', 'pyint', 'npint', 'zerod']
ROUTE_TOL = 1e-11
INT_MAX = 2.0 ** 62
_CTX = {'route': 'float', 'c': None}


def _is_int(x):
    return isinstance(x, float) and x.is_integer() and abs(x) < INT_MAX


def _conv_scalar(x, route):
    """One scalar / tuple argument on a dtype route (only called for arguments that are integer-eligible)."""
    if isinstance(x, tuple):
        if route in ('pyint', 'npint') and all(_is_int(t) for t in x):
            return tuple(int(t) for t in x) if route == 'pyint' else tuple(np.int64(int(t)) for t in x)
        return x
    if isinstance(x, bool) or not isinstance(x, float):
        return x
    if route == 'zerod':
        return np.array(x, dtype=np.float64)
    if _is_int(x):
        return int(x) if route == 'pyint' else np.int64(int(x))
    return x


def _conv_array(v, route):
    if route in ('pyint', 'npint') and all(_is_int(float(t)) for t in v):
        return np.array([int(t) for t in v], dtype=np.int64)
    return np.array(v, dtype=np.float64)


def _tname(a):
    if isinstance(a, np.ndarray):
        return '%s[%dd]' % (a.dtype, a.ndim)
    if isinstance(a, tuple):
        return 'tuple(%s)' % (type(a[0]).__name__ if a else '')
    return type(a).__name__


def _call(fn, array, live, const, nout, route, li, ci, name):
    """fn(*live, *const) once with equal-length arrays (array mode) or once per point with scalars (scalar mode);
    arguments whose index is in li / ci are passed on the dtype route.  Array arguments are copied before the call
    and compared afterwards (inputs-not-mutated clause).  Returns (nout lists of floats, argument type names)."""
    n = len(live[0])
    cargs = [(_conv_scalar(x, route) if (route != 'float' and j in ci) else x) for j, x in enumerate(const)]
    types = None

    def run(args):
        saved = [(j, a.copy()) for j, a in enumerate(args) if isinstance(a, np.ndarray)]
        res = fn(*args)
        for j, before in saved:
            after = args[j]
            if after.dtype != before.dtype or after.shape != before.shape or not np.array_equal(after, before, equal_nan=True):
                _CTX['c'].fail({'clause': 'inputs_mutated', 'fn': name},
                               '%s changed its argument #%d (%s): before %r after %r' % (name, j, _tname(before), before, after))
        return res

    if array:
        largs = [(_conv_array(v, route) if (route != 'float' and j in li) else np.array(v, dtype=np.float64))
                 for j, v in enumerate(live)]
        args = largs + cargs
        types = [_tname(a) for a in args]
        res = run(args)
        if nout == 1:
            res = (res,)
        outs = []
        for r in res[:nout]:
            r = np.asarray(r, dtype=np.float64)
            if r.shape != (n,):
                raise ValueError('array call returned shape %r for %d points' % (r.shape, n))
            outs.append([float(x) for x in r])
        return outs, types
    outs = [[] for _ in range(nout)]
    for i in range(n):
        largs = [(_conv_scalar(float(v[i]), route) if (route != 'float' and j in li) else float(v[i])) for j, v in enumerate(live)]
        args = largs + cargs
        if types is None:
            types = [_tname(a) for a in args]
        res = run(args)
        if nout == 1:
            res = (res,)
        for o, r in zip(outs, res[:nout]):
            o.append(float(r))
    return outs, types


def _vec(fn, array, live, const, nout=1, name=None, li=(), ci=()):
    """float64 call (always) and, when the case carries a dtype route, the same call with the integer-eligible
    arguments passed as python int / np.int64 (int64 arrays in array mode) / 0-d float64 arrays.  The routed result
    must equal the float64 result (ROUTE_TOL) and is the one handed to all other clauses.  A numba TypingError /
    TypeError for the routed call is a clean rejection of an undocumented dtype (labelled, not a failure)."""
    name = name or getattr(fn, '__name__', 'fn')
    base, btypes = _call(fn, array, live, const, nout, 'float', (), (), name)
    route = _CTX['route']
    if route == 'float' or not (li or ci):
        return base
    from numba.core.errors import NumbaError
    c = _CTX['c']
    try:
        routed, rtypes = _call(fn, array, live, const, nout, route, li, ci, name)
    except (NumbaError, TypeError) as e:
        c.label('route_rejected:%s:%s' % (route, name))
        _CTX.setdefault('rejections', {})[(route, name)] = '%s: %s' % (type(e).__name__, str(e)[:200])
        return base
    if rtypes == btypes:
        return base                               # nothing was integral: the route did not apply
    c.label('route_applied:' + route, 'route_applied:%s:%s' % (route, name))
    for j in range(nout):
        for i, (x, y) in enumerate(zip(base[j], routed[j])):
            same = (x == y) or (math.isnan(x) and math.isnan(y)) or _rel(x, y) <= ROUTE_TOL
            if not same:
                c.fail({'clause': 'dtype_route', 'fn': name, 'route': route},
                       '%s %s: output %d point %d is %r with argument types %r but %r with float64 arguments; live=%r const=%r'
                       % ('array' if array else 'scalar', name, j, i, y, rtypes, x, [v[i] for v in live], const))
                return routed
    return routed


STATS = {}


def _stat(name, value):
    """Calibration aid: worst observed error/tolerance ratio per clause (not part of the verdict)."""
    if value > STATS.get(name, 0.0):
        STATS[name] = value


def _rel(a, b):
    if a == b:
        return 0.0
    if not (math.isfinite(a) and math.isfinite(b)):
        return float('inf')
    return abs(a - b) / max(abs(a), abs(b))


# ---- dtype routes: make the integer-eligible quantities integral ----------------------------------------------------

def _ri(x, lo=None, hi=None):
    """Nearest integral float inside [lo, hi] (values beyond the int64 range stay as they are)."""
    x = float(x)
    if not abs(x) < INT_MAX:
        return x
    y = float(round(x))
    if lo is not None:
        y = max(y, float(lo))
    if hi is not None:
        y = min(y, float(hi))
    return y


def _above(x, y):
    """Smallest integral float >= y that is > x (x integral)."""
    y = _ri(y)
    if y > x:
        return y
    z = x + 1.0
    return z if z > x else math.nextafter(x, math.inf)


def _integralize(case):
    """Copy of the case in which every integer-eligible quantity (times, masses, half-lives, temperatures, pressures,
    thicknesses, viscosities, moduli, slopes ...) is rounded to an integral value inside its generated range and the
    ordering constraints (pairs, sorted temperatures, liquidus > solidus, pre-melt >= liquid) are kept."""
    import copy
    k = copy.deepcopy(case)
    fam = k['family']
    if fam == 'radio_isotope':
        k['mass'], k['ref_time'] = _ri(k['mass']), _ri(k['ref_time'])
        for iso in k['isotopes']:
            iso[2] = _ri(iso[2], 1.0)
    elif fam == 'radio_fixed':
        k['mass'], k['ref_time'] = _ri(k['mass']), _ri(k['ref_time'])
        if k['tau'] != 0.0:
            k['tau'] = _ri(k['tau'], 1.0)
    elif fam == 'cool':
        def dt(x):
            return 0.0 if x == 0.0 else _ri(x, 1.0)
        k['dT1'] = dt(k['dT1'])
        k['dT2'] = _above(k['dT1'], max(k['dT2'], 1.0))
        k['eta1'] = _ri(k['eta1'], 1.0)
        k['eta2'] = _above(k['eta1'], k['eta2']) if abs(k['eta2']) < INT_MAX else k['eta2']
        k['extras'] = [[dt(a), _ri(b, 1.0)] for a, b in k['extras']]
        k['k'], k['L'], k['g'] = _ri(k['k'], 1, 100), _ri(k['L'], 1, 1e7), _ri(k['g'], 1, 100)
        k['rho'], k['alpha'], k['Rac'] = _ri(k['rho'], 100, 2e4), _ri(k['alpha'], 1, 5), _ri(k['Rac'], 100, 1e4)
    elif fam.startswith('visc_'):
        out = []
        for t in k['temps']:
            r = _ri(t, 50, 4500)
            if out and r <= out[-1]:
                r = out[-1] + 1.0
            if r > 4500.0:
                break
            out.append(r)
        if len(out) < 2:
            out = [4499.0, 4500.0] if out[0] >= 4500.0 else [out[0], out[0] + 1.0]
        k['temps'] = out
        k['P'] = _ri(k['P'])
        if 'eta_ref' in k and k['eta_ref'] >= 1.0:
            k['eta_ref'] = _ri(k['eta_ref'])
        if 'T_ref' in k:
            k['T_ref'] = _ri(k['T_ref'], 50, 4500)
        if 'E' in k:
            k['E'] = _ri(k['E'])
        if fam == 'visc_arrhenius':
            k['stress'], k['stress_expo'], k['grain_expo'] = _ri(k['stress'], 1.0), _ri(k['stress_expo'], 1, 5), _ri(k['grain_expo'], 0, 3)
    elif fam == 'melt_henning':
        k['solidus'] = _ri(k['solidus'])
        k['liquidus'] = _above(k['solidus'], k['liquidus'])
        k['eta_liq'] = _ri(k['eta_liq'], 1.0)
        k['eta_pre'] = max(_ri(k['eta_pre'], 1.0), k['eta_liq'])
        k['mu_pre'], k['mu_liq'] = _ri(k['mu_pre']), _ri(k['mu_liq'], 1.0, 100.0)
        k['visc_slope_1'], k['visc_falloff'], k['shear_p2'] = _ri(k['visc_slope_1']), _ri(k['visc_falloff']), _ri(k['shear_p2'])
        k['shear_falloff'] = float(math.floor(k['shear_falloff']))
    elif fam == 'melt_spohn':
        k['pts'] = [[p, _ri(t, 350, 5000)] for p, t in k['pts']]
        k['eta_liq'], k['mu_liq'] = _ri(k['eta_liq'], 1.0), _ri(k['mu_liq'], 1.0, 100.0)
        k['visc_slope'], k['visc_phase'] = _ri(k['visc_slope']), _ri(k['visc_phase'], 0, 3)
        k['shear_slope'], k['shear_phase'] = _ri(k['shear_slope']), _ri(k['shear_phase'], 30, 50)
    elif fam == 'melt_off':
        k['eta_pre'], k['mu_pre'] = _ri(k['eta_pre'], 1.0), _ri(k['mu_pre'], 1.0)
    return k


def _rt(x):
    """Round a derived quantity (time, temperature, slope) to an integral float when the case is on a dtype route."""
    return _ri(x) if _CTX['route'] != 'float' else x


# ---- evaluate -----------------------------------------------------------------------------------------------------

def evaluate(case):
    fam = case['family']
    route = case.get('route', 'float')
    c = Collector(labels=['family:' + fam, 'array' if case['array'] else 'scalar', 'route:' + route])
    _CTX['route'], _CTX['c'] = route, c
    if route != 'float':
        case = _integralize(case)
    if fam == 'radio_isotope':
        _ev_isotope(case, c)
    elif fam == 'radio_fixed':
        _ev_fixed(case, c)
    elif fam == 'cool':
        _ev_cool(case, c)
    elif fam.startswith('visc_'):
        _ev_visc(case, c)
    elif fam == 'melt_henning':
        _ev_henning(case, c)
    elif fam == 'melt_spohn':
        _ev_spohn(case, c)
    elif fam == 'melt_off':
        _ev_melt_off(case, c)
    else:
        raise ValueError('unknown family %r' % (fam,))
    return c.result()


def _mode(case):
    return 'array' if case['array'] else 'scalar'


def _half_bound(u, t1, t2, ref, tau):
    return HALF_ULP * EPS * (4.0 + 0.7 * (abs(u) + 1.0) + 0.7 * (abs(t1) + abs(t2) + abs(ref)) / tau)


def _ev_isotope(case, c):
    rm = _mods()[0]
    arr = case['array']
    isos = [[float(x) for x in i] for i in case['isotopes']]
    n = len(isos)
    F = tuple(i[0] for i in isos)
    C = tuple(i[1] for i in isos)
    TAU = tuple(i[2] for i in isos)
    Q = tuple(i[3] for i in isos)
    mass = float(case['mass'])
    ref = float(case['ref_time'])
    k = float(case['k'])
    j = int(case['j']) % n
    tmin, tmax = min(TAU), max(TAU)
    times = [_rt(ref + u * (tmin if (u < 0.0 or case['unit'] == 'min') else tmax)) for u in case['u']]
    c.nontrivial = any(t != ref for t in times) and k != 1.0
    c.label('radio:n=1' if n == 1 else 'radio:n>=2')
    for t in times:
        c.label('radio:t=ref' if t == ref else ('radio:t<ref' if t < ref else 'radio:t>ref'))
    md = _mode(case)

    def q(ts, m, f, cc, tau, hp):
        return _vec(rm.isotope, arr, [ts], (m, f, cc, tau, hp, ref), name='isotope', li=(0,), ci=(0, 3, 5))[0]

    with repo_call('radiogenic_models.isotope'):
        total = q(times, mass, F, C, TAU, Q)
        singles = [q(times, mass, (F[i],), (C[i],), (TAU[i],), (Q[i],)) for i in range(n)]
    for ti, t in enumerate(times):
        parts = [singles[i][ti] for i in range(n)]
        ok = all(math.isfinite(p) and p >= 0.0 for p in parts) and math.isfinite(total[ti])
        c.check(ok, {'clause': 'radio/finite_nonneg', 'fn': 'isotope'}, '%s t=%r total=%r parts=%r' % (md, t, total[ti], parts))
        if not ok:
            continue
        s = math.fsum(parts)
        err = abs(total[ti] - s)
        _stat('radio/additive', err / (ADD_TOL * s) if s else 0.0)
        c.check(err <= ADD_TOL * s, {'clause': 'radio/additive', 'fn': 'isotope'},
                '%s t=%r ref=%r: isotope(all)=%r sum of single-isotope calls=%r rel=%.3e tol=%.1e; isotopes=%r'
                % (md, t, ref, total[ti], s, err / s if s else float('inf'), ADD_TOL, isos))
    # half-life: every isotope on its own, at ref + u*tau_i and one half-life later
    for i in range(n):
        t1 = [_rt(ref + u * TAU[i]) for u in case['u']]
        t2 = [t + TAU[i] for t in t1]
        with repo_call('radiogenic_models.isotope'):
            q1 = q(t1, mass, (F[i],), (C[i],), (TAU[i],), (Q[i],))
            q2 = q(t2, mass, (F[i],), (C[i],), (TAU[i],), (Q[i],))
        for a, b, x1, x2 in zip(t1, t2, q1, q2):
            tol = _half_bound((a - ref) / TAU[i], a, b, ref, TAU[i])
            if x1 > 0.0:
                _stat('radio/halflife', abs(x2 - 0.5 * x1) / (tol * x1))
            c.check(math.isfinite(x1) and x1 > 0.0 and abs(x2 - 0.5 * x1) <= tol * x1, {'clause': 'radio/halflife', 'fn': 'isotope'},
                    '%s tau=%r ref=%r: q(t=%r)=%r q(t+tau=%r)=%r ratio=%r (want 0.5, tol %.2e)'
                    % (md, TAU[i], ref, a, x1, b, x2, x2 / x1 if x1 else float('nan'), tol))
    # linearity in mass and concentration
    Ck = tuple(k * x for x in C)
    Cj = tuple((k * x if i == j else x) for i, x in enumerate(C))
    with repo_call('radiogenic_models.isotope'):
        qm = q(times, k * mass, F, C, TAU, Q)
        qc = q(times, mass, F, Ck, TAU, Q)
        qj = q(times, mass, F, Cj, TAU, Q)
    for ti, t in enumerate(times):
        want = k * total[ti]
        _stat('radio/linear', max(_rel(qm[ti], want), _rel(qc[ti], want)) / LIN_TOL)
        c.check(_rel(qm[ti], want) <= LIN_TOL, {'clause': 'radio/linear_mass', 'fn': 'isotope'},
                '%s t=%r: q(k*mass)=%r k*q(mass)=%r k=%r' % (md, t, qm[ti], want, k))
        c.check(_rel(qc[ti], want) <= LIN_TOL, {'clause': 'radio/linear_concentration', 'fn': 'isotope', 'scaled': 'all'},
                '%s t=%r: q(k*c)=%r k*q(c)=%r k=%r' % (md, t, qc[ti], want, k))
        sj = singles[j][ti]
        wantj = total[ti] + (k - 1.0) * sj
        scale = abs(total[ti]) + (abs(k - 1.0) + k) * sj
        _stat('radio/linear_one', abs(qj[ti] - wantj) / (ADD_TOL * scale) if scale else 0.0)
        c.check(abs(qj[ti] - wantj) <= ADD_TOL * scale,
                {'clause': 'radio/linear_concentration', 'fn': 'isotope', 'scaled': 'one'},
                '%s t=%r: q(c_j -> k c_j)=%r q + (k-1) q_j=%r k=%r j=%d' % (md, t, qj[ti], wantj, k, j))
    # value at the reference time
    with repo_call('radiogenic_models.isotope'):
        qref = q([ref], mass, F, C, TAU, Q)[0]
    want = math.fsum(F[i] * C[i] * Q[i] for i in range(n)) * mass
    _stat('radio/reference_value', _rel(qref, want) / (LIN_TOL * (n + 1)))
    c.check(_rel(qref, want) <= LIN_TOL * (n + 1), {'clause': 'radio/reference_value', 'fn': 'isotope'},
            '%s q(t_ref=%r)=%r, sum(f c q)*mass=%r rel=%.3e' % (md, ref, qref, want, _rel(qref, want)))


def _ev_fixed(case, c):
    rm = _mods()[0]
    arr = case['array']
    mass, ref, rate, tau, k = (float(case[x]) for x in ('mass', 'ref_time', 'rate', 'tau', 'k'))
    md = _mode(case)
    if tau == 0.0:
        # docstring: "Half life used for the decay of the fixed rate. Set to 0 for no decay"
        c.label('fixed:halflife=0')
        times = [ref] + [_rt(ref + 1000.0 * u) for u in case['u']]
        c.nontrivial = True
        try:
            got = _vec(rm.fixed, arr, [times], (mass, rate, 0.0, ref), name='fixed', li=(0,), ci=(0, 2, 3))[0]
        except Exception as e:  # keep the labels: report the exception as this clause's failure
            c.fail({'kind': 'exception', 'type': type(e).__name__, 'where': 'radiogenic_models.fixed[average_half_life=0]'},
                   '%s fixed(time=%r, mass=%r, rate=%r, average_half_life=0.0, ref_time=%r) raised %s: %s; the docstring '
                   'says "Set to 0 for no decay"' % (md, times, mass, rate, ref, type(e).__name__, e))
            return
        want = mass * rate
        for t, g in zip(times, got):
            c.check(_rel(g, want) <= LIN_TOL, {'clause': 'radio/fixed_no_decay', 'fn': 'fixed', 'at_ref': t == ref},
                    '%s half-life 0 (documented: no decay): q(t=%r)=%r, mass*rate=%r (ref_time=%r)' % (md, t, g, want, ref))
        return
    t1 = [_rt(ref + u * tau) for u in case['u']]
    t2 = [t + tau for t in t1]
    c.nontrivial = any(t != ref for t in t1) and k != 1.0
    c.label('radio:n=1')
    for t in t1:
        c.label('radio:t=ref' if t == ref else ('radio:t<ref' if t < ref else 'radio:t>ref'))
    with repo_call('radiogenic_models.fixed'):
        q1 = _vec(rm.fixed, arr, [t1], (mass, rate, tau, ref), name='fixed', li=(0,), ci=(0, 2, 3))[0]
        q2 = _vec(rm.fixed, arr, [t2], (mass, rate, tau, ref), name='fixed', li=(0,), ci=(0, 2, 3))[0]
        qm = _vec(rm.fixed, arr, [t1], (k * mass, rate, tau, ref), name='fixed', li=(0,), ci=(0, 2, 3))[0]
        qref = _vec(rm.fixed, arr, [[ref]], (mass, rate, tau, ref), name='fixed', li=(0,), ci=(0, 2, 3))[0][0]
    for a, b, x1, x2, xm in zip(t1, t2, q1, q2, qm):
        tol = _half_bound((a - ref) / tau, a, b, ref, tau)
        if x1 > 0.0:
            _stat('radio/halflife', abs(x2 - 0.5 * x1) / (tol * x1))
            _stat('radio/linear', _rel(xm, k * x1) / LIN_TOL)
        c.check(math.isfinite(x1) and x1 > 0.0 and abs(x2 - 0.5 * x1) <= tol * x1, {'clause': 'radio/halflife', 'fn': 'fixed'},
                '%s tau=%r ref=%r: q(t=%r)=%r q(t+tau=%r)=%r ratio=%r (want 0.5, tol %.2e)'
                % (md, tau, ref, a, x1, b, x2, x2 / x1 if x1 else float('nan'), tol))
        c.check(_rel(xm, k * x1) <= LIN_TOL, {'clause': 'radio/linear_mass', 'fn': 'fixed'},
                '%s t=%r: q(k*mass)=%r k*q(mass)=%r k=%r' % (md, a, xm, k * x1, k))
    want = mass * rate
    c.check(_rel(qref, want) <= LIN_TOL, {'clause': 'radio/reference_value', 'fn': 'fixed'},
            '%s q(t_ref=%r)=%r, mass*rate=%r' % (md, ref, qref, want))


def _ev_cool(case, c):
    cm = _mods()[1]
    arr = case['array']
    dT1, dT2, e1, e2 = (float(case[x]) for x in ('dT1', 'dT2', 'eta1', 'eta2'))
    k, kappa, aT, L, g, rho, alpha, beta, rac = (float(case[x]) for x in
                                                 ('k', 'kappa', 'alphaT', 'L', 'g', 'rho', 'alpha', 'beta', 'Rac'))
    pts = [[dT1, e1], [dT2, e1], [dT1, e2]] + [[float(a), float(b)] for a, b in case['extras']]
    dts = [p[0] for p in pts]
    etas = [p[1] for p in pts]
    c.nontrivial = dT2 > dT1 and e2 > e1 and dT2 > FLOAT_EPS
    md = _mode(case)
    with repo_call('cooling_models.convection'):
        fconv, blt, ra, nu = _vec(cm.convection, arr, [dts, etas], (k, kappa, aT, L, g, rho, alpha, beta, rac), nout=4,
                                   name='convection', li=(0, 1), ci=(0, 3, 4, 5, 6, 8))
    with repo_call('cooling_models.conduction'):
        fcond = _vec(cm.conduction, arr, [dts], (k, L), nout=4, name='conduction', li=(0,), ci=(0, 1))[0]
    ctx = 'k=%r kappa=%r alphaT=%r L=%r g=%r rho=%r alpha=%r beta=%r Ra_c=%r' % (k, kappa, aT, L, g, rho, alpha, beta, rac)
    if L <= MIN_THICKNESS:
        c.label('cool:thin')
    for i, (dt, eta) in enumerate(pts):
        fc, fd = fconv[i], fcond[i]
        if dt == 0.0:
            c.label('cool:dT=0')
        elif L > MIN_THICKNESS:
            c.label('cool:Nu>2' if nu[i] > 2.0 else 'cool:Nu=2')
        fin = math.isfinite(fc) and math.isfinite(fd)
        c.check(fin, {'clause': 'cool/finite'}, '%s dT=%r eta=%r conv=%r cond=%r; %s' % (md, dt, eta, fc, fd, ctx))
        if not fin:
            continue
        if dt > FLOAT_EPS:
            c.check(fc > 0.0, {'clause': 'cool/positive', 'fn': 'convection'}, '%s dT=%r eta=%r flux=%r; %s' % (md, dt, eta, fc, ctx))
            c.check(fd > 0.0, {'clause': 'cool/positive', 'fn': 'conduction'}, '%s dT=%r flux=%r; %s' % (md, dt, fd, ctx))
        if fc < fd:
            _stat('cool/conv_ge_cond', (fd - fc) / fd / SLACK)
        c.check(fc >= fd * (1.0 - SLACK), {'clause': 'cool/conv_ge_cond'},
                '%s dT=%r eta=%r: convection %r < conduction %r (Nu=%r, boundary layer %r); %s' % (md, dt, eta, fc, fd, nu[i], blt[i], ctx))
    if all(math.isfinite(x) for x in fconv[:3] + fcond[:3]):
        if fconv[1] < fconv[0]:
            _stat('cool/mono_dT', (fconv[0] - fconv[1]) / fconv[0] / SLACK)
        if fconv[2] > fconv[0]:
            _stat('cool/mono_eta', (fconv[2] - fconv[0]) / fconv[0] / SLACK)
        c.check(fconv[1] >= fconv[0] * (1.0 - SLACK), {'clause': 'cool/mono_dT', 'fn': 'convection'},
                '%s eta=%r: flux(dT=%r)=%r > flux(dT=%r)=%r; %s' % (md, e1, dT1, fconv[0], dT2, fconv[1], ctx))
        c.check(fcond[1] >= fcond[0] * (1.0 - SLACK), {'clause': 'cool/mono_dT', 'fn': 'conduction'},
                '%s flux(dT=%r)=%r > flux(dT=%r)=%r; %s' % (md, dT1, fcond[0], dT2, fcond[1], ctx))
        c.check(fconv[2] <= fconv[0] * (1.0 + SLACK), {'clause': 'cool/mono_eta', 'fn': 'convection'},
                '%s dT=%r: flux(eta=%r)=%r < flux(eta=%r)=%r; %s' % (md, dT1, e1, fconv[0], e2, fconv[2], ctx))
        c.check(fcond[2] <= fcond[0] * (1.0 + SLACK), {'clause': 'cool/mono_eta', 'fn': 'conduction'},
                '%s dT=%r: conduction flux changed with viscosity: %r vs %r' % (md, dT1, fcond[0], fcond[2]))


def _ev_visc(case, c):
    vm = _mods()[2]
    fam = case['family']
    arr = case['array']
    temps = [float(t) for t in case['temps']]
    P = float(case['P'])
    press = [P] * len(temps)
    md = _mode(case)
    c.nontrivial = len(set(temps)) >= 2
    R = _R()
    if fam == 'visc_constant':
        with repo_call('viscosity_models.constant'):
            v = _vec(vm.constant, arr, [temps, press], (float(case['eta_ref']),), name='constant', li=(0, 1), ci=(0,))[0]
        c.check(all(x == float(case['eta_ref']) for x in v), {'clause': 'visc/constant'},
                '%s constant law returned %r for reference %r' % (md, v, case['eta_ref']))
        return
    E, V = float(case['E']), float(case['V'])
    B = (E + P * V) / R
    if fam == 'visc_reference':
        law = 'reference'
        Tref = float(case['T_ref'])
        const = (float(case['eta_ref']), Tref, E, V)
        with repo_call('viscosity_models.reference'):
            v = _vec(vm.reference, arr, [temps, press], const, name='reference', li=(0, 1), ci=(0, 1, 2))[0]
        expo = [B * (1.0 / t - 1.0 / Tref) for t in temps]
        extra = [B / t + B / Tref for t in temps]
        addT = False
    else:
        law = 'arrhenius'
        addT = bool(case['addT'])
        const = (float(case['coeff']), addT, float(case['stress']), float(case['stress_expo']), float(case['grain']),
                 float(case['grain_expo']), E, V)
        with repo_call('viscosity_models.arrhenius'):
            v = _vec(vm.arrhenius, arr, [temps, press], const, name='arrhenius', li=(0, 1), ci=(2, 3, 5, 6))[0]
        expo = [B / t for t in temps]
        extra = expo
        c.label('visc:addT' if addT else 'visc:no_addT')
    ctx = 'P=%r const=%r' % (P, const)
    for i in range(len(temps) - 1):
        clamped = abs(expo[i]) >= LOGMAX * (1 - 1e-9) or abs(expo[i + 1]) >= LOGMAX * (1 - 1e-9)
        c.label('visc:clamped' if clamped else 'visc:unclamped')
        a, b = v[i], v[i + 1]
        sig = {'clause': 'visc/mono_T', 'law': law, 'regime': 'clamped_exponent' if clamped else 'normal',
               'additional_temp_dependence': addT}
        if math.isnan(a) or math.isnan(b) or a < 0.0 or b < 0.0:
            c.fail(dict(sig, kind='nan_or_negative'), '%s eta(T=%r)=%r eta(T=%r)=%r; %s' % (md, temps[i], a, temps[i + 1], b, ctx))
            continue
        slack = SLACK + 8.0 * EPS * max(extra[i], extra[i + 1])
        if b > a and math.isfinite(b) and not clamped:
            _stat('visc/mono_T', (b - a) / a / slack)
            _stat('visc/mono_T/abs_rel', (b - a) / a)
        c.check(b <= a * (1.0 + slack), sig,
                '%s viscosity increases with temperature: eta(T=%r)=%r < eta(T=%r)=%r (exponents %.6g, %.6g; ln(DBL_MAX)=%.6g); %s'
                % (md, temps[i], a, temps[i + 1], b, expo[i], expo[i + 1], LOGMAX, ctx))


def _resolve_phi(p, crit, width):
    if not isinstance(p, str):
        return float(p)
    cpw = crit + width
    return {'zero': 0.0, 'one': 1.0, 'crit': crit, 'just_below_crit': math.nextafter(crit, 0.0), 'crit_plus_width': cpw,
            'just_beyond': math.nextafter(cpw, 1.0), 'barely_beyond': cpw * (1.0 + 16.0 * EPS), 'beyond': 0.5 * (cpw + 1.0), 'mid_window': crit + 0.5 * width}[p]


def _ev_henning(case, c):
    mm = _mods()[3]
    arr = case['array']
    crit, width = float(case['crit']), float(case['width'])
    cpw = crit + width                      # the same double sum as the code
    phis = sorted(_resolve_phi(p, crit, width) for p in case['phis'])
    n = len(phis)
    sol, liq = float(case['solidus']), float(case['liquidus'])
    if case['T_mode'] == 'linked':
        temps = [sol + p * (liq - sol) for p in phis]
    else:
        temps = [_rt(float(case['T_free']) * sol)] * n
    eta_pre, eta_liq, mu_pre, mu_liq = (float(case[x]) for x in ('eta_pre', 'eta_liq', 'mu_pre', 'mu_liq'))
    const = (sol, liq, mu_liq, crit, width, float(case['visc_slope_1']), float(case['visc_falloff']),
             _rt(float(case['shear_p1_over_solidus']) * sol), float(case['shear_p2']), float(case['shear_falloff']))
    md = _mode(case)
    c.nontrivial = len(set(phis)) >= 2
    if eta_pre == eta_liq:
        c.label('henning:eta_pre=eta_liq')
    with repo_call('melting_models.henning'):
        eta, mu = _vec(mm.henning, arr, [phis, temps, [eta_pre] * n, [eta_liq] * n, [mu_pre] * n], const, nout=2,
                       name='henning', li=(1, 2, 3, 4), ci=(0, 1, 2, 5, 6, 7, 8, 9))
    ctx = ('eta_pre=%r eta_liq=%r mu_pre=%r mu_liq=%r (solidus, liquidus, liquid_shear, crit, width, visc_slope_1, visc_falloff, '
           'shear_p1, shear_p2, shear_falloff)=%r' % (eta_pre, eta_liq, mu_pre, mu_liq, const))
    for i, p in enumerate(phis):
        region = 'phi=0' if p <= 0.0 else ('below_crit' if p < crit else ('window' if p <= cpw else 'beyond'))
        c.label('henning:' + region)
        c.check(eta[i] >= eta_liq, {'clause': 'melt/ge_liquid', 'law': 'henning', 'what': 'viscosity', 'region': region},
                '%s phi=%r T=%r: viscosity %r < liquid viscosity %r; %s' % (md, p, temps[i], eta[i], eta_liq, ctx))
        c.check(mu[i] >= mu_liq, {'clause': 'melt/ge_liquid', 'law': 'henning', 'what': 'shear', 'region': region},
                '%s phi=%r T=%r: shear %r < liquid shear %r; %s' % (md, p, temps[i], mu[i], mu_liq, ctx))
        if p == 0.0:
            c.check(eta[i] == eta_pre, {'clause': 'melt/henning_zero', 'what': 'viscosity'},
                    '%s phi=0: viscosity %r != pre-melt %r; %s' % (md, eta[i], eta_pre, ctx))
            c.check(mu[i] == mu_pre, {'clause': 'melt/henning_zero', 'what': 'shear'},
                    '%s phi=0: shear %r != pre-melt %r; %s' % (md, mu[i], mu_pre, ctx))
        if p > cpw * (1.0 + 4.0 * EPS):     # clear of the threshold however crit+width is rounded by an implementation
            c.label('henning:beyond_exact_checked')
            c.check(eta[i] == eta_liq, {'clause': 'melt/henning_beyond', 'what': 'viscosity'},
                    '%s phi=%r > crit+width=%r: viscosity %r != liquid viscosity %r; %s' % (md, p, cpw, eta[i], eta_liq, ctx))
            c.check(mu[i] == mu_liq, {'clause': 'melt/henning_beyond', 'what': 'shear'},
                    '%s phi=%r > crit+width=%r: shear %r != liquid shear %r; %s' % (md, p, cpw, mu[i], mu_liq, ctx))
    for i in range(n - 1):
        if phis[i + 1] > phis[i]:
            if eta[i + 1] > eta[i]:
                _stat('melt/henning_mono', (eta[i + 1] - eta[i]) / eta[i] / SLACK)
            c.check(eta[i + 1] <= eta[i] * (1.0 + SLACK), {'clause': 'melt/henning_mono', 'what': 'viscosity'},
                    '%s viscosity increases with melt fraction: eta(phi=%r)=%r < eta(phi=%r)=%r; %s'
                    % (md, phis[i], eta[i], phis[i + 1], eta[i + 1], ctx))


def _ev_spohn(case, c):
    mm = _mods()[3]
    arr = case['array']
    phis = [float(p[0]) for p in case['pts']]
    temps = [float(p[1]) for p in case['pts']]
    n = len(phis)
    eta_liq, mu_liq = float(case['eta_liq']), float(case['mu_liq'])
    const = (mu_liq, float(case['visc_slope']), float(case['visc_phase']), float(case['shear_slope']), float(case['shear_phase']))
    md = _mode(case)
    with repo_call('melting_models.spohn'):
        eta, mu = _vec(mm.spohn, arr, [phis, temps, [eta_liq] * n], const, nout=2, name='spohn', li=(1, 2), ci=(0, 1, 2, 3, 4))
    for i in range(n):
        c.label('spohn:visc_clamped' if eta[i] == eta_liq else 'spohn:visc_free',
                'spohn:shear_clamped' if mu[i] == mu_liq else 'spohn:shear_free')
        c.check(math.isfinite(eta[i]) and eta[i] >= eta_liq, {'clause': 'melt/ge_liquid', 'law': 'spohn', 'what': 'viscosity'},
                '%s phi=%r T=%r: viscosity %r vs liquid %r; const=%r' % (md, phis[i], temps[i], eta[i], eta_liq, const))
        c.check(math.isfinite(mu[i]) and mu[i] >= mu_liq, {'clause': 'melt/ge_liquid', 'law': 'spohn', 'what': 'shear'},
                '%s phi=%r T=%r: shear %r vs liquid %r; const=%r' % (md, phis[i], temps[i], mu[i], mu_liq, const))


def _ev_melt_off(case, c):
    mm = _mods()[3]
    arr = case['array']
    phis = [float(p) for p in case['phis']]
    n = len(phis)
    eta_pre, mu_pre = float(case['eta_pre']), float(case['mu_pre'])
    with repo_call('melting_models.off'):
        eta, mu = _vec(mm.off, arr, [phis, [eta_pre] * n, [mu_pre] * n], (), nout=2, name='melt_off', li=(1, 2))
    c.check(all(x == eta_pre for x in eta) and all(x == mu_pre for x in mu), {'clause': 'melt/off'},
            '%s off law changed the pre-melt values: %r %r vs %r %r' % (_mode(case), eta, mu, eta_pre, mu_pre))


def selftest():
    assert _bump(1.0, 0.0) == 1.0 + 2.0 ** -52 and _bump(2.0, 0.5) == 3.0
    assert _resolve_phi('just_beyond', 0.5, 0.05) > 0.5 + 0.05 and _resolve_phi('crit_plus_width', 0.5, 0.05) == 0.5 + 0.05
    assert abs(LOGMAX - 709.782712893384) < 1e-9
    for case in fixed_cases('quick'):
        assert in_domain(case), case


def warm():
    for case in fixed_cases('quick'):
        evaluate(case)
