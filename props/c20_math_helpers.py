"""C20 - compiled math helpers match their mathematical definitions.

Targets (observed through the Python wrappers, i.e. exactly what a user of the module gets):
`TidalPy.utilities.math.complex.{csqrt, cexp, clog, cpow, cipow, hypot}`,
`TidalPy.utilities.math.special_x.double_factorial`, `TidalPy.utilities.math.special.sqrt_neg`.

Generated
  doubles are built bit-wise (sign, binary exponent -1074..1023, 52 mantissa bits) so that every exponent
  range is hit on purpose: mid (2^-40..2^40), wide (all normal exponents), subnormal, within 16x of overflow,
  signed zeros; complex arguments pair two of these independently, or tie them (|im| = |re| 2^-k; points
  r (cos t, sin t) with r in [0.70,1.75] for the logarithm's unit-circle branch).  `cexp`: real part uniform in
  [-745.2, 709.78], tiny, and the band just above log(DBL_MAX); imaginary part any finite double, incl. huge
  ones and neighbours of k pi/2; a quarter of the cexp cases cross the real-part ranges {normal, tiny, just below
  overflow, 709.78..710.48 gap, scaled range up to 1454.9 and its edges, beyond (up to DBL_MAX), underflow, far
  underflow} with the imaginary-part classes {+-0, the smallest four subnormals, subnormal, tiny normal, ordinary,
  near k pi/2, huge} independently.  csqrt/clog/hypot/raw power arguments likewise cross the magnitude classes
  {+-0, smallest subnormals, subnormal, tiny normal, ordinary, >= 2^990, DBL_MAX} of their two parts (2 of 15 pairs).  Powers: a = exp(L/b) (cos t, sin t) with the logarithm L of the result
  uniform over the representable range [-745, 709.7] so that results are representable *by construction*,
  integer b in [-200,200] (every special-cased value 0,+-1,+-2,+-3,+-99,+-100 included) and non-integer real b
  in +-[1e-6, 200].  The lattice {+-0, +-1.5, +-inf, NaN, +-5e-324, +-DBL_MAX}^2 for csqrt/clog and
  double_factorial(0..255) are enumerated completely (fixed cases) in every run.

Oracles (oracles/cmath_mp.py, mpmath at 320 bits, inputs converted exactly; self-tested against textbook values,
sin(1e22), and - for the Annex G tables - against the platform cmath)
  ulp      |got - exact| <= TOL ulp(|exact|) for the complex value (normwise) and, for csqrt/cexp/clog, per
           component in ulp of that component ("ulp" = spacing of doubles at that magnitude, 2^-1074 below
           DBL_MIN).  The real and imaginary part are judged independently: when one of them is beyond DBL_MAX the
           other one, if it is an ordinary double, must still be right (cexp: TOL ulp of that part; powers: the
           same normwise budget counted in ulp of |a^b|); the overflowing part itself is not judged.  Only cases in
           which no part of the exact result is representable are discarded.
  annexg   arguments with a zero imaginary part, an infinity or a NaN (csqrt, clog): C99 G.6.4.2 / G.6.3.2
           tables incl. the sign of zeros and of infinities; conj-symmetry is part of the tables.
  exact    double_factorial(n) == the correctly rounded exact integer n!! for every accepted n (<= 170); for
           n >= 171 (n!! > DBL_MAX, not an accepted argument) only "raises some exception" is required.
  agree    sqrt_neg(x, is_real=True) (the form legacy code uses) and sqrt_neg(z, is_real=False) return
           csqrt's value (<= 16 ulp normwise, against the compiled function, cross-checked with the oracle).

Tolerances.  The statement says "a few ulp"; THIS MODULE READS THAT AS 8 ULP for hypot/csqrt/cexp/clog (and 16 ulp for the
  agreement of the two square roots, each side being allowed 8).  The margins over the worst deviation measured on the
  unchanged tree (2-3 x 10^5 points per function, targeted at the worst regions) are therefore 4x, not the 10x the
  framework asks for elsewhere: a larger factor would no longer be "a few ulp".
  hypot, csqrt, cexp: 8 ulp.  Worst seen 1.89 / 1.88 / 1.80 (normwise and per component); a rounding analysis
      of the three algorithms (libm sqrt exact, exp/sin/cos/atan2/log <= 1 ulp) bounds them by ~3 ulp.
  clog: 8 ulp.  Worst seen 3.88 normwise at |z| ~ 0.705, just inside the log1p branch (0.71 <= |z| <= 1.73),
      where the absolute error of log|z| is ~1 x 2^-52 while |log z| ~ 0.35 (ulp 2^-54); analysis gives ~5.
      Real component inside 0.70 <= |z| <= 1.75: absolute floor 8 x 2^-52 (worst seen 0.94 x 2^-52), because Re log z
      vanishes on the unit circle (0.6+0.8i: exact 2.2e-17, returned 2.8e-17 - fine normwise, 1e15 "ulp" of the
      component).  This is the "away from zeros of a component" rule of the plan.
  powers: "a few ulp" is read per unit of conditioning, with ONE bound for every exponent, independent of where the
      implementation switches algorithm: max(4 (1+|b|), 8 (1+kappa)) ulp, kappa = |b| (1 + |Log a|) = condition number of
      a^b w.r.t. both arguments (rounding b*Log a, |.| up to 745, alone costs |b Log a|/2 ulp in a textbook exp-log
      power; glibc's cpow is of that kind).  Worst seen: 1.09 (1+|b|) for |b| < 100 (repeated multiplication today),
      1.37 (1+kappa) for |b| >= 100 / non-integer b (exp-log today; 7.8 (1+|b|) at b = 101, |Log a| = 6.4).
      DEVIATION from DESIGN.md, which planned 4 (1+|b|) for integer b on a measurement of 2.8|b|.
  A wrong digit / coefficient moves results by >= 1e-10 relative (4.5e5 ulp).

Known findings (compiled code, cannot be rebuilt here; each has a *region + symptom* signature, see
known_findings.json; the generator keeps producing these regions and the clauses that still hold there
are still judged - a different symptom in the same region, or the same symptom elsewhere, is a VIOLATION):
  KF-C20-dfact-table / -recursion, KF-C20-csqrt-signed-zero, -csqrt-rescale, -csqrt-subnormal (DESIGN.md), and
  met while building this check: KF-C20-cplx-from-parts (Cython builds x + y*I, so an infinite/NaN imaginary
  part turns the real part into NaN and -0.0 + 0i loses its sign before the function body runs: clog(x+-inf i)
  has a NaN angle, clog(-0+0i) = -inf+0i), KF-C20-cexp-overflow-gap (exp(x) overflows above 709.78 but the
  scaled path only starts at 710.4758: cexp(709.9+0.785i) = inf+inf i, exact 1.43e308 (1+i)),
  KF-C20-ipow-inverse-overflow (negative integer power computed as 1/a^|b|: 1e10^-31 = 0 instead of 1e-310),
  KF-C20-cexp-inf-times-zero (Im z = +-0 and Re z above 709.78 outside the scaled range: exp(x)*sin(0) = inf*0,
  cexp(1500+0i) = inf+NaN i) and KF-C20-pow-modulus-overflow (|a^b| > DBL_MAX: a part that is still a double comes
  back as inf/NaN) - both found when parts of a partially overflowing result started to be judged separately,
  KF-C20-sqrtneg-general (special.py, is_real=False branch; accepted only where observed: |z| >= 2^511 -> NaN,
  |z| < 2^-510 -> NaN or error <= 8(1+2^-485/|z|) ulp, 0 < |Im| < |Re|/4 -> cancellation error <= 8(1+|Re/Im|) ulp,
  Re < 0 with Im = -0.0 -> upper side of the cut; every other off-axis argument must agree to 16 ulp;
  proposed patch out/proposed-fix-C20-1.diff).

Sensitivity (tools/mut.py on the generated C / on special.py; `-- --cases 6000 --shards 4`, each 10-40 s; all CAUGHT)
  complex.c  cf_csqrt Algorithm 312 first branch `* 0.5)` -> `* 0.25)`            csqrt normal/tiny ulp
  complex.c  cf_csqrt `copysign(t, z_imag)` -> `t` (branch cut side)              csqrt normal ulp + annexg (-fin,-0)
  complex.c  cf_csqrt rescale: imag additionally `* 4.0` (a *different* bug       csqrt overflow_rescale -> inaccurate
             inside the known overflow_rescale region)                             (not matched by KF-C20-csqrt-rescale)
  complex.c  LOGE2 0.6931471805.. -> 0.6931471815.. and -> 0.693147180560945..     clog huge / both_subnormal
  complex.c  cf_hypot `1. + yx*yx` -> `1. + yx`                                   hypot, csqrt, clog, cipow(explog)
  complex.c  cf_cexp `(x*c, x*s)` -> `(x*s, x*c)`                                 cexp normal, cpow/cipow explog
  complex.c  cf_clog log1p argument `(a_max-1)(a_max+1)` -> `(a_max-1)(a_max-1)`  clog annulus (+ real axis table)
  complex.c  cf_cipow `negative_pow = 1` -> `0` (inverse dropped)                 cipow mul
  special_x.c table entry 9!! `945.00` -> `954.00`                                double_factorial exact n_got 9:..
  special.py  `(np.real(z) < 0.) * z_sqrt_abs * 1.0j` -> without `* 1.0j`         sqrt_neg agree (mode real)
  complex.c  cf_scaled_cexp imaginary part uses the exponent of cos instead of sin (`exsin` -> `excos`): reachable only
            through partially overflowing results                                 CAUGHT cexp scaled, component im
  seeded/C20-5 (cf_scaled_cexp without the frexp normalisation of cos/sin: imaginary part wrong for subnormal Im z,
            real part +inf in both trees): MISSED while partially overflowing results were discarded, CAUGHT by the
            component clause in the scaled x subnormal cell (cexp scaled -> inaccurate, component im)
  out/proposed-fix-C20-1.diff applied to special.py: check passes, KF-C20-sqrtneg-general no longer reproduced
  (only the compiled side's own findings remain), repository test test_g_math_special_funcs.py still passes.
"""
import math
import sys

from hypothesis import strategies as st

from oracles import cmath_mp as O
from vlib.result import Collector, discard, repo_call

ID = 'C20'
TECHNIQUE = ('property-based testing (Hypothesis, bit-level double generators) against an mpmath 320-bit reference; '
             'C99 Annex G tables; exhaustive enumeration of double_factorial(0..255) and of the special-value lattice')
LEVEL = 'exploration'
LEVEL_TEXT = ('Generated-input exploration: every helper is compared with a 320-bit mpmath value on tens of thousands (quick) '
              'to millions (thorough) of arguments spread over all binary exponents, subnormals, near-overflow values, '
              'branch cuts and the unit circle; the special-value lattice and double_factorial(0..255) are enumerated '
              'completely.  Says the helpers are within the stated ulp bounds on everything generated, not for all doubles.')
LEVEL_NOTE = ('Trusts mpmath (self-tested on textbook values and on argument reduction of 1e22), the hand-written Annex G tables '
              '(self-tested against cmath), IEEE-754 double arithmetic of the host.  The binary under test is the one built from the '
              'generated C present in /repo (no Cython in the sandbox).  "A few ulp" is read per unit of conditioning for powers '
              'and as 8 ulp for clog (see module docstring).')
CASES = {'quick': 60000, 'thorough': 6000000}
SHARDS = {'quick': 12, 'thorough': 16}
TIMEOUT = {'quick': 900, 'thorough': 6 * 3600}

# "a few ulp" is read by this module as 8 ulp (4x the worst deviation seen for hypot/csqrt/cexp, 2x for clog, whose
# log1p branch has an analytic worst case of ~5 ulp); see the module docstring.
TOL = 8.0
TOL_CLOG = 8.0
CLOG_ANNULUS_ABS = 8.0 * 2.0 ** -52
TOL_POW_MUL = 4.0          # per unit of conditioning; the bound applied to every exponent is max(mul, explog), see _eval_pow
TOL_POW_EXPLOG = 8.0
TOL_AGREE = 16.0

DBL_MAX = sys.float_info.max
DBL_MIN = sys.float_info.min
# same double arithmetic as complex.pyx
SQRT2 = 1.414213562373095048801688724209698079
CSQRT_THRESH = (1. / (1.0 + SQRT2)) * DBL_MAX
CSQRT_TINY = 2.0 ** -1021
LOG_DBL_MAX = math.log(DBL_MAX)            # 709.782712893384: exp() overflows above
SCALED_CEXP_LOWER = 710.47586007394386
SCALED_CEXP_UPPER = 1454.9159319953251

RULE = ('Hypothesis draws a function and bit-built doubles (sign, exponent class in {2^-40..2^40, all normal exponents, '
        'subnormal, within 2^-4 of overflow, just above DBL_MIN, +-0}, 52 mantissa bits, sometimes tied |im|=|re|2^-k or '
        'on a circle of radius 0.70..1.75); cexp real part in [-745.2,710.13]; powers a=exp(L/b)(cos t,sin t), L in '
        '[-745,709.7], integer b in [-200,200] or real b in +-[1e-6,200]; sqrt_neg real/complex arguments in both modes; '
        'fixed: lattice {+-0,+-1.5,+-inf,NaN,+-5e-324,+-DBL_MAX}^2 for csqrt/clog and double_factorial(0..255). '
        'Non-trivial = every numeric argument finite and non-zero with at least one argument that is not a power of two '
        '(so the result must be rounded), double_factorial: 2 <= n <= 170; distinct = distinct argument hash.')
ASSUMPTIONS = ['reference: mpmath %d-bit, inputs converted exactly, principal values with f(conj z)=conj f(z) for signed-zero imaginary parts' % O.PREC,
               'ulp(v) = spacing of doubles at |v| (2^-1074 below DBL_MIN); complex error measured normwise and per component',
               '"a few ulp" is read by this module as 8 ulp for hypot/csqrt/cexp/clog (worst measured 1.9/1.9/1.8/3.9 ulp: margin 2-4x, '
               'deliberately not 10x) (+ absolute 8*2^-52 on Re clog inside 0.70<=|z|<=1.75); sqrt_neg vs csqrt 16 ulp',
               'powers: max(4(1+|b|), 8(1+|b|(1+|Log a|))) ulp for every exponent (per unit of conditioning; independent of the implementation\'s |b|<100 switch)',
               'double_factorial: exact for n<=170; for n>=171 any exception is accepted',
               'C99 Annex G.6.4.2 (csqrt) and G.6.3.2 (clog) tables; sign of NaN and the documented "+-inf" entries not compared',
               'real and imaginary part are judged independently: a part that is representable must be right even when the other one overflows; a case is discarded only when no part of the exact result is representable']

FNS = ['csqrt', 'clog', 'cexp', 'hypot', 'cipow', 'cpow', 'sqrt_neg', 'double_factorial']


def F(h):
    return float.fromhex(h) if isinstance(h, str) else float(h)


def H(x):
    return float(x).hex()


def _mods():
    from TidalPy.utilities.math import complex as tc
    from TidalPy.utilities.math import special_x as sx
    from TidalPy.utilities.math.special import sqrt_neg
    return tc, sx, sqrt_neg


def warm():
    tc, sx, sqrt_neg = _mods()
    sqrt_neg(2.0, True)
    sqrt_neg(2.0, False)
    sqrt_neg(2.0 + 1.0j, False)


def selftest():
    O.selftest()
    assert CSQRT_THRESH.hex() == '0x1.a827999fcef32p+1022'
    assert H(F('-0x0.0p+0')) == '-0x0.0p+0' and math.isnan(F('nan')) and F('-inf') == -math.inf


# ---------------------------------------------------------------------------------------------------------
# generators
#
# Hypothesis supplies the entropy (four 64-bit integers per case); `_decode` is a pure function of them that
# builds the case through a splitmix64 stream.  (A tree of nested one_of/builds strategies produced the same
# cases at 2.5 ms each, 5x the cost of the oracle; the shrinker of this framework works on the case dict, so
# nothing is lost.)
# ---------------------------------------------------------------------------------------------------------

_M64 = 2 ** 64 - 1


class _R:
    """splitmix64 stream seeded from the Hypothesis-drawn words"""

    def __init__(self, words):
        s = 0x9E3779B97F4A7C15
        for w in words:
            s = ((s ^ (int(w) & _M64)) * 0xBF58476D1CE4E5B9 + 0x94D049BB133111EB) & _M64
        self.s = s

    def u64(self):
        self.s = (self.s + 0x9E3779B97F4A7C15) & _M64
        z = self.s
        z = ((z ^ (z >> 30)) * 0xBF58476D1CE4E5B9) & _M64
        z = ((z ^ (z >> 27)) * 0x94D049BB133111EB) & _M64
        return z ^ (z >> 31)

    def below(self, n):
        return self.u64() % n

    def rint(self, lo, hi):
        return lo + self.u64() % (hi - lo + 1)

    def unit(self):
        return (self.u64() >> 11) / 2.0 ** 53

    def unif(self, lo, hi):
        return lo + (hi - lo) * self.unit()

    def pick(self, seq):
        return seq[self.u64() % len(seq)]

    def sign(self):
        return 1.0 if self.u64() & 1 else -1.0

    def mant(self):
        k = self.below(8)
        if k == 0:
            return self.pick([0, 1, 2 ** 52 - 1, 2 ** 51, 2 ** 51 + 1, 2 ** 26])
        return self.u64() >> 12

    # ---- doubles by exponent class
    def normal(self, emin, emax):
        return self.sign() * math.ldexp(1.0 + self.mant() / 2.0 ** 52, self.rint(emin, emax))

    def sub(self):
        return self.sign() * math.ldexp(max(1, (self.u64() >> 12) >> self.below(52)), -1074)

    def mid(self):
        return self.normal(-40, 40)

    def wide(self):
        return self.normal(-1022, 1023)

    def big(self):
        return self.normal(1019, 1023)

    def small(self):
        return self.normal(-1022, -1016)

    def zero(self):
        return self.pick([0.0, -0.0])

    def any(self, zero=True):
        k = self.below(8 if zero else 7)
        return (self.mid, self.mid, self.wide, self.wide, self.sub, self.big, self.small, self.zero)[k]()

    # ---- complex arguments
    def tied(self, base):
        a = base()
        b = self.sign() * a * 2.0 ** -self.rint(0, 80) * (1.0 + self.mant() / 2.0 ** 52)
        return (b, a) if self.below(2) else (a, b)

    def circle(self):
        k = self.below(5)
        if k == 0:
            r = 1.0
        elif k == 1:
            r = self.unif(0.70, 1.75)
        elif k == 2:
            r = self.unif(0.70, 0.72)
        elif k == 3:
            r = self.unif(1.72, 1.76)
        else:
            r = 1.0 + self.sign() * 2.0 ** -self.rint(1, 52)
        k = self.below(3)
        if k == 0:
            t = self.unif(-math.pi, math.pi)
        elif k == 1:
            t = self.unif(-0.5, 0.5)
        else:
            t = self.sign() * 2.0 ** -self.rint(1, 300)
        p = (r * math.cos(t), r * math.sin(t))
        return p[::-1] if self.below(2) else p

    def pair(self):
        k = self.below(15)
        if k >= 13:
            return self.cross()
        if k == 0:
            return self.mid(), self.mid()
        if k == 1:
            return self.wide(), self.wide()
        if k in (2, 3):
            return self.any(), self.any()
        if k == 4:
            return self.sub(), self.sub()
        if k == 5:
            return self.big(), self.any()
        if k == 6:
            return self.any(), self.big()
        if k == 7:
            return self.big(), self.big()
        if k == 8:
            return self.small(), self.sub()
        if k == 9:
            return self.sub(), self.small()
        if k == 10:
            return self.tied(self.wide)
        if k == 11:
            return self.tied(self.mid)
        return self.circle()

    # ---- extreme-exponent classes, to be crossed independently between the two parts of an argument
    EXTREME = ['zero', 'sub_min', 'sub', 'tiny_normal', 'ordinary', 'big', 'max']

    def extreme(self, cls=None):
        cls = cls or self.pick(self.EXTREME)
        if cls == 'zero':
            return self.zero()
        if cls == 'sub_min':
            return self.sign() * self.rint(1, 4) * 5e-324              # the smallest few subnormals
        if cls == 'sub':
            return self.sub()
        if cls == 'tiny_normal':
            return self.normal(-1022, -1000)
        if cls == 'ordinary':
            return self.mid()
        if cls == 'big':
            return self.normal(990, 1023)
        return self.sign() * self.pick([DBL_MAX, math.nextafter(DBL_MAX, 0.0), 2.0 ** 1023])

    def cross(self):
        return self.extreme(), self.extreme()

    def special_pair(self):
        sp = [math.inf, -math.inf, math.nan, 0.0, -0.0]
        k = self.below(3)
        if k == 0:
            return self.pick(sp), self.any()
        if k == 1:
            return self.any(), self.pick(sp)
        return self.pick(sp), self.pick(sp)


def _nudge(v, n):
    for _ in range(abs(n)):
        v = math.nextafter(v, math.inf if n > 0 else -math.inf)
    return v


def _gen_cexp(r):
    if r.below(20) == 0:
        # band where exp(x) already overflows but both components are still representable: d = x - log(DBL_MAX)
        # < ln(sqrt 2) and the angle inside the window around an odd multiple of pi/4 with max(|cos|,|sin|) < e^-d
        d = r.unif(1e-9, 0.3465)
        y = (2 * r.rint(-8, 8) + 1) * (math.pi / 4.0) + r.unif(-0.98, 0.98) * (math.pi / 4.0 - math.acos(min(1.0, math.exp(-d))))
        return LOG_DBL_MAX + d, y
    if r.below(4) == 0:
        return _gen_cexp_cross(r)
    k = r.below(9)
    if k in (0, 1):
        x = r.unif(-745.2, 709.78)
    elif k == 2:
        x = r.unif(-40.0, 40.0)
    elif k == 3:
        x = r.normal(-60, 5)
    elif k == 4:
        x = r.sub()
    elif k == 5:
        x = r.zero()
    elif k == 6:
        x = r.unif(709.0, 709.7827)
    elif k == 7:
        x = r.unif(LOG_DBL_MAX, LOG_DBL_MAX + 0.34)
    else:
        x = r.unif(-745.2, -700.0)
    k = r.below(9)
    if k in (0, 1):
        y = r.mid()
    elif k == 2:
        y = r.wide()
    elif k == 3:
        y = r.unif(-7.0, 7.0)
    elif k in (4, 5):
        kk = r.rint(-40, 40) if r.below(2) else r.rint(-10 ** 15, 10 ** 15)
        y = _nudge(kk * (math.pi / 4.0), r.rint(-3, 3))
    elif k == 6:
        y = r.sub()
    elif k == 7:
        y = r.zero()
    else:
        y = r.big()
    return x, y


_CEXP_RE = ['normal', 'normal_small', 'near_overflow', 'gap', 'scaled', 'scaled_edges', 'beyond', 'underflow', 'far_underflow']
_CEXP_IM = ['zero', 'sub_min', 'sub', 'tiny_normal', 'ordinary', 'near_half_pi', 'huge']


def _gen_cexp_cross(r):
    """real part in each of cexp's ranges x imaginary part in each magnitude class, chosen independently"""
    cx, cy = r.pick(_CEXP_RE), r.pick(_CEXP_IM)
    if cx == 'normal':
        x = r.unif(-700.0, 709.0)
    elif cx == 'normal_small':
        x = r.extreme(r.pick(['zero', 'sub_min', 'sub', 'tiny_normal', 'ordinary']))
        x = max(-700.0, min(700.0, x))
    elif cx == 'near_overflow':
        x = r.unif(709.0, LOG_DBL_MAX)
    elif cx == 'gap':
        x = r.unif(LOG_DBL_MAX, SCALED_CEXP_LOWER)
    elif cx == 'scaled':
        x = r.unif(SCALED_CEXP_LOWER, SCALED_CEXP_UPPER)
    elif cx == 'scaled_edges':
        x = _nudge(r.pick([SCALED_CEXP_LOWER, SCALED_CEXP_UPPER, 746.0, 1418.0, 1454.0]), r.rint(-2, 2))
    elif cx == 'beyond':
        x = r.pick([r.unif(SCALED_CEXP_UPPER, 1500.0), r.unif(1500.0, 1e5), abs(r.normal(20, 1023)), DBL_MAX])
    elif cx == 'underflow':
        x = r.unif(-760.0, -700.0)
    else:
        x = -r.pick([r.unif(760.0, 1e5), abs(r.normal(20, 1023)), DBL_MAX])
    if cy == 'near_half_pi':
        kk = r.rint(-8, 8) if r.below(2) else r.rint(-10 ** 15, 10 ** 15)
        y = _nudge(kk * (math.pi / 2.0), r.rint(-3, 3))
    elif cy == 'huge':
        y = r.extreme(r.pick(['big', 'max']))
    else:
        y = r.extreme(cy)
    return x, y


def _gen_logmag(r):
    k = r.below(6)
    if r.below(12) == 0:
        # modulus of the result beyond DBL_MAX: one part can still be representable (argument next to an axis)
        return r.unif(709.7, 712.0) if r.below(2) else r.unif(712.0, 760.0)
    return (r.unif(-745.0, 709.7), r.unif(-745.0, 709.7), r.unif(-30.0, 30.0), r.unif(-745.0, -700.0),
            r.unif(700.0, 709.7), r.unif(-1.0, 1.0))[k]


def _gen_angle(r):
    k = r.below(4)
    if k in (0, 1):
        return r.unif(-math.pi, math.pi)
    if k == 2:
        return r.pick(['+x', '-x', '+y', '-y', '-x-0', '+x-0'])
    return r.sign() * 2.0 ** -r.rint(1, 60)


def _polar(L, b, ang):
    """a with log|a^b| = L (clamped so that |a| itself stays well inside the double range)."""
    la = max(-700.0, min(700.0, L / b))
    m = math.exp(la)
    if isinstance(ang, str):
        return {'+x': (m, 0.0), '-x': (-m, 0.0), '+y': (0.0, m), '-y': (0.0, -m), '-x-0': (-m, -0.0),
                '+x-0': (m, -0.0)}[ang]
    return m * math.cos(ang), m * math.sin(ang)


_B_SPECIAL = [1, -1, 2, -2, 3, -3, 4, -4, 99, -99, 100, -100, 101, -101, 127, 128, -128, 200, -200]


def _gen_ipow(r):
    if r.below(5) == 0:
        p = (r.mid(), r.mid()) if r.below(2) else (r.any(), r.any())
        return p[0], p[1], r.pick([0, 1, -1, 2, -2, 3, -3, 4, -5])
    k = r.below(4)
    b = r.rint(-200, 200) if k < 2 else (r.rint(-12, 12) if k == 2 else r.pick(_B_SPECIAL))
    re, im = _polar(_gen_logmag(r), b if b != 0 else 1, _gen_angle(r))
    return re, im, b


def _gen_rpow(r):
    if r.below(5) == 0:
        return r.mid(), r.mid(), r.pick([0.5, -0.5, 1.5, 2.5, -1.5, 1.0 / 3.0])
    k = r.below(4)
    if k == 0:
        b = r.unif(-200.0, 200.0)
    elif k == 1:
        b = r.rint(-400, 400) / 2.0
    elif k == 2:
        b = r.sign() * 10.0 ** r.unif(-6.0, 2.0) * (1.0 + r.mant() / 2.0 ** 52)
    else:
        b = r.unif(-3.0, 3.0)
    if b == 0.0:
        b = 0.5
    b = max(-200.0, min(200.0, b))
    re, im = _polar(_gen_logmag(r), b, _gen_angle(r))
    return re, im, b


def _gen_sqrt_neg(r):
    if r.below(3) < 2:
        return {'fn': 'sqrt_neg', 're': H(r.any()), 'im': None, 'mode': r.pick(['real', 'real', 'general'])}
    k = r.below(6)
    if k in (0, 1):
        p = (r.mid(), r.mid())
    elif k == 2:
        p = r.tied(r.mid)
    elif k == 3:
        p = (r.any(), r.any())
    elif k == 4:
        p = (r.any(zero=False), r.zero())
    else:
        p = (r.normal(-500, 500), r.normal(-500, 500))
    return {'fn': 'sqrt_neg', 're': H(p[0]), 'im': H(p[1]), 'mode': 'general'}


_WEIGHTS = ['csqrt'] * 3 + ['clog'] * 3 + ['cexp'] * 3 + ['hypot'] * 2 + ['cipow'] * 3 + ['cpow'] * 2 + ['sqrt_neg']


def _decode(words):
    r = _R(words)
    fn = r.pick(_WEIGHTS)
    if fn in ('csqrt', 'clog'):
        k = r.below(6)
        if k == 5:
            p = r.special_pair()
        elif k == 4 and fn == 'clog':
            p = r.circle()
        else:
            p = r.pair()
        return {'fn': fn, 're': H(p[0]), 'im': H(p[1])}
    if fn == 'cexp':
        x, y = _gen_cexp(r)
        return {'fn': 'cexp', 're': H(x), 'im': H(y)}
    if fn == 'hypot':
        p = (r.any(), r.any()) if r.below(2) else r.pair()
        return {'fn': 'hypot', 'x': H(p[0]), 'y': H(p[1])}
    if fn == 'cipow':
        re, im, b = _gen_ipow(r)
        return {'fn': 'cipow', 're': H(re), 'im': H(im), 'b': int(b)}
    if fn == 'cpow':
        re, im, b = _gen_rpow(r)
        return {'fn': 'cpow', 're': H(re), 'im': H(im), 'b': H(b)}
    return _gen_sqrt_neg(r)


def strategy(tier):
    w = st.integers(0, _M64)
    return st.tuples(w, w, w, w).map(_decode)


_LATTICE = [0.0, -0.0, 1.5, -1.5, math.inf, -math.inf, math.nan, 5e-324, -5e-324, DBL_MAX, -DBL_MAX]


def fixed_cases(tier):
    out = [{'fn': 'double_factorial', 'n': n} for n in range(256)]
    for fn in ('csqrt', 'clog'):
        for x in _LATTICE:
            for y in _LATTICE:
                out.append({'fn': fn, 're': H(x), 'im': H(y)})
    # witnesses of the known findings and of every special-cased exponent
    out += [{'fn': 'csqrt', 're': H(4.0), 'im': H(-0.0)}, {'fn': 'csqrt', 're': H(-math.inf), 'im': H(-1.0)},
            {'fn': 'csqrt', 're': H(1e308), 'im': H(1e308)}, {'fn': 'csqrt', 're': H(0.0), 'im': H(5e-324)},
            {'fn': 'csqrt', 're': H(3.0), 'im': H(4.0)}, {'fn': 'csqrt', 're': H(-3.0), 'im': H(-4.0)},
            {'fn': 'cexp', 're': H(709.9), 'im': H(0.785)}, {'fn': 'cexp', 're': H(1.0), 'im': H(math.pi)},
            {'fn': 'cexp', 're': H(-744.0), 'im': H(1.0)}, {'fn': 'cexp', 're': H(0.0), 'im': H(1e22)},
            {'fn': 'clog', 're': H(0.6), 'im': H(0.8)}, {'fn': 'clog', 're': H(1e308), 'im': H(-1e308)},
            {'fn': 'clog', 're': H(5e-324), 'im': H(-1.5e-323)},
            {'fn': 'hypot', 'x': H(3.0), 'y': H(4.0)}, {'fn': 'hypot', 'x': H(1e308), 'y': H(1e308)},
            {'fn': 'hypot', 'x': H(5e-324), 'y': H(-1e-323)}, {'fn': 'hypot', 'x': H(0.0), 'y': H(-0.0)},
            {'fn': 'cipow', 're': H(1e10), 'im': H(0.0), 'b': -31},
            {'fn': 'cpow', 're': H(-4.0), 'im': H(0.0), 'b': H(0.5)}, {'fn': 'cpow', 're': H(-4.0), 'im': H(-0.0), 'b': H(0.5)},
            {'fn': 'cpow', 're': H(0.0), 'im': H(0.0), 'b': H(2.5)},
            {'fn': 'sqrt_neg', 're': H(-4.0), 'im': None, 'mode': 'real'}, {'fn': 'sqrt_neg', 're': H(1e200), 'im': None, 'mode': 'general'},
            {'fn': 'sqrt_neg', 're': H(-4.0), 'im': H(-0.0), 'mode': 'general'}, {'fn': 'sqrt_neg', 're': H(1.0), 'im': H(1e-10), 'mode': 'general'}]
    for b in (0, 1, -1, 2, -2, 3, -3, 4, 7, -7, 99, -99, 100, -100, 200, -200):
        out.append({'fn': 'cipow', 're': H(1.0009765625), 'im': H(-0.5), 'b': b})
        out.append({'fn': 'cipow', 're': H(0.0), 'im': H(0.0), 'b': b})
    return out


def required_labels(tier):
    return ['fn:' + f for f in FNS] + [
        'csqrt:normal', 'csqrt:overflow_rescale', 'csqrt:tiny', 'clog:normal', 'clog:annulus', 'clog:huge',
        'clog:both_subnormal', 'cexp:normal', 'cexp:overflow_gap', 'cexp:scaled', 'cexp:beyond_scaled', 'cexp:partial_overflow', 'cexp:scaled:partial_im',
        'cexp:scaled:partial_re', 'cexp:im=zero', 'cexp:im=subnormal', 'cexp:im=tiny_normal', 'cexp:im=ordinary', 'cexp:im=huge',
        'cexp:huge_angle', 'cexp:subnormal_result', 'pow:modulus_overflows', 'pow:partial_overflow',
        'hypot:subnormal_result', 'pow:mul', 'pow:explog', 'pow:real_exponent', 'pow:inverse_of_overflowing_power',
        'pow:branch_cut', 'annexg:finite_zero_imag', 'annexg:inf_or_nan', 'sqrt_neg:real', 'sqrt_neg:general',
        'dfact:table', 'dfact:recursion', 'dfact:raises']


def in_domain(case):
    try:
        fn = case['fn']
        if fn not in FNS:
            return False
        if fn == 'double_factorial':
            return isinstance(case['n'], int) and 0 <= case['n'] <= 255
        if fn == 'hypot':
            return math.isfinite(F(case['x'])) and math.isfinite(F(case['y']))
        re = F(case['re'])
        if fn == 'sqrt_neg':
            if case['mode'] not in ('real', 'general') or not math.isfinite(re):
                return False
            if case['im'] is None:
                return True
            return case['mode'] == 'general' and math.isfinite(F(case['im']))
        im = F(case['im'])
        if fn in ('csqrt', 'clog'):
            return True
        if not (math.isfinite(re) and math.isfinite(im)):
            return False
        if fn == 'cipow':
            return isinstance(case['b'], int) and -200 <= case['b'] <= 200
        if fn == 'cpow':
            b = F(case['b'])
            return math.isfinite(b) and abs(b) <= 200.0
        return True
    except Exception:
        return False


def _simpler_floats(x):
    if not math.isfinite(x) or x == 0:
        return []
    m, e = math.frexp(x)
    out = [math.copysign(1.0, x), math.ldexp(math.copysign(0.5, x), e), math.ldexp(round(m * 16) / 16.0, e),
           math.ldexp(round(m * 2 ** 20) / 2.0 ** 20, e), math.ldexp(m, e // 2), float('%.3g' % x)]
    return [v for v in out if v != x and math.isfinite(v)]


def shrink_hints(case):
    out = []
    for k in ('re', 'im', 'x', 'y', 'b'):
        v = case.get(k)
        if isinstance(v, str):
            for s in _simpler_floats(F(v)):
                c = dict(case)
                c[k] = H(s)
                out.append(c)
    return out


# ---------------------------------------------------------------------------------------------------------
# evaluation
# ---------------------------------------------------------------------------------------------------------

def _pow2(x):
    return x == 0 or not math.isfinite(x) or math.frexp(x)[0] in (0.5, -0.5)


def _nontrivial(*xs):
    return all(math.isfinite(x) and x != 0 for x in xs) and not all(_pow2(x) for x in xs)


def _comp_symptom(got, want):
    if O.matches_special(got, want):
        return 'ok'
    if not isinstance(want, str) and math.isfinite(want) and want != 0 and math.isfinite(got) and got != 0:
        return 'x%.3g' % (got / want)
    return O._cls(got)


def _generic_symptom(got):
    parts = (got.real, got.imag) if isinstance(got, complex) else (got,)
    if any(math.isnan(p) for p in parts):
        return 'nan'
    if any(math.isinf(p) for p in parts):
        return 'inf'
    return 'inaccurate'


def _fmt1(v):
    if v != 0 and not (O.mpf(10) ** -400 < abs(v) < O.mpf(10) ** 400):
        m, e = O.mpmath.frexp(v)
        return '%s*2^(%d)' % (O.mpmath.nstr(m, 17), e)
    return O.mpmath.nstr(v, 20)


def _fmt(exact):
    if isinstance(exact, O.mpc):
        return '(%s, %s)' % (_fmt1(exact.real), _fmt1(exact.imag))
    return _fmt1(exact)


def _fmt_old(exact):
    if isinstance(exact, O.mpc):
        return '(%s, %s)' % (O.mpmath.nstr(exact.real, 20), O.mpmath.nstr(exact.imag, 20))
    return O.mpmath.nstr(exact, 20)


def _ulp_clauses(c, fn, region, args_txt, got, exact, tol, comp=True, re_abs_floor=0.0, symptom=None):
    """normwise (+ per component) clauses; `symptom(got, exact, err)` may name a recognisable failure shape."""
    en, er, ei = O.err_ulps(got, exact)
    bad = not (en <= tol)
    comp_bad = None
    if comp and not bad:
        if not (er <= tol) and not (abs(O.M(got.real) - exact.real) <= re_abs_floor):
            comp_bad = 're'
        elif not (ei <= tol):
            comp_bad = 'im'
    if bad or comp_bad:
        sym = None
        if symptom is not None:
            sym = symptom(got, exact, en)
        if sym is None:
            sym = _generic_symptom(got)
        sig = {'fn': fn, 'clause': 'ulp', 'region': region, 'symptom': sym, 'where': '%s -> %s' % (region, sym)}
        if comp_bad and not bad:
            sig['component'] = comp_bad
        c.fail(sig, '%s(%s) = %r; exact %s; error %.3g ulp normwise (re %.3g, im %.3g), tolerance %.3g ulp'
               % (fn, args_txt, got, _fmt(exact), en, er, ei, tol))
    return en


def _eval_sqrt_log(case):
    tc, _, _ = _mods()
    fn = case['fn']
    re, im = F(case['re']), F(case['im'])
    c = Collector(labels=['fn:' + fn], nontrivial=_nontrivial(re, im))
    with repo_call(fn):
        got = getattr(tc, fn)(complex(re, im))
    finite = math.isfinite(re) and math.isfinite(im)
    mx = max(abs(re), abs(im)) if finite else math.inf
    if fn == 'csqrt':
        region = 'overflow_rescale' if (finite and mx >= CSQRT_THRESH) else ('tiny' if 0 < mx < CSQRT_TINY else 'normal')
        want = O.annexg_csqrt(re, im)
    else:
        if finite and mx > 0.25 * DBL_MAX:
            region = 'huge'
        elif finite and mx < DBL_MIN and mx > 0:
            region = 'both_subnormal'
        elif finite and 0.70 <= math.hypot(re, im) <= 1.75:
            region = 'annulus'
        else:
            region = 'normal'
        want = O.annexg_clog(re, im)
    args_txt = '(%r, %r)' % (re, im)
    if want is not None:
        c.label('annexg:finite_zero_imag' if finite else 'annexg:inf_or_nan', 'class:' + O.classify(re, im))
        sr, si = _comp_symptom(got.real, want[0]), _comp_symptom(got.imag, want[1])
        if finite and mx > 0:
            c.label('%s:%s' % (fn, region))
        if sr != 'ok' or si != 'ok':
            where = 'arg=(%s)' % O.classify(re, im)
            if finite and region in ('overflow_rescale', 'tiny', 'huge', 'both_subnormal') and mx > 0:
                where += '&' + region
            c.fail({'fn': fn, 'clause': 'annexg', 'region': where, 'symptom': 're:%s,im:%s' % (sr, si),
                    'where': '%s -> re:%s,im:%s' % (where, sr, si)},
                   '%s(%s) = %r; C99 Annex G requires (%r, %r)' % (fn, args_txt, got, want[0], want[1]))
        return c.result()
    c.label('%s:%s' % (fn, region))
    exact = O.csqrt(re, im) if fn == 'csqrt' else O.clog(re, im)
    if fn == 'csqrt':
        def symptom(g, ex, en):
            if not (math.isfinite(g.real) and math.isfinite(g.imag)):
                if re == 0 and abs(im) == 5e-324:
                    return 'inf_at_min_subnormal_imag'
                return None
            if region == 'overflow_rescale':
                e2 = O.err_ulps(complex(g.real, 2.0 * g.imag), ex)
                if max(e2) <= TOL:
                    return 'imag_x0.5_real_ok'
            if region == 'tiny' and en <= TOL + 4.0 * 2.0 ** -1022 / mx:
                return 'lost_bits_bounded'
            return None
        _ulp_clauses(c, fn, region, args_txt, got, exact, TOL, symptom=symptom)
    else:
        floor = CLOG_ANNULUS_ABS if region == 'annulus' else 0.0
        _ulp_clauses(c, fn, region, args_txt, got, exact, TOL_CLOG, re_abs_floor=floor)
    return c.result()


def _component_clause(c, fn, region, args_txt, got, exact, comp, tol, unit=None, symptom=None):
    """One component of a complex result whose *other* component is not representable: it must still be right.
    `unit` = the ulp the tolerance is counted in (default: the ulp of that component)."""
    g = got.real if comp == 're' else got.imag
    e = exact.real if comp == 're' else exact.imag
    if math.isfinite(g):
        err = float(abs(O.M(g) - e) / (unit if unit is not None else O.ulp(e)))
    else:
        err = math.inf
    if err <= tol:
        return
    sym = symptom(got, exact, err, (comp,)) if symptom is not None else None
    if sym is None:
        sym = 'nan' if math.isnan(g) else ('inf' if math.isinf(g) else 'inaccurate')
    c.fail({'fn': fn, 'clause': 'ulp', 'region': region, 'symptom': sym, 'where': '%s -> %s' % (region, sym), 'component': comp,
            'other_component': 'overflows'},
           '%s(%s) = %r; exact %s: the %s part is representable although the other one overflows, and is off by %.3g ulp '
           '(tolerance %.3g)' % (fn, args_txt, got, _fmt(exact), 'real' if comp == 're' else 'imaginary', err, tol))


def _eval_cexp(case):
    tc, _, _ = _mods()
    x, y = F(case['re']), F(case['im'])
    exact = O.cexp(x, y)
    rep_re, rep_im = abs(exact.real) <= O.DBL_MAX, abs(exact.imag) <= O.DBL_MAX
    if not (rep_re or rep_im):
        return discard('result_not_representable', labels=['fn:cexp'])
    c = Collector(labels=['fn:cexp'], nontrivial=_nontrivial(x, y))
    if x <= LOG_DBL_MAX:
        region = 'normal'
    elif x < SCALED_CEXP_LOWER:
        region = 'overflow_gap'
    elif x <= SCALED_CEXP_UPPER:
        region = 'scaled'
    else:
        region = 'beyond_scaled'
    c.label('cexp:' + region)
    ay = abs(y)
    c.label('cexp:im=' + ('zero' if ay == 0 else 'subnormal' if ay < DBL_MIN else 'tiny_normal' if ay < 2.0 ** -1000
                          else 'huge' if ay > 1e6 else 'ordinary'))
    if ay > 1e6:
        c.label('cexp:huge_angle')
    if abs(exact) < O.DBL_MIN:
        c.label('cexp:subnormal_result')
    with repo_call('cexp'):
        got = tc.cexp(complex(x, y))

    def symptom(g, ex, en, comps=('re', 'im')):
        if region == 'overflow_gap' and math.isinf(g.real) and math.isinf(g.imag) \
                and (g.real > 0) == (ex.real > 0) and (g.imag > 0) == (ex.imag > 0):
            return 'inf_both_right_signs'
        if region in ('overflow_gap', 'beyond_scaled') and y == 0 and math.isnan(g.imag) and g.real == math.inf:
            return 'inf_times_zero_imag_nan'
        return None
    if rep_re and rep_im:
        _ulp_clauses(c, 'cexp', region, '(%r, %r)' % (x, y), got, exact, TOL, symptom=symptom)
    else:
        # one part overflows, the other is an ordinary double: it is judged on its own
        comp = 're' if rep_re else 'im'
        c.label('cexp:partial_overflow', 'cexp:%s:partial_%s' % (region, comp))
        c.nontrivial = c.nontrivial or (x != 0 and y != 0)
        _component_clause(c, 'cexp', region, '(%r, %r)' % (x, y), got, exact, comp, TOL, symptom=symptom)
    return c.result()


def _eval_hypot(case):
    tc, _, _ = _mods()
    x, y = F(case['x']), F(case['y'])
    exact = O.hypot(x, y)
    if not O.representable(exact):
        return discard('result_not_representable', labels=['fn:hypot'])
    c = Collector(labels=['fn:hypot'], nontrivial=_nontrivial(x, y))
    if exact < O.DBL_MIN:
        c.label('hypot:subnormal_result')
    with repo_call('hypot'):
        got = tc.hypot(x, y)
    _ulp_clauses(c, 'hypot', 'normal', '%r, %r' % (x, y), got, exact, TOL, comp=False)
    return c.result()


def _eval_pow(case):
    tc, _, _ = _mods()
    re, im = F(case['re']), F(case['im'])
    integer = case['fn'] == 'cipow'
    b = int(case['b']) if integer else F(case['b'])
    a_zero = (re == 0 and im == 0)
    if a_zero and b < 0:
        return discard('result_not_representable', labels=['fn:' + case['fn']])
    if not integer and b == int(b) and abs(b) <= 200:
        integer, b = True, int(b)          # integral float exponent: judged by the integer rules through cpow only
        apis = [('cpow', lambda: tc.cpow(complex(re, im), complex(float(b), 0.0)))]
    elif integer:
        apis = [('cipow', lambda: tc.cipow(complex(re, im), b)),
                ('cpow', lambda: tc.cpow(complex(re, im), complex(float(b), 0.0)))]
    else:
        apis = [('cpow', lambda: tc.cpow(complex(re, im), complex(b, 0.0)))]
    exact = O.cpow_int(re, im, b) if integer else O.cpow_real(re, im, b)
    rep_re, rep_im = abs(exact.real) <= O.DBL_MAX, abs(exact.imag) <= O.DBL_MAX
    if not (rep_re or rep_im):
        return discard('result_not_representable', labels=['fn:' + case['fn']])
    c = Collector(labels=['fn:' + case['fn']], nontrivial=_nontrivial(re, im) and b not in (0, 1))
    # one bound for every exponent, independent of where the implementation switches from repeated multiplication to
    # exp(b Log a): max(4 (1+|b|), 8 (1+kappa)), kappa = |b| (1 + |Log a|) - a textbook exp-log power passes for any b.
    kappa = 0.0 if a_zero else abs(b) * (1.0 + float(abs(O.clog(re, im))))
    tol = max(TOL_POW_MUL * (1.0 + abs(b)), TOL_POW_EXPLOG * (1.0 + kappa))
    path = 'mul' if (integer and abs(b) < 100) else 'explog'      # coverage label only (where /repo switches today)
    region = 'integer_exponent' if integer else 'real_exponent'
    c.label('pow:' + path)
    if not integer:
        c.label('pow:real_exponent')
        if im == 0 and re < 0:
            c.label('pow:branch_cut')
    if integer and b < 0 and not a_zero and not O.representable(O.cpow_int(re, im, -b)):
        region = 'inverse_of_overflowing_power'
        c.label('pow:inverse_of_overflowing_power')
    if abs(exact) < O.DBL_MIN:
        c.label('pow:subnormal_result')
    if abs(exact) > O.DBL_MAX:
        # the modulus of the exact result is beyond DBL_MAX; one or (up to sqrt 2 DBL_MAX) both parts are still doubles
        region = 'modulus_overflows'
        c.label('pow:modulus_overflows')
    p_abs = None
    if integer and b < 0 and not a_zero:
        p_abs = abs(O.cpow_int(re, im, -b))
        if 0 < p_abs < O.DBL_MIN and abs(exact) > O.DBL_MAX:
            # 1/a^|b| with a^|b| subnormal: the intermediate power has lost bits before it is inverted
            region = 'inverse_of_underflowing_power'
            c.label('pow:inverse_of_underflowing_power')
    unit = O.ulp(abs(exact))

    def symptom(g, ex, en, comps=('re', 'im')):
        if region == 'inverse_of_overflowing_power' and g.real == 0 and g.imag == 0:
            return 'flushed_to_zero'
        if region == 'inverse_of_underflowing_power':
            # a^|b| carries an absolute error of a few 2^-1074 per multiplication: relative |b| 2^-1074 / |a^|b||
            bound = tol + 8.0 * abs(b) * float(O.TINY / p_abs) * 2.0 ** 52
            ok = True
            for cp in comps:
                gv, ev = (g.real, ex.real) if cp == 're' else (g.imag, ex.imag)
                ok = ok and ((not math.isfinite(gv)) or abs(O.M(gv) - ev) <= bound * unit)
            return 'lost_bits_bounded_or_nonfinite' if ok else None
        if region == 'modulus_overflows':
            # every judged part is either accurate or non-finite (intermediate overflow: inf, inf*0, inf-inf)
            for cp in comps:
                gv, ev = (g.real, ex.real) if cp == 're' else (g.imag, ex.imag)
                if math.isfinite(gv) and not (abs(O.M(gv) - ev) <= tol * unit):
                    return None
            return 'representable_part_nonfinite'
        return None
    if not (rep_re and rep_im):
        c.label('pow:partial_overflow')
    for name, call in apis:
        with repo_call(name):
            got = call()
        if rep_re and rep_im:
            _ulp_clauses(c, name, region, '(%r, %r), %r' % (re, im, b), got, exact, tol, comp=False, symptom=symptom)
        else:
            # one part overflows: the other one is judged on its own, within the same normwise budget
            _component_clause(c, name, region, '(%r, %r), %r' % (re, im, b), got, exact, 're' if rep_re else 'im', tol,
                              unit=unit, symptom=symptom)
    return c.result()


def _eval_sqrt_neg(case):
    tc, _, sqrt_neg = _mods()
    mode = case['mode']
    re = F(case['re'])
    im = None if case['im'] is None else F(case['im'])
    c = Collector(labels=['fn:sqrt_neg', 'sqrt_neg:' + mode], nontrivial=_nontrivial(re) if im is None else _nontrivial(re, im))
    arg = re if im is None else complex(re, im)
    with repo_call('sqrt_neg'):
        got = complex(sqrt_neg(arg, mode == 'real'))
    zi = 0.0 if im is None else im
    with repo_call('csqrt'):
        twin = tc.csqrt(complex(re, zi))
    exact = O.csqrt(re, zi)
    mx = max(abs(re), abs(zi))
    e_twin = max(O.err_ulps(twin, exact)[:1])
    twin_ok = e_twin <= TOL
    # agreement is judged against the compiled value, in ulp of the exact magnitude
    if math.isfinite(got.real) and math.isfinite(got.imag) and math.isfinite(twin.real) and math.isfinite(twin.imag):
        d = abs(O.mpc(O.M(got.real), O.M(got.imag)) - O.mpc(O.M(twin.real), O.M(twin.imag)))
        agree = float(d / O.ulp(abs(exact))) if exact != 0 else (0.0 if d == 0 else math.inf)
    else:
        agree = 0.0 if (got == twin) else math.inf
    if agree <= TOL_AGREE:
        return c.result()
    e_self = O.err_ulps(got, exact)[0]
    # name the region / symptom: first the case "sqrt_neg is right, the compiled side is wrong" (csqrt's regions) ...
    if not twin_ok and e_self <= TOL:
        if mx >= CSQRT_THRESH:
            region = 'overflow_rescale'
            sym = ('compiled_side_imag_x0.5' if max(O.err_ulps(complex(twin.real, 2.0 * twin.imag), exact)) <= TOL
                   else 'compiled_side_wrong')
        elif 0 < mx < CSQRT_TINY:
            region = 'tiny'
            sym = ('compiled_side_lost_bits' if e_twin <= TOL + 4.0 * 2.0 ** -1022 / mx else
                   ('compiled_side_inf_at_min_subnormal_imag' if re == 0 and abs(zi) == 5e-324 else 'compiled_side_wrong'))
        else:
            region = 'normal'
            sym = 'compiled_side_wrong'
    else:
        # ... then the regions of the interpreted formula (only the ones where it was actually seen to fail)
        lo, hi = min(abs(re), abs(zi)), max(abs(re), abs(zi))
        if mode == 'general' and mx >= 2.0 ** 511:
            region = 'square_overflow'              # re^2 + im^2 overflows
        elif mode == 'general' and 0 < mx < 2.0 ** -510:
            region = 'square_underflow'             # re^2 + im^2 is subnormal or zero
        elif mode == 'general' and im is not None and im == 0 and math.copysign(1.0, im) < 0 and re < 0:
            region = 'negative_real_negzero_imag'
        elif mode == 'general' and im is not None and 0 < abs(im) < 0.25 * abs(re):
            region = 'near_real_axis'               # sqrt((quad - |re|)/2) cancels
        elif mode == 'general' and im is not None and im != 0:
            region = 'complex_offaxis'
        else:
            region = 'normal'
        if math.isnan(got.real) or math.isnan(got.imag):
            sym = 'nan'
        elif region == 'negative_real_negzero_imag' and got == twin.conjugate():
            sym = 'upper_side_of_cut'
        elif region == 'near_real_axis' and e_self <= 8.0 * (1.0 + hi / lo):
            sym = 'cancellation_bounded'            # relative error of the small component ~ eps (re/im)^2
        elif region == 'square_underflow' and e_self <= 8.0 * (1.0 + 2.0 ** -485 / mx):
            sym = 'lost_bits_bounded'               # quad carries the 2^-1075 absolute rounding of the squares
        else:
            sym = _generic_symptom(got)
    c.fail({'fn': 'sqrt_neg', 'clause': 'agree', 'region': region, 'mode': mode, 'symptom': sym,
            'where': '%s -> %s' % (region, sym)},
           'sqrt_neg(%r, is_real=%r) = %r but csqrt = %r (exact %s): %.3g ulp apart; sqrt_neg is %.3g ulp, csqrt %.3g ulp from exact'
           % (arg, mode == 'real', got, twin, _fmt(exact), agree, e_self, e_twin))
    return c.result()


def _eval_dfact(case):
    _, sx, _ = _mods()
    n = int(case['n'])
    c = Collector(labels=['fn:double_factorial'], nontrivial=2 <= n <= 170)
    if n >= 171:
        c.label('dfact:raises')
        # outside the accepted arguments the statement only implies "not accepted": any exception will do
        try:
            r = sx.double_factorial(n)
        except Exception:  # noqa
            return c.result()
        c.fail({'fn': 'double_factorial', 'clause': 'raises', 'symptom': 'returned'},
               'n=%d (n!! > DBL_MAX) returned %r instead of raising' % (n, r))
        return c.result()
    c.label('dfact:table' if n <= 50 else 'dfact:recursion')
    with repo_call('double_factorial'):
        got = float(sx.double_factorial(n))
    exact = O.double_factorial(n)
    want = float(exact)            # int -> float conversion is correctly rounded (round-half-even)
    if got != want:
        c.fail({'fn': 'double_factorial', 'clause': 'exact', 'n_got': '%d:%s' % (n, got.hex())},
               'double_factorial(%d) = %r (%s); exact %d rounds to %r (%s): %.1f ulp'
               % (n, got, got.hex(), exact, want, want.hex(), (got - want) / math.ulp(want)))
    return c.result()


def evaluate(case):
    fn = case['fn']
    if fn in ('csqrt', 'clog'):
        return _eval_sqrt_log(case)
    if fn == 'cexp':
        return _eval_cexp(case)
    if fn == 'hypot':
        return _eval_hypot(case)
    if fn in ('cipow', 'cpow'):
        return _eval_pow(case)
    if fn == 'sqrt_neg':
        return _eval_sqrt_neg(case)
    if fn == 'double_factorial':
        return _eval_dfact(case)
    raise ValueError('unknown fn %r' % fn)


def extra_coverage(tier, merged):
    return {'exhaustive': False,
            'exhaustive_subspaces': ['double_factorial n in 0..255 (unsigned char: every accepted argument)',
                                     'csqrt/clog on {+-0,+-1.5,+-inf,NaN,+-5e-324,+-DBL_MAX}^2']}
