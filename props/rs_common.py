"""Shared harness for the radial-solver properties (C01-C06, C12).

A *planet spec* is a JSON dict:
  {'R': m, 'r0_frac': r0/R, 'layers': [{'type': 'solid'|'liquid', 'static': bool, 'incomp': bool,
        'top_frac': r_top/R, 'rho': kg/m3, 'mu': [re, im], 'K': Pa, 'n': slices}, ...]}
Layers are uniform (piecewise-constant profile); gravity is computed analytically by the harness
(independent of the repository helper).  Slices: first layer linspace(r0, top, n), later layers
linspace(prev_top, top, n+1)[1:] (the convention of the repository's own tests: the slice at an
interface radius belongs to the lower layer).
"""
import math

import numpy as np

G = 6.67430e-11


def build_arrays(spec):
    R = float(spec['R'])
    layers = spec['layers']
    r_parts, rho_parts, mu_parts, K_parts = [], [], [], []
    prev = float(spec['r0_frac']) * R
    tops = []
    for i, L in enumerate(layers):
        top = float(L['top_frac']) * R if i < len(layers) - 1 else R
        n = int(L['n'])
        if 'r_fracs' in L:
            r = np.asarray(L['r_fracs'], dtype=float) * R       # explicit slices (fractions of R), last one = top
        elif i == 0:
            r = np.linspace(prev, top, n)
        elif float(spec.get('iface_eps', 0.0)) > 0.0:
            # the interface is sampled on both sides: the upper layer's first slice sits a relative eps above it
            r = np.linspace(prev * (1.0 + float(spec['iface_eps'])), top, n)
        else:
            r = np.linspace(prev, top, n + 1)[1:]
        r_parts.append(r)
        rho_parts.append(np.full(r.size, float(L['rho'])))
        mu = complex(L['mu'][0], L['mu'][1]) if L['type'] == 'solid' else 0j
        mu_parts.append(np.full(r.size, mu, dtype=np.complex128))
        K_parts.append(np.full(r.size, float(L['K'])))
        tops.append(top)
        prev = top
    radius = np.ascontiguousarray(np.concatenate(r_parts))
    density = np.ascontiguousarray(np.concatenate(rho_parts))
    shear = np.ascontiguousarray(np.concatenate(mu_parts))
    bulk = np.ascontiguousarray(np.concatenate(K_parts))
    # analytic enclosed mass for piecewise-constant density (sphere of the first layer's density below r0)
    mass = np.empty_like(radius)
    m_acc = 0.0
    r_prev = 0.0
    k = 0
    for i, r in enumerate(r_parts):
        rho = float(layers[i]['rho'])
        for x in r:
            mass[k] = m_acc + 4.0 / 3.0 * math.pi * rho * (x ** 3 - r_prev ** 3)
            k += 1
        m_acc = m_acc + 4.0 / 3.0 * math.pi * rho * (tops[i] ** 3 - r_prev ** 3)
        r_prev = tops[i]
    gravity = np.ascontiguousarray(G * mass / radius ** 2)
    bulk_density = mass[-1] / (4.0 / 3.0 * math.pi * R ** 3)
    return {'radius': radius, 'density': density, 'gravity': gravity, 'bulk': bulk, 'shear': shear,
            'tops': tuple(float(t) for t in tops), 'bulk_density': float(bulk_density),
            'layer_types': tuple(L['type'] for L in layers),
            'is_static': tuple(bool(L['static']) for L in layers),
            'is_incomp': tuple(bool(L['incomp']) for L in layers),
            'starts': np.cumsum([0] + [p.size for p in r_parts])[:-1].tolist(),
            'counts': [p.size for p in r_parts]}


def solve(spec, arrays=None, **over):
    """Call radial_solver for a spec; returns (solution, arrays).  Options in spec['opts'] / over."""
    from TidalPy.RadialSolver import radial_solver
    a = arrays if arrays is not None else build_arrays(spec)
    o = dict(spec.get('opts', {}))
    o.update(over)
    solve_for = o.get('solve_for', ('tidal',))
    if solve_for is not None:
        solve_for = tuple(solve_for)
    sol = radial_solver(
        a['radius'], a['density'], a['gravity'], a['bulk'], a['shear'],
        float(spec['frequency']), a['bulk_density'],
        a['layer_types'], a['is_static'], a['is_incomp'], a['tops'],
        degree_l=int(spec.get('l', 2)), solve_for=solve_for,
        use_kamata=bool(o.get('use_kamata', True)),
        integration_method=str(o.get('method', 'DOP853')),
        integration_rtol=float(o.get('rtol', 1e-9)), integration_atol=float(o.get('atol', 1e-13)),
        scale_rtols_by_layer_type=bool(o.get('scale_rtols', False)),
        max_num_steps=int(o.get('max_num_steps', 200000)), expected_size=int(o.get('expected_size', 500)),
        max_ram_MB=int(o.get('max_ram_MB', 500)), max_step=float(o.get('max_step', 0.0)),
        limit_solution_to_radius=True, nondimensionalize=bool(o.get('nondim', True)),
        verbose=False, warnings=False, raise_on_fail=bool(o.get('raise_on_fail', False)))
    return sol, a


def homogeneous_spec(R, rho, mu, K, l, frequency, n=60, r0_frac=0.01, static=True, incomp=False, **opts):
    return {'R': R, 'r0_frac': r0_frac, 'l': l, 'frequency': frequency,
            'layers': [{'type': 'solid', 'static': static, 'incomp': incomp, 'top_frac': 1.0, 'rho': rho,
                        'mu': [mu.real, mu.imag], 'K': K, 'n': n}],
            'opts': opts}


def closed_form_love(l, mu, rho, R):
    g = 4.0 / 3.0 * math.pi * G * rho * R
    m = (2.0 * l * l + 4.0 * l + 3.0) / l * mu / (rho * g * R)
    k = 1.5 / (l - 1.0) / (1.0 + m)
    return k, (2.0 * l + 1.0) / 3.0 * k, k / l, m, g


# ---- generated layer stacks (C02, C03, C05, C06) -----------------------------------------------------

KINDS = [(t, s, i) for t in ('solid', 'liquid') for s in (True, False) for i in (True, False)]
# bottom-layer kinds that have an implemented starting family: kind -> families
BOTTOM_FAMILIES = {
    ('solid', True, False): ('kamata', 'takeuchi'), ('solid', False, False): ('kamata', 'takeuchi'),
    ('solid', False, True): ('kamata',),
    ('liquid', True, True): ('kamata', 'takeuchi'), ('liquid', True, False): ('kamata', 'takeuchi'),
    ('liquid', False, True): ('kamata',), ('liquid', False, False): ('kamata', 'takeuchi'),
}


def kind_name(k):
    return '%s%s%s' % ('S' if k[0] == 'solid' else 'L', 's' if k[1] else 'd', 'i' if k[2] else 'c')


def stack_strategy(min_layers=1, max_layers=5, surface='no_dynamic_liquid', liquids=True, max_l=6,
                   freq_log=(-6.0, -3.0), solve_for_max=5, n_range=(5, 40)):
    """Hypothesis strategy for a layered-planet case (JSON dict); see spec_from_case()."""
    from hypothesis import strategies as st
    kinds = [list(k) for k in KINDS if liquids or k[0] == 'solid']
    bottoms = [list(k) for k in BOTTOM_FAMILIES if liquids or k[0] == 'solid']
    if surface == 'no_dynamic_liquid':
        tops = [k for k in kinds if not (k[0] == 'liquid' and not k[1])]
    elif surface == 'solid':
        tops = [k for k in kinds if k[0] == 'solid']
    else:
        tops = kinds

    def layers(n):
        if n == 1:
            both = [k for k in bottoms if k in tops]
            return st.tuples(st.sampled_from(both)).map(list)
        mids = [st.sampled_from(kinds)] * (n - 2)
        return st.tuples(st.sampled_from(bottoms), *mids, st.sampled_from(tops)).map(list)

    def rest(ks):
        n = len(ks)
        return st.fixed_dictionaries({
            'kinds': st.just(ks),
            'weights': st.lists(st.floats(0.5, 2.0), min_size=n, max_size=n),
            'logrho_top': st.floats(2.9, 3.6),
            'rho_ratios': st.lists(st.floats(1.0, 2.0), min_size=n, max_size=n),
            'logmu': st.lists(st.floats(9.0, 11.5), min_size=n, max_size=n),
            'argmu': st.lists(st.floats(0.0, 1.0), min_size=n, max_size=n),
            'logK': st.lists(st.floats(10.3, 12.0), min_size=n, max_size=n),
            'n': st.lists(st.integers(*n_range), min_size=n, max_size=n),
            'logR': st.floats(5.5, 7.5), 'logr0': st.floats(-3.0, -1.3), 'l': st.integers(2, max_l),
            'logfreq': st.floats(*freq_log),
            'family': st.sampled_from(['kamata', 'takeuchi']),
            'solve_for': st.lists(st.sampled_from(['tidal', 'loading', 'free']), min_size=1, max_size=solve_for_max),
            'nondim': st.booleans(), 'method': st.sampled_from(['RK45', 'DOP853', 'RK23']),
            'logrtol': st.floats(-9.0, -6.0),
        })
    return st.integers(min_layers, max_layers).flatmap(layers).flatmap(rest)


def spec_from_case(case):
    """Planet spec + solver options from a stack case."""
    ks = [tuple(k) for k in case['kinds']]
    n = len(ks)
    R = 10.0 ** case['logR']
    r0 = 10.0 ** case['logr0']
    w = np.asarray(case['weights'][:n], dtype=float)
    tops = r0 + (1.0 - r0) * np.cumsum(w) / np.sum(w)
    rho = [10.0 ** case['logrho_top']]
    for i in range(n - 1, 0, -1):
        rho.append(rho[-1] * float(case['rho_ratios'][i]))
    rho = rho[::-1]
    layers = []
    for i, k in enumerate(ks):
        mu = 10.0 ** case['logmu'][i]
        a = case['argmu'][i]
        layers.append({'type': k[0], 'static': bool(k[1]), 'incomp': bool(k[2]), 'top_frac': float(tops[i]),
                       'rho': rho[i], 'mu': [mu * math.cos(a), mu * math.sin(a)], 'K': 10.0 ** case['logK'][i],
                       'n': max(int(case['n'][i]), 5)})
    fams = BOTTOM_FAMILIES.get(ks[0], ('kamata',))
    fam = case['family'] if case['family'] in fams else fams[0]
    rtol = 10.0 ** case['logrtol']
    if case['method'] == 'RK23':
        rtol = max(rtol, 1e-7)
    return {'R': R, 'r0_frac': r0, 'l': int(case['l']), 'frequency': 10.0 ** case['logfreq'], 'layers': layers,
            'iface_eps': float(case.get('iface_eps', 0.0) or 0.0),
            'opts': {'use_kamata': fam == 'kamata', 'method': case['method'], 'rtol': rtol, 'atol': rtol * 1e-4,
                     'nondim': bool(case['nondim']), 'solve_for': list(case['solve_for'])}}


def stack_in_domain(case, max_layers=5):
    try:
        n = len(case['kinds'])
        if not 1 <= n <= max_layers:
            return False
        for key in ('weights', 'rho_ratios', 'logmu', 'argmu', 'logK', 'n'):
            if len(case[key]) != n:
                return False
        if tuple(case['kinds'][0]) not in BOTTOM_FAMILIES:
            return False
        top = case['kinds'][-1]
        if top[0] == 'liquid' and not top[1]:
            return False
        ok = all(0.5 <= x <= 2 for x in case['weights']) and all(1 <= x <= 2 for x in case['rho_ratios']) \
            and all(9 <= x <= 11.5 for x in case['logmu']) and all(0 <= x <= 1 for x in case['argmu']) \
            and all(10.3 <= x <= 12 for x in case['logK']) and all(5 <= x <= 40 for x in case['n']) \
            and 5.5 <= case['logR'] <= 7.5 and -3 <= case['logr0'] <= -1.3 and 2 <= case['l'] <= 6 \
            and -6 <= case['logfreq'] <= -3 and 1 <= len(case['solve_for']) <= 5 and -9 <= case['logrtol'] <= -6 \
            and all(s in ('tidal', 'loading', 'free') for s in case['solve_for'])
        return bool(ok)
    except Exception:
        return False
