"""Worker process for C06: executes radial_solver calls described by JSON lines on stdin and reports what happened.

Protocol (one JSON object per line): parent sends {"id": n, "case": {...}}; worker answers {"id": n, ...report}.
If the worker dies (signal) the parent sees EOF and knows which id was being executed.
"""
import json
import os
import sys

sys.path.insert(0, os.path.dirname(os.path.dirname(os.path.abspath(__file__))))
from vlib import env  # noqa: E402

# keep the protocol pipe: env.setup() redirects fd 0 to /dev/null, so duplicate it first
_in = os.fdopen(os.dup(0), 'r')
env.setup()

import numpy as np  # noqa: E402

from props import rs_common as rc  # noqa: E402


def ulp_dev(orig, now):
    """max deviation in units of 2^-52 relative (NaNs must stay NaNs positionally)."""
    a = np.asarray(orig)
    b = np.asarray(now)
    if a.shape != b.shape or a.dtype != b.dtype:
        return float('inf')
    if np.iscomplexobj(a):
        # complex elements are compared norm-wise (|dz| in ulps of |z|): a component that is 300 orders of magnitude
        # below the other one becomes subnormal under the solver's internal scaling and cannot be restored exactly,
        # while the complex number as a whole is restored to the last bit
        na, nb = np.isnan(a.real) | np.isnan(a.imag), np.isnan(b.real) | np.isnan(b.imag)
        if not np.array_equal(na, nb):
            return float('inf')
        m = ~na
        if not np.any(m):
            return 0.0
        x, y = a[m], b[m]
        with np.errstate(invalid='ignore', divide='ignore', over='ignore'):
            mag = np.maximum(np.abs(x), np.abs(y))
            d = np.abs(x - y)
            same = (x.real == y.real) & (x.imag == y.imag)
            r = np.where(same, 0.0, d / np.where(mag > 0, mag * 2.0 ** -52, 1.0))
        r = np.where(np.isfinite(r), r, np.inf)
        return float(np.max(r))
    na, nb = np.isnan(a), np.isnan(b)
    if not np.array_equal(na, nb):
        return float('inf')
    m = ~na
    if not np.any(m):
        return 0.0
    x, y = a[m].astype(float), b[m].astype(float)
    same = x == y
    if np.all(same):
        return 0.0
    den = np.maximum(np.abs(x), np.abs(y)) * 2.0 ** -52
    with np.errstate(invalid='ignore', divide='ignore'):
        d = np.where(same, 0.0, np.abs(x - y) / np.where(den > 0, den, 1.0))
    d = np.where(np.isfinite(d), d, np.inf)
    return float(np.max(d))


def build_call(case):
    """Valid arguments from the stack case, then the malformation `mut` applied."""
    spec = rc.spec_from_case(case['base'])
    A = rc.build_arrays(spec)
    o = spec['opts']
    args = {
        'radius': A['radius'], 'density': A['density'], 'gravity': A['gravity'], 'bulk': A['bulk'], 'shear': A['shear'],
        'frequency': float(spec['frequency']), 'bulk_density': A['bulk_density'],
        'layer_types': A['layer_types'], 'is_static': A['is_static'], 'is_incomp': A['is_incomp'], 'tops': A['tops'],
    }
    kw = dict(degree_l=int(spec['l']), solve_for=tuple(o['solve_for']), use_kamata=bool(o['use_kamata']),
              integration_method=o['method'], integration_rtol=o['rtol'], integration_atol=o['atol'],
              scale_rtols_by_layer_type=False, max_num_steps=100000, expected_size=250, max_ram_MB=500, max_step=0.0,
              limit_solution_to_radius=True, nondimensionalize=bool(o['nondim']), verbose=False, warnings=False,
              raise_on_fail=bool(case.get('raise_on_fail', False)))
    mut = case.get('mut') or {'kind': 'none'}
    k = mut['kind']
    p = mut.get('p', 0)
    arr_names = ['radius', 'density', 'gravity', 'bulk', 'shear']

    def pos(n):
        return [0, n // 2, n - 1][int(p) % 3]
    if k == 'none':
        pass
    elif k == 'tuple_len':
        name = ['is_static', 'is_incomp', 'tops'][int(p) % 3]
        t = args[name]
        args[name] = t[:-1] if (int(p) // 3) % 2 == 0 else t + (t[-1],)
    elif k == 'layer_type_unknown':
        args['layer_types'] = ('plasma',) + tuple(args['layer_types'][1:])
    elif k == 'layer_type_case':
        args['layer_types'] = tuple(s.upper() for s in args['layer_types'])
    elif k == 'integrator_unknown':
        kw['integration_method'] = ['euler', '', 'RK4 5', 'dop-853'][int(p) % 4]
    elif k == 'solve_for_list':
        kw['solve_for'] = list(kw['solve_for'])
    elif k == 'solve_for_unknown':
        kw['solve_for'] = tuple(kw['solve_for']) + (['badname', 'Tidal ', 'love', ''][int(p) % 4],)
    elif k == 'solve_for_too_many':
        kw['solve_for'] = ('tidal', 'loading', 'free', 'tidal', 'loading', 'free')
    elif k == 'solve_for_upper':
        kw['solve_for'] = tuple(s.upper() for s in kw['solve_for'])
    elif k == 'solve_for_none':
        kw['solve_for'] = None
    elif k == 'solve_for_empty':
        kw['solve_for'] = tuple()
    elif k == 'array_len':
        name = arr_names[1 + int(p) % 4]
        args[name] = np.ascontiguousarray(args[name][:-1])
    elif k == 'noncontiguous':
        name = arr_names[int(p) % 5]
        a = args[name]
        big = np.empty(2 * a.size, dtype=a.dtype)
        big[::2] = a
        args[name] = big[::2]
    elif k == 'dtype':
        name = arr_names[int(p) % 5]
        args[name] = args[name].astype([np.float32, np.int64, np.complex128, np.float64][(int(p) // 5) % 4]) \
            if name != 'shear' else args[name].real.copy()
    elif k == 'few_slices_in_layer':
        # move the first interface so that a layer keeps <= 3 slices
        r = args['radius']
        if len(args['tops']) >= 2:
            t = list(args['tops'])
            t[0] = float(r[min(2, r.size - 1)])
            args['tops'] = tuple(t)
        else:
            for nm in arr_names:
                args[nm] = np.ascontiguousarray(args[nm][:3])
    elif k == 'upper_radius_mismatch':
        t = list(args['tops'])
        t[-1] = t[-1] * [0.5, 2.0, -1.0, 0.0][int(p) % 4]
        args['tops'] = tuple(t)
    elif k == 'too_few_total':
        n = 3 * len(args['layer_types'])
        for nm in arr_names:
            args[nm] = np.ascontiguousarray(args[nm][:n])
    elif k == 'degree':
        kw['degree_l'] = [0, 1, 2, 3, 7, 20, 60, 255, 256, 1000][int(p) % 10]
    elif k == 'bad_value':
        name = arr_names[int(p) % 5]
        val = [float('nan'), 0.0, -1.0, float('inf'), -float('inf'), 1e300, 1e-300][(int(p) // 5) % 7]
        a = args[name].copy()
        a[pos(a.size)] = val
        args[name] = a
    elif k == 'bad_scalar':
        name = ['frequency', 'bulk_density'][int(p) % 2]
        args[name] = [float('nan'), 0.0, -1.0, float('inf'), 1e300, 1e-300][(int(p) // 2) % 6]
    elif k == 'duplicate_radii':
        a = args['radius'].copy()
        i = max(1, pos(a.size))
        a[i] = a[i - 1]
        args['radius'] = a
    elif k == 'decreasing_radii':
        args['radius'] = np.ascontiguousarray(args['radius'][::-1])
    elif k == 'step_budget':
        kw['max_num_steps'] = [1, 5, 50][int(p) % 3]
    elif k == 'ram_budget':
        kw['max_ram_MB'] = [1, 0][int(p) % 2]
        kw['max_num_steps'] = 200000
    elif k == 'rtol_extreme':
        kw['integration_rtol'] = [1e-16, 10.0, 0.0, -1.0, float('nan')][int(p) % 5]
        kw['max_num_steps'] = 20000
    elif k == 'atol_extreme':
        kw['integration_atol'] = [0.0, 1e300, -1.0, float('nan')][int(p) % 4]
        kw['max_num_steps'] = 20000
    elif k == 'expected_size':
        kw['expected_size'] = [0, 1, 2][int(p) % 3]
    elif k == 'max_step':
        kw['max_step'] = [1e-30, -1.0, float('nan'), 1e300][int(p) % 4]
        kw['max_num_steps'] = 20000
    else:
        raise ValueError('unknown mutation ' + k)
    return args, kw


def run_case(case):
    from TidalPy.RadialSolver import radial_solver
    rep = {'built': False}
    try:
        args, kw = build_call(case)
    except Exception as e:  # harness problem, not the repository's
        rep['harness_error'] = '%s: %s' % (type(e).__name__, e)
        return rep
    rep['built'] = True
    names = ['radius', 'density', 'gravity', 'bulk', 'shear']
    copies = {n: np.array(args[n], copy=True) for n in names}
    rep['n_slices'] = int(np.asarray(args['radius']).size)
    rep['n_types'] = len(kw['solve_for']) if kw['solve_for'] is not None else 1

    def call(extra_kw):
        k2 = dict(kw)
        k2.update(extra_kw)
        return radial_solver(args['radius'], args['density'], args['gravity'], args['bulk'], args['shear'],
                             args['frequency'], args['bulk_density'], args['layer_types'], args['is_static'],
                             args['is_incomp'], args['tops'], **k2)
    try:
        sol = call({})
        rep['outcome'] = 'returned'
    except BaseException as e:  # noqa
        rep['outcome'] = 'raised'
        rep['exc_type'] = type(e).__name__
        rep['exc_msg'] = str(e)[:300]
        sol = None
    rep['input_dev'] = {n: ulp_dev(copies[n], args[n]) for n in names}
    if sol is not None:
        try:
            rep['type'] = type(sol).__name__
            rep['success'] = bool(sol.success)
            msg = sol.message
            rep['message_ok'] = isinstance(msg, str) and len(msg.strip()) > 0
            rep['message'] = str(msg)[:200]
            res, love = sol.result, sol.love
            rep['none'] = {'result': res is None, 'love': love is None, 'k': sol.k is None, 'h': sol.h is None, 'l': sol.l is None}
            first = (kw['solve_for'][0] if kw['solve_for'] else 'tidal')
            try:
                rep['none']['getitem'] = sol[first] is None
            except Exception as e:  # noqa
                rep['getitem_exc'] = type(e).__name__
            if res is not None:
                rep['result_shape'] = list(np.asarray(res).shape)
            if love is not None:
                rep['love_shape'] = list(np.asarray(love).shape)
                la = np.asarray(love)
                # k is defined for every surface type (h and l are NaN by design on a liquid surface)
                rep['k_finite'] = bool(la.ndim == 2 and la.shape[1] == 3 and np.all(np.isfinite(la[:, 0])))
        except BaseException as e:  # noqa
            rep['inspect_exc'] = '%s: %s' % (type(e).__name__, e)
        if rep.get('success') is False and not kw['raise_on_fail']:
            # the same inputs with raise_on_fail=True must raise instead
            for n in names:
                if rep['input_dev'][n] == 0.0:
                    continue
            try:
                args2 = {n: np.array(copies[n], copy=True) for n in names}
                saved = {n: args[n] for n in names}
                args.update(args2)
                try:
                    call({'raise_on_fail': True})
                    rep['raise_on_fail'] = 'returned'
                except BaseException as e:  # noqa
                    rep['raise_on_fail'] = 'raised:' + type(e).__name__
                rep['input_dev_raise'] = {n: ulp_dev(copies[n], args[n]) for n in names}
                args.update(saved)
            except BaseException as e:  # noqa
                rep['raise_on_fail'] = 'harness:' + type(e).__name__
    return rep


def main():
    import logging
    logging.getLogger('TidalPy').setLevel(logging.CRITICAL)
    out = sys.stdout
    for line in _in:
        line = line.strip()
        if not line:
            continue
        msg = json.loads(line)
        if msg.get('cmd') == 'quit':
            break
        rep = run_case(msg['case'])
        rep['id'] = msg['id']
        out.write('\n@@REPORT@@' + json.dumps(rep, default=repr) + '\n')
        out.flush()


if __name__ == '__main__':
    main()
