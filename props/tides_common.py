"""Shared helpers of the tidal mode-sum checks (C10, C11, C12): case strategies, argument builders for
`quick_tidal_dissipation` / `quick_dual_body_tidal_dissipation`, and the harness's own mode-by-mode sum.

The harness sum (`mode_sum`) is deliberately written without any grouping by frequency: every (l, m, p, q)
mode is one term

    u_lmpq = (R/a)^(2l-4) * c_lm * F^2_lmp(I) * G^2_lpq(e),   c_lm = (l-m)!/(l+m)! (2 - delta_m0)   (harness)
    w_lmpq = (l - 2p + q) n - m Omega
    heating = G M^2 R^5 / a^6 * sum u |w| K_l(|w|),   dU/dX = G M R^5 / a^6 * sum u x sgn(w) K_l(|w|),
    x = (l-2p+q | l-2p | m) for X = (M | w | O),      K_l = -Im k_l * tidal_scale

F^2 and G^2 are the repository's own tables, taken through the *un-jitted* `.py_func` of the per-degree table
functions selected by name by the harness (so the lookup dictionaries and the numba dispatch are on the tested
side); the complex compliance is the `.py_func` of the repository's rheology function; c_lm and the
homogeneous-body Love number 3/(2(l-1))/(1 + m_l/(J mu)) are written out here (independent of the repository).

Not a property module (file name does not start with 'c<digits>').
"""
import importlib
import math
import os
import sys

import numpy as np
from hypothesis import strategies as st

FLOAT_EPS = 2.220446049250313e-16
G_SI = 6.6743e-11        # == TidalPy.constants.G == scipy.constants.G (asserted in selftest_common)

# rheology name -> (number of extra constant inputs)
RHEO_INPUTS = {
    'maxwell': (), 'newton': (), 'voigt': ('vco', 'vvo'), 'burgers': ('vco', 'vvo'), 'andrade': ('alpha', 'zeta'),
    'sundberg': ('vco', 'vvo', 'alpha', 'zeta'), 'andrade_freq': ('alpha', 'zeta', 'cf', 'cff'),
    'sundberg_freq': ('vco', 'vvo', 'alpha', 'zeta', 'cf', 'cff'), 'elastic': (), 'off': (),
    'cpl': (), 'ctl': (),
}
DISSIPATIVE = ['maxwell', 'burgers', 'andrade', 'sundberg', 'voigt', 'newton', 'andrade_freq', 'sundberg_freq',
               'cpl', 'ctl']
NONDISSIPATIVE = ['elastic', 'off']
TRUNCS = [2, 4, 6, 8, 10, 12, 14, 16, 18, 20]

_INPUT_STRATS = {
    'vco': st.floats(0.05, 5.0), 'vvo': st.floats(-3.0, 0.0).map(lambda x: 10.0 ** x),
    'alpha': st.floats(0.1, 0.5), 'zeta': st.floats(-2.0, 2.0).map(lambda x: 10.0 ** x),
    'cf': st.floats(-8.0, -4.0).map(lambda x: 10.0 ** x), 'cff': st.floats(5.0, 50.0),
}
_INPUT_RANGES = {'vco': (0.05, 5.0), 'vvo': (1e-3, 1.0), 'alpha': (0.1, 0.5), 'zeta': (1e-2, 1e2),
                 'cf': (1e-8, 1e-4), 'cff': (5.0, 50.0)}


def make_numba_cache_process_safe():
    """numba's on-disk cache (numba/core/caching.py IndexDataCacheFile.save: load index -> pick the first unused data
    file number -> write index -> write data) is not safe when several shard processes compile *different*
    signatures of the same function into a cold cache at the same time: two of them pick the same data file name, one
    index wins, and later loads return machine code compiled for another signature (observed: sporadic
    `AssertionError: Sizes of heating_term_old, heating_term do not match` from calculate_terms in cold 16-shard runs,
    never single-process).  Serialise save (exclusive) and load (shared) per index file with flock."""
    try:
        import fcntl
        from numba.core import caching
    except Exception:
        return
    cls = caching.IndexDataCacheFile
    if getattr(cls, '_verif_locked', False):
        return
    orig_save, orig_load = cls.save, cls.load

    def _locked(self, mode, fn, *args):
        try:
            fd = os.open(self._index_path + '.lock', os.O_CREAT | os.O_RDWR, 0o644)
        except OSError:
            return fn(self, *args)
        try:
            fcntl.flock(fd, mode)
            return fn(self, *args)
        finally:
            try:
                fcntl.flock(fd, fcntl.LOCK_UN)
            finally:
                os.close(fd)

    def save(self, key, data):
        return _locked(self, fcntl.LOCK_EX, orig_save, key, data)

    def load(self, key):
        return _locked(self, fcntl.LOCK_SH, orig_load, key)

    cls.save = save
    cls.load = load
    cls._verif_locked = True


make_numba_cache_process_safe()


TRANSIENT_RETRIES = {'count': 0}


def call_repo(name, fn, **kw):
    """`fn(**kw)` inside vlib.result.repo_call(name), with one special case: numba's parfor array analysis inserts
    run-time shape assertions into the `parallel=True` functions (calculate_terms, the e/I tables); in *cold-cache
    multi-process* runs (some functions compiled in this process, others loaded from the cache another shard just
    wrote) such an assertion (`AssertionError: Sizes of heating_term_old, heating_term do not match`) fired sporadically
    (4 of ~14 cold 16-shard runs, on inputs whose arrays all have the same length; never in a warm or single-process run,
    never on replay of the same case).  It is a property of the numba runtime, not of the inputs, so the identical
    call is repeated (at most twice); only a persistent exception is reported.  Retries are counted in the label
    `numba_transient_retry`."""
    from vlib.result import RepoRaised, repo_call
    last = None
    before = snapshot(kw)
    del LAST_MUTATION[:]
    for attempt in range(3):
        try:
            with repo_call(name):
                res = fn(**kw)
            LAST_MUTATION.extend(differences(before, kw, name))
            return res
        except RepoRaised as e:
            if isinstance(e.exc, AssertionError) and str(e.exc).startswith('Sizes of '):
                TRANSIENT_RETRIES['count'] += 1
                last = e
                continue
            raise
    raise last


# ---- "a call must not modify its arguments" ------------------------------------------------------------------------
LAST_MUTATION = []      # filled by call_repo: names of keyword arguments the last call modified in place


def snapshot(obj):
    """Deep copy of an argument structure: ndarrays are copied, dict-likes (python or numba typed dicts) become python
    dicts, tuples/lists become tuples; scalars, strings, None and callables are kept."""
    if isinstance(obj, np.ndarray):
        return obj.copy()
    if hasattr(obj, 'items') and hasattr(obj, 'keys'):
        return {k: snapshot(v) for k, v in obj.items()}
    if isinstance(obj, (tuple, list)):
        return tuple(snapshot(v) for v in obj)
    return obj


def differences(before, after, path='arg'):
    """Paths at which `after` (the live objects) differs from `before` (a snapshot); bit-wise for arrays/floats."""
    out = []
    if isinstance(before, np.ndarray):
        a = np.asarray(after)
        if a.shape != before.shape or not np.array_equal(a, before, equal_nan=True):
            out.append(path)
    elif isinstance(before, dict):
        try:
            keys_after = list(after.keys())
        except Exception:
            return [path]
        if set(keys_after) != set(before.keys()):
            out.append(path + '<keys>')
        for k in before:
            if k in keys_after:
                out.extend(differences(before[k], after[k], '%s[%r]' % (path, k)))
    elif isinstance(before, tuple):
        if not isinstance(after, (tuple, list)) or len(after) != len(before):
            out.append(path)
        else:
            for i, (x, y) in enumerate(zip(before, after)):
                out.extend(differences(x, y, '%s[%d]' % (path, i)))
    elif isinstance(before, (float, int, complex, np.floating, np.integer)) and not isinstance(before, bool):
        if not (before == after or (before != before and after != after)):
            out.append(path)
    return out


def check_not_mutated(c, fn_name):
    """Collector clause for the last call_repo call."""
    c.check(not LAST_MUTATION, {'clause': 'inputs_not_mutated', 'fn': fn_name},
            '%s modified its caller\'s argument(s) in place: %s' % (fn_name, ', '.join(LAST_MUTATION[:6])))


def second_opinion(modname, inner, case):
    """Evaluate `case` with `inner`; when the repository call died with an *unclassified* exception, evaluate the same
    case once more in a fresh python process and return that verdict (label `reevaluated_in_fresh_process`).
    Reason: in cold-cache multi-process runs a shard process occasionally (about 3 % of the processes) ends up with a
    numba-compiled `calculate_terms` that misbehaves for the rest of that process (`AssertionError: Sizes of
    heating_term_old, heating_term do not match`, `IndexError: getitem out of range` on equal-length inputs); the very
    same case holds on replay, in single-process cold runs, in sequential shard runs and in every warm run, and the cache
    files are consistent afterwards.  A deterministic exception of the repository reproduces in the fresh process and is
    reported as before."""
    import json
    import subprocess
    import tempfile
    from vlib import env
    from vlib.result import RepoRaised
    nested = os.environ.get('VERIF_SECOND_OPINION') == '1'

    def keys_of(res):
        return {(f['signature'].get('type'), f['signature'].get('where')) for f in res.get('fails', [])
                if isinstance(f.get('signature'), dict) and f['signature'].get('kind') == 'exception'
                and f['signature'].get('class', 'unclassified') == 'unclassified'}
    raised = None
    try:
        res = inner(case)
        keys = keys_of(res)
        if not keys or nested or keys <= _CONFIRMED or _SECOND['n'] >= 10:
            return res
    except RepoRaised as e:
        keys = {(type(e.exc).__name__, e.name)}
        if nested or keys <= _CONFIRMED or _SECOND['n'] >= 10:
            raise
        raised = e
    _SECOND['n'] += 1
    with tempfile.NamedTemporaryFile('w', suffix='.json', delete=False) as fh:
        json.dump(case, fh)
        path = fh.name
    code = ("import sys, json; sys.path.insert(0, %r); from vlib import env; env.setup(); env.quiet_tidalpy(); "
            "from vlib.result import safe_evaluate; import importlib; m = importlib.import_module('props.%s'); "
            "r = safe_evaluate(m, json.load(open(%r))); print('@@RESULT@@' + json.dumps(r, default=repr))"
            % (env.VERIF, modname, path))
    try:
        cp = subprocess.run([env.PY, '-c', code], cwd=env.VERIF, env=dict(os.environ, VERIF_SECOND_OPINION='1'),
                            stdin=subprocess.DEVNULL, capture_output=True, text=True, timeout=900)
        line = [ln for ln in cp.stdout.splitlines() if ln.startswith('@@RESULT@@')]
        if not line:
            raise RuntimeError('no result from the fresh process: %s' % cp.stderr[-500:])
        res = json.loads(line[-1][len('@@RESULT@@'):])
    finally:
        try:
            os.unlink(path)
        except OSError:
            pass
    _CONFIRMED.update(keys & keys_of(res))       # deterministic: reproduced in the fresh process, no need to ask again
    res['labels'] = list(res.get('labels', [])) + ['reevaluated_in_fresh_process']
    del raised
    return res


_CONFIRMED = set()
_SECOND = {'n': 0}


def weighted(strategies, weights):
    """one_of with integer weights (st.one_of drops repeated strategy objects, so repeating does not weight)."""
    idx = [i for i, w in enumerate(weights) for _ in range(int(w))]
    return st.sampled_from(idx).flatmap(lambda i: strategies[i])


def shard_info():
    """(shard index, number of shards) when running inside `python -m vlib.shard ...`, else None.
    Used only to give each shard a small fixed subset of the numba-compile-heavy configuration axes
    (rheology, truncation level); every case still carries its full configuration, so replays and the
    shrinker do not depend on it."""
    a = sys.argv
    try:
        if len(a) >= 8 and a[0].endswith('shard.py'):
            return int(a[4]), int(a[5])
    except Exception:
        pass
    return None


def shard_config(tier):
    """Configuration axes for this process: (list of rheologies, list of truncation levels, list of l_max,
    list of array modes)."""
    si = shard_info()
    if tier == 'thorough':
        if si is None:
            return DISSIPATIVE + NONDISSIPATIVE, TRUNCS, [2, 3, 4, 5, 6, 7], ['all', 'e', 'n', 'visc', 'spin']
        i, k = si
        # every shard: 4 rheologies, 3 truncations (2 always: closed-form clause), l_max 2,3 + two of 4..7
        rh = [DISSIPATIVE[(i + j * 3) % len(DISSIPATIVE)] for j in range(4)] + [NONDISSIPATIVE[i % 2]]
        tr = [2, TRUNCS[1 + i % 9], TRUNCS[1 + (i * 4 + 3) % 9]]
        lm = [2, 3, 4 + i % 4]
        am = ['all', ['e', 'n', 'visc', 'spin'][i % 4]]
        return rh, sorted(set(tr)), sorted(set(lm)), am
    if si is None:
        return DISSIPATIVE + NONDISSIPATIVE, [2, 6, 10], [2, 3], ['all']
    i, k = si
    rh = [DISSIPATIVE[i % len(DISSIPATIVE)], DISSIPATIVE[(i + 5) % len(DISSIPATIVE)]]
    if i % 4 == 0:
        rh.append(NONDISSIPATIVE[(i // 4) % 2])
    tr = [2, TRUNCS[1 + i % 9]]
    # one shard in four also passes the spin rate alone as an array (scalar orbit): quick_tides has a separate broadcasting
    # branch for that combination
    return rh, tr, [2, 3], (['all', 'spin'] if i % 4 == 1 else ['all'])


# ---------------------------------------------------------------------------------------------------
# strategies


def rheo_inputs_strategy(name):
    return st.tuples(*[_INPUT_STRATS[k] for k in RHEO_INPUTS[name]]).map(list)


def body_strategy(rheologies, finding_weight=1.0):
    def with_inputs(b):
        return rheo_inputs_strategy(b['rheology']).map(lambda inp: dict(b, rheo_inputs=inp))
    base = st.fixed_dictionaries({
        'log_R': st.floats(5.0, 7.8), 'log_rho': st.floats(2.7, 4.1), 'moi_factor': st.floats(0.2, 0.4),
        # 'newton' (behind C10's known zero-frequency finding) gets a lower weight outside C10; the non-dissipative
        # models are a small class of their own
        'rheology': st.sampled_from([r for r in rheologies for _ in range(
            (2 if r in NONDISSIPATIVE else 4) if finding_weight >= 1.0 else
            (4 if r in NONDISSIPATIVE else (3 if r == 'newton' else 12)))]),
        'tidal_scale': st.one_of(st.just(1.0), st.floats(0.05, 1.0)),
        'fixed_k2': st.floats(0.01, 1.4), 'log_fixed_q': st.floats(0.5, 5.0),
        'dt_factor': st.one_of(st.none(), st.floats(-2.0, 2.0)),   # None: the function's own default 1/(Q n)
        'sync': st.sampled_from([True, False, False, False]),   # sampled_from keeps repeats: 1 in 4 synchronous
        'use_obl': st.booleans(),
    })
    return base.flatmap(with_inputs)


def _away_from_zero(lo):
    """x == 0 exactly or |x| >= lo: products like e^2 * F^2 * K must not reach the subnormal range, where the
    repository's (and the harness's) intermediate results legitimately lose relative precision."""
    return lambda x: x == 0.0 or abs(x) >= lo


E_MIN, SPIN_MIN, OBL_MIN = 1.0e-6, 1.0e-6, 1.0e-3


def _lazy_axes():
    # spin/n: exact special values (synchronous, resonances, retrograde, zero), anywhere in [-3, 3], and NEAR a commensurability:
    # r (1 +- 10^[-12,-2]) - nearly but not exactly synchronous / resonant rotation (pseudo-synchronous states, a spin sweep
    # passing a resonance), where one mode frequency is a small non-zero difference of two large terms
    near = st.tuples(st.sampled_from([1.0, 1.0, 1.0, -1.0, 1.5, 2.0, 0.5]), st.floats(-12.0, -2.0), st.booleans()) \
        .map(lambda t: t[0] * (1.0 + (1.0 if t[2] else -1.0) * 10.0 ** t[1]))
    spin = weighted([st.sampled_from([1.0, -1.0, 1.5, 2.0, 0.5, 0.0, 3.0, -3.0]),
                     st.floats(-3.0, 3.0).filter(_away_from_zero(SPIN_MIN)), near], [2, 4, 1])
    ecc = weighted([st.just(0.0), st.floats(1.0e-3, 0.5), st.floats(1.0e-3, 0.12),
                    st.floats(math.log10(E_MIN), -3.0).map(lambda x: 10.0 ** x)], [2, 10, 2, 1])
    obl = weighted([st.just(0.0), st.floats(OBL_MIN, math.pi / 2), st.floats(OBL_MIN, 0.3)], [1, 2, 1])
    return spin, ecc, obl


def point_strategy():
    pair = lambda s: st.tuples(s, s).map(list)  # noqa: E731
    spin, ecc, obl = _lazy_axes()
    return st.fixed_dictionaries({
        'e': ecc, 'log_a_over_R': st.floats(0.6, 3.0),
        'spin_ratio': pair(spin), 'obl': pair(obl),
        'log_visc': pair(st.floats(10.0, 24.0)), 'log_shear': pair(st.floats(7.0, 11.5)),
    })


ROUTES = st.fixed_dictionaries({
    # how the same physical state is handed to the repository (C11): every route must give the canonical route's rates
    'orbit': st.sampled_from(['frequency', 'frequency', 'period']),
    'spin': st.tuples(st.sampled_from(['frequency', 'period']), st.sampled_from(['frequency', 'period'])).map(list),
    'none_tuple': st.booleans(),       # dual: an all-None spin tuple is passed as (None, None) instead of None
    'entry': st.sampled_from(['quick', 'quick', 'from_dict']),
})


def tide_case_strategy(tier, kinds=('single',), array_fraction=3, finding_weight=1.0, routes=False):
    rheos, truncs, lmaxs, amodes = shard_config(tier)
    body = body_strategy(rheos, finding_weight)
    scalar_pts = st.lists(point_strategy(), min_size=1, max_size=1)
    array_pts = st.lists(point_strategy(), min_size=1, max_size=4)

    def build(as_array):
        return st.fixed_dictionaries({
            'kind': st.sampled_from(list(kinds)),
            'l_max': st.sampled_from(lmaxs), 'trunc': st.sampled_from(truncs),
            'as_array': st.just(as_array) if not as_array else st.sampled_from(amodes),
            'log_host_mass': st.floats(22.0, 30.0),
            'e_none': st.booleans(),      # scalar e == 0 is passed as eccentricity=None (the documented default)
            'bodies': st.tuples(body, body).map(list),
            'pts': array_pts if as_array else scalar_pts,
            **({'history': st.lists(point_strategy(), min_size=1, max_size=2)} if as_array else {}),
            **({'routes': ROUTES} if routes else {}),
        })
    return weighted([build(False), build(True)], [array_fraction, 1])


def case_in_domain(case):
    try:
        if case['l_max'] not in range(2, 8) or case['trunc'] not in TRUNCS:
            return False
        if case['as_array'] not in (False, 'all', 'e', 'n', 'visc', 'spin') or not (22.0 <= case['log_host_mass'] <= 30.0):
            return False
        if len(case['bodies']) != 2 or not (1 <= len(case['pts']) <= 4):
            return False
        if 'routes' in case:
            r = case['routes']
            if r['orbit'] not in ('frequency', 'period') or r['entry'] not in ('quick', 'from_dict') \
                    or len(r['spin']) != 2 or any(x not in ('frequency', 'period') for x in r['spin']) \
                    or not isinstance(r['none_tuple'], bool):
                return False
        if case['as_array'] is False and len(case['pts']) != 1:
            return False
        for b in case['bodies']:
            if b['rheology'] not in RHEO_INPUTS or len(b['rheo_inputs']) != len(RHEO_INPUTS[b['rheology']]):
                return False
            for k, v in zip(RHEO_INPUTS[b['rheology']], b['rheo_inputs']):
                lo, hi = _INPUT_RANGES[k]
                if not (lo <= v <= hi):
                    return False
            if not (5.0 <= b['log_R'] <= 7.8 and 2.7 <= b['log_rho'] <= 4.1 and 0.2 <= b['moi_factor'] <= 0.4
                    and 0.05 <= b['tidal_scale'] <= 1.0 and 0.01 <= b['fixed_k2'] <= 1.4
                    and 0.5 <= b['log_fixed_q'] <= 5.0):
                return False
            if b['dt_factor'] is not None and not (-2.0 <= b['dt_factor'] <= 2.0):
                return False
            if not isinstance(b['sync'], bool) or not isinstance(b['use_obl'], bool):
                return False
        if 'history' in case and not (1 <= len(case['history']) <= 2):
            return False
        for p in list(case['pts']) + list(case.get('history') or []):
            if not (0.0 <= p['e'] <= 0.5 and 0.6 <= p['log_a_over_R'] <= 3.0 and _away_from_zero(E_MIN)(p['e'])):
                return False
            for i in range(2):
                if not (_away_from_zero(SPIN_MIN)(p['spin_ratio'][i]) and _away_from_zero(OBL_MIN)(p['obl'][i])):
                    return False
                if not (-3.0 <= p['spin_ratio'][i] <= 3.0 and 0.0 <= p['obl'][i] <= math.pi / 2 + 1e-12
                        and 10.0 <= p['log_visc'][i] <= 24.0 and 7.0 <= p['log_shear'][i] <= 11.5):
                    return False
        return True
    except Exception:
        return False


# ---------------------------------------------------------------------------------------------------
# physical set-up of a case


class Body:
    def __init__(self, b, idx, pts, as_array):
        self.spec = b
        self.idx = idx
        self.R = 10.0 ** b['log_R']
        self.rho = 10.0 ** b['log_rho']
        self.mass = 4.0 / 3.0 * math.pi * self.rho * self.R ** 3
        self.g = G_SI * self.mass / self.R ** 2
        self.moi = b['moi_factor'] * self.mass * self.R ** 2
        self.rheology = b['rheology']
        self.inputs = tuple(float(x) for x in b['rheo_inputs'])
        self.sync = bool(b['sync'])
        self.use_obl = bool(b['use_obl'])
        self.tidal_scale = float(b['tidal_scale'])
        self.fixed_k2 = float(b['fixed_k2'])
        self.fixed_q = 10.0 ** b['log_fixed_q']
        self.visc = np.array([10.0 ** p['log_visc'][idx] for p in pts])
        self.shear = np.array([10.0 ** p['log_shear'][idx] for p in pts])
        self.obl = np.array([float(p['obl'][idx]) for p in pts]) if self.use_obl else None
        self.ratio = np.array([float(p['spin_ratio'][idx]) for p in pts])


def _days2rads(p):
    from TidalPy.utilities.conversions import days2rads
    return np.array([float(days2rads(float(x))) for x in np.atleast_1d(p)])


class Setup:
    """Numbers derived from a case dict (all numpy arrays of length len(pts))."""

    def __init__(self, case, dual):
        pts = case['pts']
        self.as_array = case['as_array']
        self.k = len(pts)
        self.l_max = int(case['l_max'])
        self.trunc = int(case['trunc'])
        self.dual = dual
        self.e_none = bool(case.get('e_none', False)) and case['as_array'] is False and float(pts[0]['e']) == 0.0
        self.bodies = [Body(case['bodies'][0], 0, pts, self.as_array)]
        if dual:
            self.bodies.append(Body(case['bodies'][1], 1, pts, self.as_array))
            self.host_mass = None
            self.M_total = self.bodies[0].mass + self.bodies[1].mass
            r_sum = self.bodies[0].R + self.bodies[1].R
        else:
            self.host_mass = 10.0 ** case['log_host_mass']
            self.M_total = self.host_mass + self.bodies[0].mass
            r_sum = self.bodies[0].R
        self.e = np.array([float(p['e']) for p in pts])
        self.a_gen = np.array([r_sum * 10.0 ** p['log_a_over_R'] for p in pts])
        self.n = np.sqrt(G_SI * self.M_total / self.a_gen ** 3)
        mode = self.as_array
        # which inputs vary along the array axis
        if mode in ('e', 'visc', 'spin'):
            self.n = self.n[0] * np.ones(self.k)
        if mode in ('n', 'visc', 'spin'):
            self.e = self.e[0] * np.ones(self.k)
        for b in self.bodies:
            if mode in ('e', 'n', 'spin'):
                b.visc = b.visc[0] * np.ones(self.k)
                b.shear = b.shear[0] * np.ones(self.k)
            if mode in ('e', 'n', 'visc'):
                b.ratio = b.ratio[0] * np.ones(self.k)
            if mode in ('e', 'n', 'visc', 'spin'):
                if b.obl is not None:
                    b.obl = b.obl[0] * np.ones(self.k)
        # input routes (C11): a quantity handed over as a period [days] is converted by the repository with days2rads
        # (checked by C17); the REQUESTED state is therefore the frequency days2rads(period), computed here with the same
        # function so that the canonical (all-frequency) call describes bit-for-bit the same state
        rt = case.get('routes') or {}
        self.routes = rt
        self.entry = rt.get('entry', 'quick')
        self.none_tuple = bool(rt.get('none_tuple', False))
        self.P_orb = None
        if rt.get('orbit') == 'period':
            self.P_orb = 2.0 * math.pi / (self.n * 86400.0)
            self.n = _days2rads(self.P_orb)
        # the semi-major axis as Kepler's third law gives it for the mean motion actually passed
        self.a = (G_SI * self.M_total / self.n ** 2) ** (1.0 / 3.0)
        for b in self.bodies:
            if b.sync:
                b.spin = self.n.copy()
            elif mode in ('e', 'n', 'visc'):
                b.spin = b.ratio[0] * self.n[0] * np.ones(self.k)      # the spin rate is passed as one float
            else:
                b.spin = b.ratio * self.n
            b.P_spin = None
            if not b.sync and (rt.get('spin') or ['frequency', 'frequency'])[b.idx] == 'period' and np.all(b.spin != 0.0):
                b.P_spin = 2.0 * math.pi / (b.spin * 86400.0)
                b.spin = _days2rads(b.P_spin)
            b.fixed_dt = None if b.spec['dt_factor'] is None else \
                (10.0 ** b.spec['dt_factor']) / (b.fixed_q * float(self.n[0]))
            b.host_mass = (self.bodies[1 - b.idx].mass if dual else self.host_mass)
            b._n_for_dt = self.n
            b.table_on = dual and any(x.obl is not None for x in self.bodies)

    def arr(self, v, name, j=None):
        """Value to pass to the repository: array (array case, if this input varies) or python float."""
        mode = self.as_array
        if mode is False:
            return float(v[0 if j is None else j])
        if j is not None:
            return float(v[j])
        varies = {'all': ('e', 'n', 'spin', 'obl', 'visc', 'shear'), 'e': ('e',), 'n': ('n',),
                  'visc': ('visc', 'shear'), 'spin': ('spin',)}[mode]
        if name in varies:
            return np.array(v, dtype=float)
        return float(v[0])


def single_kwargs(su, body, j=None, derivatives=True, canonical=False):
    """Keyword arguments of quick_tidal_dissipation for `body` of set-up `su` (j: one element as scalars);
    canonical=True: every quantity as a frequency, whatever the case's routes say."""
    kw = dict(host_mass=body.host_mass, target_radius=body.R, target_mass=body.mass, target_gravity=body.g,
              target_density=body.rho, target_moi=body.moi,
              rheology=body.rheology, eccentricity=su.arr(su.e, 'e', j),
              orbital_frequency=su.arr(su.n, 'n', j),
              max_tidal_order_l=su.l_max, eccentricity_truncation_lvl=su.trunc,
              tidal_scale=body.tidal_scale, calculate_orbit_spin_derivatives=derivatives)
    if body.rheology in ('cpl', 'ctl'):
        kw.update(fixed_k2=body.fixed_k2, fixed_q=body.fixed_q)
        if body.rheology == 'ctl' and body.fixed_dt is not None:
            kw['fixed_dt'] = body.fixed_dt
    else:
        kw.update(viscosity=su.arr(body.visc, 'visc', j), shear_modulus=su.arr(body.shear, 'shear', j),
                  complex_compliance_inputs=body.inputs)
    if not body.sync:
        if body.P_spin is not None and not canonical:
            kw['spin_period'] = su.arr(body.P_spin, 'spin', j)
        else:
            kw['spin_frequency'] = su.arr(body.spin, 'spin', j)
    if su.P_orb is not None and not canonical:
        del kw['orbital_frequency']
        kw['orbital_period'] = su.arr(su.P_orb, 'n', j)
    if body.obl is not None:
        kw['obliquity'] = su.arr(body.obl, 'obl', j)
    if su.e_none:
        del kw['eccentricity']
    return kw


def single_from_dict_kwargs(kw):
    """quick_tidal_dissipation keywords -> single_dissipation_from_dict_or_world_instance keywords."""
    kw = dict(kw)
    host = {'mass': kw.pop('host_mass')}
    sec = {'radius': kw.pop('target_radius'), 'mass': kw.pop('target_mass'), 'gravity_surface': kw.pop('target_gravity'),
           'density_bulk': kw.pop('target_density'), 'moi': kw.pop('target_moi')}
    kw.pop('calculate_orbit_spin_derivatives', None)
    return dict(kw, host=host, secondary=sec)


def dual_from_dict_kwargs(kw):
    """quick_dual_body_tidal_dissipation keywords -> dual_dissipation_from_dict_or_world_instance keywords."""
    kw = dict(kw)
    radii, masses, grav, dens, mois = (kw.pop(x) for x in ('radii', 'masses', 'gravities', 'densities', 'mois'))
    worlds = [{'radius': radii[i], 'mass': masses[i], 'gravity_surface': grav[i], 'density_bulk': dens[i], 'moi': mois[i]}
              for i in range(2)]
    return dict(kw, host=worlds[0], secondary=worlds[1])


def dual_kwargs(su, j=None, canonical=False):
    b0, b1 = su.bodies
    s = lambda v, name: su.arr(v, name, j)  # noqa: E731
    visc, shear, inputs, rheos, k2s, qs, dts = [], [], [], [], [], [], []
    for b in (b0, b1):
        rheos.append(b.rheology)
        k2s.append(b.fixed_k2)
        qs.append(b.fixed_q)
        dts.append(b.fixed_dt if b.rheology == 'ctl' else None)
        if b.rheology in ('cpl', 'ctl'):
            visc.append(None)
            shear.append(None)
            inputs.append(tuple())
        else:
            visc.append(s(b.visc, 'visc'))
            shear.append(s(b.shear, 'shear'))
            inputs.append(b.inputs)
    kw = dict(radii=(b0.R, b1.R), masses=(b0.mass, b1.mass), gravities=(b0.g, b1.g), densities=(b0.rho, b1.rho),
              mois=(b0.moi, b1.moi), viscosities=tuple(visc), shear_moduli=tuple(shear), rheologies=tuple(rheos),
              complex_compliance_inputs=tuple(inputs),
              obliquities=tuple(None if b.obl is None else s(b.obl, 'obl') for b in (b0, b1)),
              spin_frequencies=tuple(None if (b.sync or (b.P_spin is not None and not canonical)) else s(b.spin, 'spin')
                                     for b in (b0, b1)),
              tidal_scales=(b0.tidal_scale, b1.tidal_scale), fixed_k2s=tuple(k2s), fixed_qs=tuple(qs),
              fixed_dts=tuple(dts), eccentricity=s(su.e, 'e'), orbital_frequency=s(su.n, 'n'),
              max_tidal_order_l=su.l_max, eccentricity_truncation_lvl=su.trunc)
    if not canonical:
        periods = tuple(None if (b.sync or b.P_spin is None) else s(b.P_spin, 'spin') for b in (b0, b1))
        if any(p is not None for p in periods) or su.none_tuple:
            kw['spin_periods'] = periods
        if all(f is None for f in kw['spin_frequencies']) and not su.none_tuple:
            del kw['spin_frequencies']          # the default None instead of an explicit (None, None)
        if su.P_orb is not None:
            del kw['orbital_frequency']
            kw['orbital_period'] = s(su.P_orb, 'n')
    if su.e_none:
        del kw['eccentricity']
    return kw


def variant_body(su, case):
    """A second body for the same orbit/spin state: rheology, rheology parameters, viscosity, shear, tidal_scale, k2, Q, dt
    of the case's bodies[1]; radius, density, mass, spin, obliquity of bodies[0] (C10 `direct`: collapse the same mode
    terms for another rheology)."""
    b0 = su.bodies[0]
    v = Body(case['bodies'][1], 1, case['pts'], su.as_array)
    for name in ('R', 'rho', 'mass', 'g', 'moi', 'sync', 'use_obl', 'obl', 'ratio', 'spin', 'host_mass', 'P_spin'):
        setattr(v, name, getattr(b0, name))
    v.idx = 0
    v.table_on = getattr(b0, 'table_on', False)
    if su.as_array in ('e', 'n', 'spin'):
        v.visc = v.visc[0] * np.ones(su.k)
        v.shear = v.shear[0] * np.ones(su.k)
    v.fixed_dt = None if v.spec['dt_factor'] is None else (10.0 ** v.spec['dt_factor']) / (v.fixed_q * float(su.n[0]))
    return v


# ---- call history: the same ndarray objects re-used after being overwritten in place -----------------------------------

def history_cases(case):
    """Two follow-up states of an ARRAY case with the same configuration and array length: (1) the points rolled by one with
    the first replaced by a generated `history` point, (2) rolled again, every eccentricity exactly 0."""
    pts = [dict(p) for p in case['pts']]
    hist = list(case.get('history') or [])
    if not hist:
        p0 = pts[0]
        hist = [dict(p0, e=0.5 * p0['e'] if p0['e'] >= 2.0 * E_MIN else 0.0, log_a_over_R=min(3.0, p0['log_a_over_R'] + 0.1))]
    s1 = [dict(hist[0])] + pts[:-1]
    s2 = [dict(hist[1] if len(hist) > 1 else s1[-1])] + s1[:-1]
    s2 = [dict(p, e=0.0) for p in s2]
    return [dict(case, pts=s1, e_none=False), dict(case, pts=s2, e_none=False)]


def _overwrite(live, new):
    """Give `live` (a keyword-argument value) the values of `new`, re-using every ndarray object of `live` (overwritten in
    place); returns (value to pass, True) or (None, False) when the two do not have the same structure."""
    if isinstance(live, np.ndarray):
        if not isinstance(new, np.ndarray) or new.shape != live.shape:
            return None, False
        live[...] = new
        return live, True
    if isinstance(live, (tuple, list)):
        if not isinstance(new, (tuple, list)) or len(new) != len(live):
            return None, False
        out = []
        for x, y in zip(live, new):
            v, ok = _overwrite(x, y)
            if not ok:
                return None, False
            out.append(v)
        return type(live)(out) if not isinstance(live, tuple) else tuple(out), True
    if isinstance(live, dict):
        if not isinstance(new, dict) or set(new) != set(live):
            return None, False
        out = {}
        for kk in live:
            v, ok = _overwrite(live[kk], new[kk])
            if not ok:
                return None, False
            out[kk] = v
        return out, True
    if isinstance(new, np.ndarray):
        return None, False
    return new, True


def history_check(c, case, dual, kw_live, make_call, fn_name, is_known=None, extra=None):
    """Call-history clause.  `kw_live` are the keyword arguments of a call that has just been made.  For each follow-up state
    of history_cases(): every ndarray object inside kw_live is overwritten IN PLACE with the new values (scalars replaced)
    and the same entry point is called again with the very same array objects - consecutively for all states, nothing else
    evaluated in between; afterwards each state is evaluated once more with fresh arrays and both results must agree bit for
    bit (every numeric entry of the result, nested dicts included).  `make_call(su, kw)` -> result (kw None: build fresh
    keyword arguments and return (kw, result)); `extra(su_step, result, step)` adds clause checks on a history result."""
    from vlib.result import RepoRaised
    if not case['as_array']:
        return
    steps = []
    kw = kw_live
    try:
        for step_case in history_cases(case):
            su_s = Setup(step_case, dual=dual)
            kw_new = make_call(su_s, None, build_only=True)
            if set(kw_new) != set(kw):
                c.label('history:skipped')
                return
            nxt = {}
            for key in kw:
                v, ok = _overwrite(kw[key], kw_new[key])
                if not ok:
                    c.label('history:skipped')
                    return
                nxt[key] = v
            kw = nxt
            res = make_call(su_s, kw)
            steps.append((su_s, snapshot(res)))
        for i, (su_s, res_live) in enumerate(steps):
            _, res_fresh = make_call(su_s, None)
            diff = differences(res_live, res_fresh, 'result')
            c.check(not diff, {'clause': 'history', 'fn': fn_name},
                    '%s, call %d of a sequence re-using the same ndarray objects (overwritten in place with the next state, '
                    'e=%r) differs from a call with fresh arrays of the same values at: %s' % (fn_name, i + 2, su_s.e.tolist(), diff[:6]))
            if extra is not None:
                extra(su_s, res_live, i)
        c.label('history:checked')
    except RepoRaised as ex:
        if is_known is not None and is_known(ex):
            c.label('history:known_exception')
            return
        raise


def has_routes(su):
    """Does the case use any non-canonical input route (so that a canonical comparison call is worth making)?"""
    return su.P_orb is not None or any(b.P_spin is not None for b in su.bodies) or su.entry != 'quick' or su.none_tuple


# ---------------------------------------------------------------------------------------------------
# harness mode sum

_tbl_cache = {}


def _ecc_table_func(l, trunc):
    key = ('e', l, trunc)
    if key not in _tbl_cache:
        mod = importlib.import_module('TidalPy.tides.eccentricity_funcs.orderl%d' % l)
        f = getattr(mod, 'eccentricity_funcs_trunc%d' % trunc)
        _tbl_cache[key] = getattr(f, 'py_func', f)       # un-jitted when jitted, the function itself otherwise
    return _tbl_cache[key]


def _inc_table_func(l, on):
    key = ('i', l, on)
    if key not in _tbl_cache:
        mod = importlib.import_module('TidalPy.tides.inclination_funcs.orderl%d' % l)
        f = getattr(mod, 'calc_inclination' if on else 'calc_inclination_off')
        _tbl_cache[key] = getattr(f, 'py_func', f)
    return _tbl_cache[key]


def universal_coeff(l, m):
    return (2.0 if m else 1.0) * math.factorial(l - m) / math.factorial(l + m)


def compliance_pyfunc(name):
    from TidalPy.rheology.complex_compliance import known_models
    f = known_models[name]
    return getattr(f, 'py_func', f)


def love_number(l, J, shear, rho, g, R):
    """Homogeneous-body complex Love number k_l (C12's closed form)."""
    m_l = (2.0 * l * l + 4.0 * l + 3.0) / l * shear / (rho * g * R)
    return 1.5 / (l - 1.0) / (1.0 + m_l / (J * shear))


def body_love(body, l, w):
    """(k_l at |w| (complex array), Im J <= 0 everywhere (bool), finite (bool)) for `body`."""
    w = np.abs(np.asarray(w, dtype=float))
    if body.rheology == 'cpl':
        k = body.fixed_k2 * (1.0 - 1.0j / body.fixed_q) + 0.0 * w
        return k, True, True
    if body.rheology == 'ctl':
        dt = body.fixed_dt
        if dt is None:
            dt = 1.0 / body.fixed_q / body._n_for_dt      # the documented default of quick_tidal_dissipation
        k = body.fixed_k2 * (1.0 - 1.0j * w * dt)
        return k, bool(np.all(np.asarray(dt) >= 0.0)), True
    J = np.asarray(compliance_pyfunc(body.rheology)(w, 1.0 / body.shear, body.visc, *body.inputs),
                   dtype=complex) + 0.0 * w
    finite = bool(np.all(np.isfinite(J.real)) and np.all(np.isfinite(J.imag)))
    if not finite:
        return J, False, False
    zero = (J == 0.0)      # the Newton model returns J = 0 at w = 0 (see KF-C10-newton-zero-frequency): k -> 0 there
    with np.errstate(all='ignore'):
        k = love_number(l, np.where(zero, 1.0, J), body.shear, body.rho, body.g, body.R)
    k = np.where(zero, 0.0, k)
    finite = bool(np.all(np.isfinite(k.real)) and np.all(np.isfinite(k.imag)))
    return k, bool(np.all(J.imag <= 0.0)), finite


class ModeSum:
    pass


def mode_sum(su, body, trunc=None, with_love=True):
    """Sum every (l, m, p, q) mode separately.  Returns an object with heating, dUdM, dUdw, dUdO (arrays of
    length su.k), their absolute-value scales, `scale_id` (scale of n dUdM - spin dUdO), number of distinct
    non-zero |w| with non-zero coefficient, passive / finite flags, and `love_modes`: per degree the closed-form Love
    number at every mode frequency (for C12's grouping-agnostic hull check)."""
    trunc = su.trunc if trunc is None else trunc
    k = su.k
    n = su.n
    spin = body.spin
    e = su.e
    obl = body.obl if body.obl is not None else np.zeros(k)
    M = body.host_mass
    body._n_for_dt = su.n
    ra = body.R / su.a
    chi = G_SI * M * M * body.R ** 5 / su.a ** 6
    out = ModeSum()
    H = np.zeros(k)
    dM = np.zeros(k)
    dw = np.zeros(k)
    dO = np.zeros(k)
    sH = np.zeros(k)
    sM = np.zeros(k)
    sw = np.zeros(k)
    sO = np.zeros(k)
    sid = np.zeros(k)
    kmax = np.zeros(k)
    passive = True
    finite = True
    freqs = [set() for _ in range(k)]
    love_cache = {}
    hull_by_l = {}
    zero_freq = False
    # the repository drops the n_coeff == m modes (zero frequency, zero contribution) when `orbital_frequency is
    # spin_frequency`; inside numba that is identity for arrays but *value* equality for floats.  Only used to decide
    # whether a zero-frequency mode is evaluated at all (Newton finding); the sums do not depend on it.
    skip_sync = body.sync or (su.as_array in (False, 'e', 'visc') and float(spin[0]) == float(n[0]))
    for l in range(2, su.l_max + 1):
        ecc = _ecc_table_func(l, trunc)(e)
        # dual-body calls use the general inclination tables for BOTH bodies as soon as one of them has an obliquity
        inc = _inc_table_func(l, body.obl is not None or getattr(body, 'table_on', False))(obl)
        dist = ra ** (2 * l - 4)
        for (m, p), F2 in inc.items():
            c = universal_coeff(l, m)
            for q, G2 in ecc[p].items():
                ncoef = l - 2 * p + q
                if m == 0 and ncoef == 0:
                    continue
                w = ncoef * n - m * spin
                aw = np.abs(w)
                # per-degree set of closed-form Love numbers over EVERY mode frequency of the enumeration, including
                # the n_coeff == m modes of a synchronous body that the repository may or may not keep: C12 only asks
                # that a reported per-degree value lies inside their hull (independent of any grouping by frequency)
                key = (l, ncoef, m)
                if key not in love_cache:
                    kl, pas, fin = body_love(body, l, aw)
                    love_cache[key] = (kl, pas, fin)
                hull_by_l.setdefault(l, []).append((aw, love_cache[key][0]))
                finite = finite and love_cache[key][2]
                if skip_sync and ncoef == m:
                    continue
                passive = passive and love_cache[key][1]
                if np.any(aw <= FLOAT_EPS):      # the rheology functions treat |w| <= eps as w = 0
                    zero_freq = True
                sg = np.sign(w)
                u = dist * c * np.asarray(F2, dtype=float) * np.asarray(G2, dtype=float) * np.ones(k)
                kl = love_cache[key][0]
                K = -kl.imag * body.tidal_scale
                kmax = np.maximum(kmax, np.abs(K))
                uK = u * K
                H += uK * aw
                dM += uK * ncoef * sg
                dw += uK * (l - 2 * p) * sg
                dO += uK * m * sg
                auK = np.abs(uK)
                sH += auK * aw
                sM += auK * abs(ncoef)
                sw += auK * abs(l - 2 * p)
                sO += auK * abs(m)
                sid += auK * (np.abs(ncoef * n) + np.abs(m * spin))
                for j in range(k):
                    if u[j] != 0.0 and aw[j] != 0.0:
                        freqs[j].add(float(aw[j]))
    out.heating = chi * H
    out.dUdM = chi / M * dM
    out.dUdw = chi / M * dw
    out.dUdO = chi / M * dO
    out.s_heating = chi * sH
    out.s_dUdM = chi / M * sM
    out.s_dUdw = chi / M * sw
    out.s_dUdO = chi / M * sO
    out.s_identity = chi * sid
    out.k_max = kmax                  # largest |-Im k_l| over the modes (per element)
    out.unit = chi                    # G M^2 R^5 / a^6
    out.passive = passive
    out.has_zero_freq = zero_freq     # some mode of the enumeration has (numerically) zero frequency
    out.finite = finite
    out.n_freq = [len(f) for f in freqs]
    out.love_modes = hull_by_l        # l -> [(|w| array, k_l(|w|) array)] for every mode of the enumeration
    return out


def love_hull_check(ms, l, got, tidal_scale, slack):
    """Is the reported per-degree Love number `got` (complex array, one entry per element) consistent with the
    closed form?  The repository reports ONE value per degree although the modes of that degree have different
    frequencies (today: an average over its frequency signatures, tidal_scale applied to the imaginary part).  How modes
    are grouped and averaged is not part of any property, so the oracle is grouping-agnostic:
      * all modes of the degree share one frequency (or the Love number does not depend on frequency)  =>  `got` must
        equal the closed form k, or Re k + i ts Im k, or ts k  (ts = tidal_scale) within `slack` relative;
      * otherwise Re and Im of `got` must lie within [min, max] of those candidates over the modes (+- slack * max|k|).
    Returns (ok, single_frequency, detail)."""
    modes = ms.love_modes.get(l, [])
    if not modes:
        return True, False, 'no modes'
    ks = np.array([k for _, k in modes])                   # (n_modes, n_elements)
    cand = np.concatenate([ks, ks.real + 1.0j * tidal_scale * ks.imag, tidal_scale * ks])
    mag = np.max(np.abs(cand), axis=0)
    tol = slack * mag + 1e-300
    spread = np.max(np.abs(ks - ks[0]), axis=0)
    single = bool(np.all(spread <= tol))
    got = np.asarray(got, dtype=complex) * np.ones(ks.shape[1])
    if single:
        k0 = ks[0]
        d = np.minimum(np.minimum(np.abs(got - k0), np.abs(got - (k0.real + 1.0j * tidal_scale * k0.imag))),
                       np.abs(got - tidal_scale * k0))
        ok = bool(np.all(d <= 2.0 * tol))
        return ok, True, 'single frequency: closed form %r, reported %r' % (k0[:3], got[:3])
    lo_r, hi_r = cand.real.min(axis=0) - tol, cand.real.max(axis=0) + tol
    lo_i, hi_i = cand.imag.min(axis=0) - tol, cand.imag.max(axis=0) + tol
    ok = bool(np.all((got.real >= lo_r) & (got.real <= hi_r) & (got.imag >= lo_i) & (got.imag <= hi_i)))
    return ok, False, ('%d mode frequencies: Re k in [%r, %r], Im k in [%r, %r]; reported %r'
                       % (ks.shape[0], lo_r[:3], hi_r[:3], lo_i[:3], hi_i[:3], got[:3]))


def known_exception_class(body, ms, exc):
    """'newton_zero_frequency' when `exc` is C10's known finding KF-C10-newton-zero-frequency, else None.
    Required: rheology 'newton', a (numerically) zero-frequency mode in the harness enumeration, a *complex* division by
    zero, and the innermost repository frame being the collapse_modes call of quick_tidal_dissipation (the Love-number
    path) - a ZeroDivisionError from the dynamics functions (de/dt at e = 0) or anywhere else is never excused."""
    import traceback
    if not isinstance(exc, ZeroDivisionError) or 'complex division' not in str(exc):
        return None
    if body.rheology != 'newton' or not ms.has_zero_freq:
        return None
    frames = [fs for fs in traceback.extract_tb(exc.__traceback__) if fs.filename.endswith('quick_tides.py')]
    if frames:
        line = frames[-1].line or ''
        if line and 'collapse_modes' not in line:
            return None
    for fs in traceback.extract_tb(exc.__traceback__):
        if os.sep + 'dynamics' + os.sep in fs.filename:
            return None
    return 'newton_zero_frequency'


def selftest_common():
    """Oracle self-test: the harness sum must reproduce the classical synchronous e^2 heating rate
    (21/2)(-Im k2) G M^2 R^5 n e^2 / a^6 on its own (no repository mode code involved except the tables)."""
    from TidalPy.constants import G
    import scipy.constants
    assert G == G_SI == scipy.constants.G
    assert universal_coeff(2, 0) == 1.0 and abs(universal_coeff(2, 2) - 1.0 / 12.0) < 1e-17
    assert abs(universal_coeff(3, 1) - 1.0 / 6.0) < 1e-17 and abs(universal_coeff(4, 3) * 2520.0 - 1.0) < 1e-15
    case = {'kind': 'single', 'l_max': 2, 'trunc': 2, 'as_array': False, 'log_host_mass': 27.0,
            'bodies': [{'log_R': 6.2, 'log_rho': 3.5, 'moi_factor': 0.35, 'rheology': 'maxwell', 'rheo_inputs': [],
                        'tidal_scale': 1.0, 'fixed_k2': 0.3, 'log_fixed_q': 2.0, 'dt_factor': None, 'sync': True,
                        'use_obl': False}] * 2,
            'pts': [{'e': 0.01, 'log_a_over_R': 2.0, 'spin_ratio': [1.0, 1.0], 'obl': [0.0, 0.0],
                     'log_visc': [16.0, 16.0], 'log_shear': [10.5, 10.5]}]}
    su = Setup(case, dual=False)
    b = su.bodies[0]
    ms = mode_sum(su, b)
    kl, pas, fin = body_love(b, 2, su.n)
    ref = 10.5 * (-kl.imag) * G_SI * su.host_mass ** 2 * b.R ** 5 * su.n * su.e ** 2 / su.a ** 6
    assert pas and fin and abs(ms.heating[0] / ref[0] - 1.0) < 1e-13, (ms.heating, ref)
    # Maxwell textbook value at w*tau = 1: J = (1 - i)/mu
    J = compliance_pyfunc('maxwell')(1.0e-5, 1.0 / 5.0e10, 5.0e15)
    assert abs(J * 5.0e10 - (1.0 - 1.0j)) < 1e-14
    # homogeneous Love number: rigid limit and fluid limit
    assert abs(love_number(2, 1.0e-30 + 0j, 1.0e30, 3000.0, 1.0, 1.0e6)) < 1e-15
    assert abs(love_number(2, 1.0e-2 + 0j, 1.0e2, 3000.0, 1.0, 1.0e6) - 1.5) < 1e-6
    assert abs(love_number(3, 1.0e-2 + 0j, 1.0e2, 3000.0, 1.0, 1.0e6) - 0.75) < 1e-6
