#!/bin/sh
# MANIFEST.setup_cmd: offline; installs the mpmath oracle dependency beside the framework and
# warms the numba cache for the current /repo sources.
set -e
cd "$(dirname "$0")"
mkdir -p .deps out
if ! PYTHONPATH=.deps /venv/bin/python -c "import mpmath" 2>/dev/null; then
  /venv/bin/pip install --quiet --no-index --find-links /opt/veriftools/wheels --target .deps mpmath
fi
if ! PYTHONPATH=.deps /venv/bin/python -c "import atheris" 2>/dev/null; then
  /venv/bin/pip install --quiet --no-index --find-links /opt/veriftools/wheels --target .deps atheris || echo "atheris not installed: coverage-guided shards will be skipped"
fi
/venv/bin/python -c "import hypothesis" 2>/dev/null || \
  /venv/bin/pip install --quiet --no-index --find-links /opt/veriftools/wheels hypothesis
/venv/bin/python -m vlib.warm </dev/null || true
echo setup done
