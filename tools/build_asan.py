#!/venv/bin/python
"""Build an AddressSanitizer-instrumented shadow copy of the repository's compiled extensions.

  tools/build_asan.py <dest>      -> <dest>/TidalPy/... (python sources copied, every generated .c recompiled with
                                     gcc -O1 -g -fsanitize=address -fno-omit-frame-pointer)
Used by the thorough tier of C06 (workers run with LD_PRELOAD=libasan.so and VERIF_REPO=<dest>)."""
import json, os, subprocess, sys, sysconfig
dest = os.path.abspath(sys.argv[1])
repo = os.environ.get('VERIF_REPO', '/repo')
os.makedirs(dest, exist_ok=True)
subprocess.run(['rsync', '-a', '--delete', '--exclude', '__pycache__', '--exclude', '*.so', repo + '/TidalPy', repo + '/cython_extensions.json', dest + '/'], check=True)
spec = json.load(open(os.path.join(dest, 'cython_extensions.json')))
suffix = sysconfig.get_config_var('EXT_SUFFIX')
out = subprocess.run(['/venv/bin/python', '-c', 'import sysconfig, numpy, os, CyRK;print(sysconfig.get_paths()["include"]);print(numpy.get_include());print(os.path.dirname(CyRK.__file__));[print(d) for d, _, fs in os.walk(os.path.dirname(CyRK.__file__)) if any(f.endswith((".c", ".h", ".pxd")) for f in fs)]'],
                     capture_output=True, text=True, stdin=subprocess.DEVNULL, check=True).stdout.split('\n')
incs = [x for x in out if x]
procs = []
for ext in spec.values():
    src = os.path.join(dest, *ext['sources'][0]); base = src[:-4]; c = base + '.c'; so = base + suffix
    cmd = ['gcc', '-shared', '-fPIC', '-O1', '-g', '-fsanitize=address', '-fno-omit-frame-pointer', '-fopenmp', '-w',
           '-DNPY_NO_DEPRECATED_API=NPY_1_7_API_VERSION']
    for i in incs: cmd += ['-I', i]
    for d in ext['include_dirs']: cmd += ['-I', os.path.join(dest, *d)]
    cmd += ['-I', os.path.dirname(c), c, '-o', so, '-lm']
    procs.append((ext['name'], subprocess.Popen(cmd, stdout=subprocess.PIPE, stderr=subprocess.STDOUT, text=True)))
bad = 0
for name, p in procs:
    o, _ = p.communicate()
    if p.returncode:
        bad += 1; print('FAILED', name, o[-800:])
print('asan build: %d extensions, %d failed -> %s' % (len(procs), bad, dest))
sys.exit(1 if bad else 0)
