#!/venv/bin/python
"""Regenerate MANIFEST.json from the property modules present in props/ (run from /verif)."""
import importlib, json, os, sys
sys.path.insert(0, os.path.dirname(os.path.dirname(os.path.abspath(__file__))))
from vlib import env
env.setup()
ids = [json.loads(l)['id'] for l in open(os.path.join(env.VERIF, 'properties.jsonl'))]
mods = {}
accepted = set(open(os.path.join(env.VERIF, 'props', 'REGISTERED')).read().split())
for f in sorted(os.listdir(os.path.join(env.VERIF, 'props'))):
    if f.startswith('c') and f.endswith('.py'):
        try:
            m = importlib.import_module('props.' + f[:-3])
        except Exception as e:
            print('skip %s: %s' % (f, e)); continue
        if m.ID in accepted:
            mods[m.ID] = m
baseline = json.load(open('/root/.vp/BASELINE.json'))['cmd']
man = {
    'version': 1,
    'setup_cmd': './setup.sh',
    'hooks': {'guard': 'TIDALPY_VERIF',
              'enable': 'no source hooks: checks set TIDALPY_VERIF=1 in their own processes and instrument by monkey-patching '
                        'module globals / subprocess isolation (DESIGN 1.2); extensions are rebuilt from generated C when newer',
              'baseline_off_cmd': baseline, 'source_commits': [], 'add_only': True},
    'engines': [{'name': 'vlib', 'path': 'vlib/', 'serves_properties': sorted(mods),
                 'kind_free_text': 'Hypothesis-driven sharded generator + explicit oracles + collect-then-shrink + known-finding matcher; optional coverage-guided shards (atheris/libFuzzer driving the same strategy and oracle, vlib/fuzz_shard.py)'}],
    'checks': [], 'not_applicable': [],
    'notes': 'All checks: ./check <ID> --tier quick|thorough [--replay FILE]; exit 0 held / 1 VIOLATION / 2 harness error. See DESIGN.md.',
}
for pid in ids:
    if pid in mods:
        m = mods[pid]
        man['checks'].append({
            'property_id': pid,
            'quick_cmd': './check %s --tier quick' % pid,
            'thorough_cmd': './check %s --tier thorough' % pid,
            'evidence_file': 'evidence/%s.json' % pid,
            'replay_cmd_template': './check %s --replay {path}' % pid,
            'engine': 'vlib',
            'level_claimed': {'category': getattr(m, 'LEVEL', 'exploration'), 'text': m.LEVEL_TEXT,
                              'design_ref': 'DESIGN.md section 2, ' + pid},
            'level_note': m.LEVEL_NOTE,
            'technique': m.TECHNIQUE,
        })
    else:
        man['not_applicable'].append({'property_id': pid, 'reason': 'check designed (DESIGN.md section 2) but not yet built and therefore not claimed'})
json.dump(man, open(os.path.join(env.VERIF, 'MANIFEST.json'), 'w'), indent=1)
import jsonschema
jsonschema.validate(man, json.load(open('/root/.vp/MANIFEST.schema.json')))
print('MANIFEST.json: %d checks, %d not claimed' % (len(man['checks']), len(man['not_applicable'])))
