#!/venv/bin/python
"""Print the markdown catch table for DESIGN.md from /verif/seeded/*/{meta,verified,check_result}.json"""
import glob, json, os
rows = []
for d in sorted(glob.glob('/verif/seeded/*-*')):
    name = os.path.basename(d)
    def load(f):
        try: return json.load(open(os.path.join(d, f)))
        except Exception: return {}
    m, v, c = load('meta.json'), load('verified.json'), load('check_result.json')
    summ = (m.get('summary') or '').replace('\n', ' ').replace('|', '/')
    needs = (m.get('needs') or '').replace('\n', ' ').replace('|', '/')
    sig = c.get('signatures', '').replace('\\"', '"').replace('failing signature: ', '').strip(' ;')
    rows.append('| %s | %s | %s | demo %s/%s | %s | %s |' % (name, summ[:220], needs[:200], v.get('demo_rc_clean'), v.get('demo_rc_changed'),
                                                           c.get('result', '?'), sig[:160]))
print('| seeded change | what was changed | needs, to manifest | demo rc clean/changed | check | first failing signatures |')
print('|---|---|---|---|---|---|')
print('\n'.join(rows))
