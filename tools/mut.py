#!/venv/bin/python
"""Sensitivity helper.  Never touches /repo: works on a scratch copy that is removed afterwards.

  tools/mut.py <ID> <repo-relative file> <old> <new> [-- extra check args...]
  tools/mut.py <ID> --patch <file.diff> [--patch <more.diff>] [-- extra check args...]

Copies /repo/TidalPy (without __pycache__) to /tmp/mut-<pid>/, applies the textual replacement (first
occurrence; file may be .py or a generated .c, which the build step then recompiles inside the scratch
copy) or the patch (-p1), runs `./check <ID>` with VERIF_REPO pointing at the scratch copy and evidence
redirected to the scratch dir, and reports CAUGHT (rc 1) / MISSED (rc 0) / HARNESS-ERROR (rc 2).
"""
import os, shutil, subprocess, sys, time
args = sys.argv[1:]
extra = []
if '--' in args:
    i = args.index('--'); extra = args[i + 1:]; args = args[:i]
pid = args[0]
scratch = '/tmp/mut-%d' % os.getpid()
os.makedirs(scratch)
try:
    subprocess.run(['rsync', '-a', '--exclude', '__pycache__', '/repo/TidalPy', '/repo/cython_extensions.json',
                    '/repo/setup.py', scratch + '/'], check=True)
    if args[1] == '--patch':
        patches = [args[i + 1] for i in range(1, len(args) - 1) if args[i] == '--patch']
        for pf in patches:
            r = subprocess.run(['patch', '-p1', '-f', '-d', scratch, '-i', os.path.abspath(pf)], capture_output=True, text=True)
            print((r.stdout.strip().splitlines() or [r.stderr.strip()])[-1])
            if r.returncode != 0:
                print('WARNING: patch %s did not apply cleanly (files outside TidalPy/ are expected to be skipped)' % pf)
        desc = 'patch ' + ' + '.join(patches)
    else:
        rel, old, new = args[1:4]
        path = os.path.join(scratch, rel)
        src = open(path).read()
        if old not in src:
            sys.exit('pattern not found in %s' % rel)
        open(path, 'w').write(src.replace(old, new, 1))
        desc = '%s: %r -> %r' % (rel, old, new)
    env = dict(os.environ, VERIF_REPO=scratch, VERIF_EVIDENCE_DIR=scratch + '/evidence', VERIF_OUT_DIR=scratch + '/out')
    t0 = time.time()
    r = subprocess.run(['/verif/check', pid] + extra, cwd='/verif', env=env, capture_output=True, text=True, stdin=subprocess.DEVNULL)
    out = r.stdout + r.stderr
    lines = [l for l in out.splitlines() if any(k in l for k in ('VIOLATION', 'failing signature', 'HARNESS', 'tier=', 'detail:'))]
    print('\n'.join(l[:400] for l in lines[:16]))
    print('MUTANT %s: rc=%d (%.0fs) %s' % ({1: 'CAUGHT', 0: 'MISSED'}.get(r.returncode, 'HARNESS-ERROR'), r.returncode, time.time() - t0, desc))
    if r.returncode not in (0, 1):
        print(out[-2500:])
finally:
    sys.path.insert(0, '/verif')
    try:
        os.environ['VERIF_REPO'] = scratch
        from vlib import env as venv
        venv.REPO = scratch
        key = venv.source_hash()
        venv._cache_key = None
        venv.REPO = '/repo'
        if key != venv.source_hash():     # a mutation of generated C leaves the .py hash equal to /repo's: keep the shared cache
            shutil.rmtree(os.path.join(venv.NBCACHE, key), ignore_errors=True)
    except Exception as e:
        print('cache cleanup:', e)
    shutil.rmtree(scratch, ignore_errors=True)
