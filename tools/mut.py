#!/venv/bin/python
"""Sensitivity helper: tools/mut.py <ID> <repo-relative file> <old> <new> [extra check args...]
Replaces the first occurrence of <old> by <new> in /repo/<file>, runs ./check <ID>, restores the file
(byte-exact copy kept in memory), and prints whether the check raised an alarm."""
import os, subprocess, sys, time
pid, rel, old, new = sys.argv[1:5]
extra = sys.argv[5:]
path = os.path.join('/repo', rel)
orig = open(path, 'rb').read()
st = os.stat(path)
if old.encode() not in orig:
    sys.exit('pattern not found in %s' % rel)
try:
    open(path, 'wb').write(orig.replace(old.encode(), new.encode(), 1))
    t0 = time.time()
    r = subprocess.run(['./check', pid] + extra, cwd='/verif', capture_output=True, text=True, stdin=subprocess.DEVNULL)
    out = r.stdout + r.stderr
    lines = [l for l in out.splitlines() if 'VIOLATION' in l or 'failing signature' in l or 'HARNESS' in l or 'tier=' in l]
    print('\n'.join(lines[:14]))
    print('MUTANT %s: rc=%d (%.0fs) %r -> %r' % ('CAUGHT' if r.returncode == 1 else 'MISSED' if r.returncode == 0 else 'HARNESS-ERROR', r.returncode, time.time() - t0, old, new))
    if r.returncode == 2:
        print(out[-1500:])
finally:
    open(path, 'wb').write(orig)
    os.utime(path, ns=(st.st_atime_ns, st.st_mtime_ns))
