#!/bin/sh
# tools/own_mutants.sh : re-run the mutations used while building C01-C06 and C17 (generated C and .py); every line must say CAUGHT
m() { r=$(/verif/tools/mut.py "$@" 2>&1 | grep "^MUTANT" | cut -c1-140); echo "$1 $r"; }
m C01 TidalPy/RadialSolver/love.c "(__Pyx_CREAL(__pyx_v_y5) - 1.0)" "(__Pyx_CREAL(__pyx_v_y5))" -- --cases 320
m C01 TidalPy/RadialSolver/derivatives/odes.c "__pyx_t_double_complex_from_parts(12., 0)" "__pyx_t_double_complex_from_parts(11., 0)" -- --cases 320
m C02 TidalPy/RadialSolver/boundaries/boundaries.c "(__pyx_v_surface_matrix_ptr[1]) = (__pyx_v_uppermost_y_per_solution_ptr[((0 * __pyx_v_max_num_y) + 3)]);" "(__pyx_v_surface_matrix_ptr[1]) = (__pyx_v_uppermost_y_per_solution_ptr[((0 * __pyx_v_max_num_y) + 5)]);" -- --cases 240
m C02 TidalPy/RadialSolver/interfaces/interfaces.c "__pyx_v_coeff_3 = __Pyx_c_sum_double(__Pyx_c_prod_double(__pyx_v_frac_1, __pyx_v_coeff_1), __Pyx_c_prod_double(__pyx_v_frac_2, __pyx_v_coeff_2));" "__pyx_v_coeff_3 = __Pyx_c_prod_double(__pyx_v_frac_1, __pyx_v_coeff_1);" -- --cases 240
m C02 TidalPy/RadialSolver/collapse/collapse.c "(__pyx_v_solution_ptr[__pyx_t_3]) = __Pyx_c_sum_double((__pyx_v_solution_ptr[__pyx_t_3]), __Pyx_c_prod_double(" "(__pyx_v_solution_ptr[__pyx_t_3]) = (__Pyx_c_prod_double(" -- --cases 240
m C03 TidalPy/utilities/dimensions/nondimensional.c "__pyx_v_length_conversion3 = pow(__pyx_v_length_conversion, 3.0);" "__pyx_v_length_conversion3 = pow(__pyx_v_length_conversion, 2.0);" -- --cases 160
m C03 TidalPy/RadialSolver/solver.c "* __pyx_v_bulk_density_to_use) / 3.);" "* __pyx_v_bulk_density_to_use) / 2.);" -- --cases 160
m C03 TidalPy/RadialSolver/solver.c "__pyx_v_num_ys, __pyx_v_num_output_ys, __pyx_v_ytype_i, __pyx_v_layer_type" "__pyx_v_num_ys, __pyx_v_num_output_ys, 0, __pyx_v_layer_type" -- --cases 160
m C04 TidalPy/RadialSolver/starting/kamata.c "__pyx_t_double_complex_from_parts((-__pyx_v_density), 0), __pyx_v_f_k2_pos), __pyx_v_alpha2), __pyx_v_k2_pos), __Pyx_c_prod_double(" "__pyx_t_double_complex_from_parts((__pyx_v_density), 0), __pyx_v_f_k2_pos), __pyx_v_alpha2), __pyx_v_k2_pos), __Pyx_c_prod_double(" -- --cases 160
m C04 TidalPy/RadialSolver/starting/common.c "__pyx_v_l2_3 = (__pyx_v_l2 + 3.0);" "__pyx_v_l2_3 = (__pyx_v_l2 + 3.5);" -- --cases 160
m C04 TidalPy/RadialSolver/derivatives/odes.c "__pyx_v_dynamic_term = ((((-__pyx_v_self->__pyx_base.frequency_to_use) * __pyx_v_self->__pyx_base.frequency_to_use) * __pyx_v_self->__pyx_base.density) * __pyx_v_radius);" "__pyx_v_dynamic_term = 0.0;" -- --cases 160
m C05 TidalPy/radial_solver/sensitivity.py "((4. / 3.) * r2 / (np.abs(bulk + (4. / 3.) * shear)**2) *" "((1. / 3.) * r2 / (np.abs(bulk + (4. / 3.) * shear)**2) *" -- --cases 160
m C05 TidalPy/tides/multilayer/heating.py "portion_to_be_upgraded = (7. * eccentricity**2 * orbital_frequency)" "portion_to_be_upgraded = (7.5 * eccentricity**2 * orbital_frequency)" -- --cases 160
m C05 TidalPy/radial_solver/sensitivity.py "ll2m1lp2 = order_l * (order_l * order_l - 1.) * (order_l + 2.)" "ll2m1lp2 = order_l * (order_l * order_l - 1.) * (order_l + 1.)" -- --cases 160
m C05 TidalPy/radial_solver/sensitivity.py "((llp1 * r2 * y4_abs2 / (np.abs(shear)**2)) + (ll2m1lp2 * y3_abs2))" "((llp1 * r2 * y4_abs2 / (np.abs(shear)**2)) + 0.9 * (ll2m1lp2 * y3_abs2))" -- --cases 160
m C06 TidalPy/RadialSolver/solver.c "  if (__pyx_v_self->success) {" "  if (1) {" -- --cases 320
m C17 TidalPy/utilities/conversions/conversions.py "days = (2. * np.pi / radians_per_second) / 86400." "days = (2. * np.pi / radians_per_second) / 86164." -- --cases 3000
m C17 TidalPy/utilities/conversions/conversions.py "**(1 / 3)" "**(0.333)" -- --cases 3000
m C17 TidalPy/utilities/conversions/conversions.py "return myrs * 3.154e13" "return myrs * 3.156e13" -- --cases 3000
m C17 TidalPy/structures/orbit/base.py "orbital_period = rads2days(orbital_frequency)" "orbital_period = rads2days(orbital_frequency) * 1.0000001" -- --cases 3000
