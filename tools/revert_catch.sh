#!/bin/sh
# tools/revert_catch.sh : for every `fix:` commit, run the owning check against the tree with that fix reverted
# (fixes/revert-<commit>.diff); every line must say CAUGHT.  Output: out/revert_catch.log
while read commit prop; do
  r=$(/verif/tools/mut.py $prop --patch /verif/fixes/revert-$commit.diff 2>&1 | grep "^MUTANT" | awk '{print $2}' | tr -d ':')
  echo "$commit $prop $r"
done <<LIST
a47eb3a C12
b813e7b C11
2854a61 C13
7baff3f C13
03aad26 C16
407b6c0 C19
e71b860 C18
f86d9b1 C18
ae3bd3c C18
94c69eb C18
a24778e C09
09f77d1 C14
d1f956e C14
88808dd C14
87d2e1c C16
44466da C16
41f7181 C19
35fe97c C10
2e2c7f6 C10
de31ebe C13
f6d277f C13
LIST
