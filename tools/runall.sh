#!/bin/sh
# tools/runall.sh <seed> [tier] : run every registered check once, print one summary line each
seed=${1:-1}; tier=${2:-quick}
for c in $(cat /verif/props/REGISTERED); do
  s=$(date +%s)
  out=$(VERIF_SEED=$seed /verif/check $c --tier $tier 2>&1); rc=$?
  e=$(( $(date +%s) - s ))
  echo "$c seed=$seed rc=$rc ${e}s $(echo "$out" | grep "tier=" | sed 's/.*evaluations/evaluations/')"
  echo "$out" | grep "VIOLATION\|HARNESS\|failing signature" | cut -c1-250
done
