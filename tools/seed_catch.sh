#!/bin/sh
# tools/seed_catch.sh <ID> <n> [extra check args]: run the owning check against the seeded change, record the outcome
id=$1; n=$2; shift 2; d=/verif/seeded/$id-$n
args="--patch $d/patch.diff"; [ -s $d/c_patch.diff ] && args="$args --patch $d/c_patch.diff"
out=$(/verif/tools/mut.py $id $args -- "$@" 2>&1)
res=$(echo "$out" | grep "^MUTANT" | awk '{print $2}' | tr -d ':')
sig=$(echo "$out" | grep "failing signature" | head -3 | cut -c1-200 | tr '\n' ';' | sed 's/"/\\"/g')
echo "{\"check\": \"$id\", \"result\": \"$res\", \"args\": \"$*\", \"signatures\": \"$sig\"}" > $d/check_result.json
echo "$id-$n: $res  $sig" | cut -c1-300
