#!/bin/sh
# tools/seed_catch_all.sh [ID ...] : run the owning check against every seeded change of the given properties (default: all),
# three at a time; writes seeded/<ID>-<n>/check_result.json and prints one line each
ids="$*"; [ -z "$ids" ] && ids=$(cat /verif/props/REGISTERED)
for id in $ids; do for d in /verif/seeded/$id-*; do [ -d "$d" ] && echo "$id $(basename $d | sed 's/.*-//')"; done; done | \
  xargs -P 3 -L 1 sh -c '/verif/tools/seed_catch.sh $0 $1 | tail -1 | cut -c1-160'
