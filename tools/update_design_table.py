#!/venv/bin/python
"""Replace the seeded-change table in DESIGN.md (section 6.3) by the current output of tools/mktable.py."""
import subprocess
p = '/verif/DESIGN.md'
s = open(p).read()
head = '| seeded change | what was changed | needs, to manifest | demo rc clean/changed | check | first failing signatures |'
i = s.index(head)
j = i
lines = s[i:].split('\n')
n = 0
for ln in lines:
    if ln.startswith('|'):
        n += 1
    else:
        break
end = i + sum(len(x) + 1 for x in lines[:n])
table = subprocess.run(['/venv/bin/python', '/verif/tools/mktable.py'], capture_output=True, text=True).stdout
open(p, 'w').write(s[:i] + table + s[end:])
print('replaced %d table lines by %d' % (n, table.count('\n')))
