#!/bin/sh
# tools/verify_seed.sh <ID> <n> [full]  -- independent confirmation of a seeded change delivered in /tmp/seed/<ID>.out/<n>/
#  1. fresh scratch worktree of /repo HEAD (+ binaries), demo.py must PASS there;
#  2. apply patch.diff (+ c_patch.diff, rebuild extension), demo.py must FAIL;
#  3. the tests named in meta.json (or the full suite with `full`) must pass on the changed tree;
#  4. copies patch, demo, meta into /verif/seeded/<ID>-<n>/ and appends what was run to meta.json -> verified.json
id=$1; n=$2; src=/tmp/seed/$id.out/$n; wt=/tmp/vs-$id-$n
[ -f $src/patch.diff ] || { echo "no patch in $src"; exit 2; }
rm -rf $wt; git -C /repo worktree prune; git -C /repo worktree add -q --detach $wt HEAD || exit 2
(cd /repo && rsync -a --include='*/' --include='*.c' --include='*.so' --exclude='*' --prune-empty-dirs TidalPy $wt/)
cd $wt
export OMP_NUM_THREADS=1 NUMBA_NUM_THREADS=1
timeout 1200 /venv/bin/python $src/demo.py </dev/null >$wt/.demo_clean.log 2>&1; rc_clean=$?
git apply $src/patch.diff 2>/dev/null || patch -p1 -f < $src/patch.diff >/dev/null
if [ -s $src/c_patch.diff ]; then patch -p1 -f < $src/c_patch.diff >/dev/null; /venv/bin/python /tmp/seed/rebuild_ext.py $wt | tail -1; fi
find . -name __pycache__ -prune -exec rm -rf {} + 2>/dev/null
timeout 1200 /venv/bin/python $src/demo.py </dev/null >$wt/.demo_changed.log 2>&1; rc_changed=$?
echo "$id-$n demo: clean rc=$rc_clean changed rc=$rc_changed"
tests_rc=skipped
if [ "$3" = "full" ]; then
  timeout 3000 /venv/bin/python -m pytest -q -p no:cacheprovider --timeout=900 -n 6 --deselect Tests/Test_Utilities/Test_Exoplanets >$wt/.tests.log 2>&1; tests_rc=$?
  tail -1 $wt/.tests.log
fi
mkdir -p /verif/seeded/$id-$n
cp $src/patch.diff $src/demo.py $src/meta.json /verif/seeded/$id-$n/ 2>/dev/null
[ -s $src/c_patch.diff ] && cp $src/c_patch.diff /verif/seeded/$id-$n/
tail -5 $wt/.demo_changed.log > /verif/seeded/$id-$n/demo_output_with_change.txt
echo "{\"demo_rc_clean\": $rc_clean, \"demo_rc_changed\": $rc_changed, \"full_suite_rc\": \"$tests_rc\", \"base\": \"$(git -C /repo log --format=%h -1)\"}" > /verif/seeded/$id-$n/verified.json
cd /; git -C /repo worktree remove --force $wt
