"""Build step (DESIGN 1.2): make the compiled extensions reflect /repo's working tree as far as the
sandbox allows.  No Cython is installed anywhere, so:

  * Cython importable          -> `setup.py build_ext --inplace`
  * generated .c newer than .so -> recompile with gcc and the flags of setup.py
  * .pyx/.pxd newer than .so and .c not regenerated -> cannot rebuild: reported as stale

Returns a dict that goes into the evidence file.
"""
import json
import os
import subprocess
import sys
import sysconfig
import time

from . import env


def _ext_suffix():
    return sysconfig.get_config_var('EXT_SUFFIX')


def _include_dirs(py):
    out = subprocess.run(
        [py, '-c',
         'import sysconfig, numpy, os, CyRK;'
         'print(sysconfig.get_paths()["include"]);print(numpy.get_include());'
         'print(os.path.dirname(CyRK.__file__));'
         '[print(d) for d, _, fs in os.walk(os.path.dirname(CyRK.__file__)) if any(f.endswith((".c", ".h", ".pxd")) for f in fs)]'],
        capture_output=True, text=True, stdin=subprocess.DEVNULL, check=True).stdout.split('\n')
    return [x for x in out if x]


def build(verbose=True):
    t0 = time.time()
    info = {'rebuilt': [], 'stale_extensions': [], 'cython': False}
    spec_path = os.path.join(env.REPO, 'cython_extensions.json')
    with open(spec_path) as fh:
        spec = json.load(fh)
    suffix = _ext_suffix()
    try:
        import Cython  # noqa
        have_cython = True
    except Exception:
        have_cython = False
    info['cython'] = have_cython
    todo_c = []
    any_pyx_newer = False
    for key, ext in spec.items():
        src = os.path.join(env.REPO, *ext['sources'][0])
        base = src[:-4]
        c_file = base + '.c'
        so_file = base + suffix
        pxd = base + '.pxd'
        so_m = os.path.getmtime(so_file) if os.path.exists(so_file) else 0.0
        c_m = os.path.getmtime(c_file) if os.path.exists(c_file) else 0.0
        src_m = max(os.path.getmtime(p) for p in (src, pxd) if os.path.exists(p))
        if src_m > so_m and src_m > c_m:
            any_pyx_newer = True
            if not have_cython:
                info['stale_extensions'].append(ext['name'])
        if c_m > so_m:
            todo_c.append((ext, c_file, so_file))
    if have_cython and (any_pyx_newer or todo_c):
        r = subprocess.run([env.PY, 'setup.py', 'build_ext', '--inplace'], cwd=env.REPO,
                           capture_output=True, text=True, stdin=subprocess.DEVNULL)
        if r.returncode != 0:
            raise RuntimeError('build_ext failed:\n' + r.stdout[-2000:] + r.stderr[-2000:])
        info['rebuilt'].append('setup.py build_ext --inplace')
    elif todo_c:
        incs = _include_dirs(env.PY)
        procs = []
        for ext, c_file, so_file in todo_c:
            cmd = ['gcc', '-shared', '-fPIC', '-O3', '-fopenmp', '-w',
                   '-DNPY_NO_DEPRECATED_API=NPY_1_7_API_VERSION']
            for i in incs:
                cmd += ['-I', i]
            for d in ext['include_dirs']:
                cmd += ['-I', os.path.join(env.REPO, *d)]
            cmd += ['-I', os.path.dirname(c_file), c_file, '-o', so_file + '.tmp', '-lm']
            procs.append((ext['name'], so_file,
                          subprocess.Popen(cmd, stdout=subprocess.PIPE, stderr=subprocess.STDOUT,
                                           stdin=subprocess.DEVNULL, text=True)))
        for name, so_file, p in procs:
            out, _ = p.communicate()
            if p.returncode != 0:
                raise RuntimeError('gcc failed for %s:\n%s' % (name, out[-3000:]))
            os.replace(so_file + '.tmp', so_file)
            info['rebuilt'].append(name)
    if verbose:
        for n in info['stale_extensions']:
            print('WARNING stale-extension %s: .pyx/.pxd newer than compiled binary and no Cython '
                  'available; the check exercises the old binary' % n, flush=True)
        if info['rebuilt']:
            print('build: rebuilt %s' % ', '.join(info['rebuilt']), flush=True)
    info['build_s'] = round(time.time() - t0, 3)
    return info


if __name__ == '__main__':
    env.setup()
    print(json.dumps(build(), indent=1))
    sys.exit(0)
