"""Process environment for every harness process (parent, shards, workers).

Must be imported (and `setup()` called) before TidalPy or numba are imported.
See DESIGN.md section 0 for the reasons behind every line.
"""
import hashlib
import os
import shutil
import sys

VERIF = os.path.dirname(os.path.dirname(os.path.abspath(__file__)))
REPO = os.environ.get('VERIF_REPO', '/repo')
PY = '/venv/bin/python'
DEPS = os.path.join(VERIF, '.deps')
NBCACHE = os.path.join(VERIF, '.nbcache')

_cache_key = None


def source_hash():
    """sha1 over the contents of every .py file under REPO/TidalPy (sorted by path)."""
    global _cache_key
    if _cache_key is not None:
        return _cache_key
    h = hashlib.sha1()
    root = os.path.join(REPO, 'TidalPy')
    paths = []
    for d, dn, fn in os.walk(root):
        dn[:] = [x for x in dn if x != '__pycache__']
        for f in fn:
            if f.endswith('.py'):
                paths.append(os.path.join(d, f))
    for p in sorted(paths):
        h.update(os.path.relpath(p, root).encode())
        with open(p, 'rb') as fh:
            h.update(fh.read())
    _cache_key = h.hexdigest()[:16]
    return _cache_key


def setup(prune=False):
    """Prepare os.environ / sys.path / sys.modules. Idempotent."""
    os.environ.setdefault('OMP_NUM_THREADS', '1')
    os.environ.setdefault('NUMBA_NUM_THREADS', '1')
    os.environ.setdefault('OPENBLAS_NUM_THREADS', '1')
    os.environ.setdefault('MKL_NUM_THREADS', '1')
    os.environ['TIDALPY_VERIF'] = '1'
    os.environ['PYTHONHASHSEED'] = os.environ.get('PYTHONHASHSEED', '0')
    key = source_hash()
    cache_dir = os.path.join(NBCACHE, key)
    os.environ['NUMBA_CACHE_DIR'] = cache_dir
    if prune and os.path.isdir(NBCACHE):
        for d in os.listdir(NBCACHE):
            if d != key:
                shutil.rmtree(os.path.join(NBCACHE, d), ignore_errors=True)
    os.makedirs(cache_dir, exist_ok=True)
    # Julia prompt trap (DESIGN 0): make `from diffeqpy import de` raise ImportError at once.
    sys.modules.setdefault('diffeqpy', None)
    for p in (DEPS, VERIF):
        if p not in sys.path:
            sys.path.insert(0, p)
    if REPO not in sys.path:
        sys.path.insert(1, REPO)
    make_numba_cache_process_safe()
    try:
        devnull = os.open(os.devnull, os.O_RDONLY)
        os.dup2(devnull, 0)
        os.close(devnull)
    except OSError:
        pass
    return key


def make_numba_cache_process_safe():
    """numba's on-disk cache (numba/core/caching.py IndexDataCacheFile.save: load index -> pick the first unused data
    file number -> write index -> write data, no lock) is not safe when several shard processes compile *different*
    signatures of the same function into a cold cache at the same time: two of them pick the same data file name, one
    index wins, and later loads return machine code compiled for another signature (observed by the C10 work: sporadic
    bogus AssertionErrors in cold 16-shard runs, never single-process, and the corruption persists in the directory).
    Serialise save (exclusive) and load (shared) per index file with flock."""
    try:
        import fcntl
        from numba.core import caching
    except Exception:
        return
    cls = caching.IndexDataCacheFile
    if getattr(cls, '_verif_locked', False):
        return
    orig_save, orig_load = cls.save, cls.load

    def _locked(self, mode, fn, *args):
        try:
            fd = os.open(self._index_path + '.lock', os.O_CREAT | os.O_RDWR, 0o644)
        except OSError:
            return fn(self, *args)
        try:
            fcntl.flock(fd, mode)
            return fn(self, *args)
        finally:
            try:
                fcntl.flock(fd, fcntl.LOCK_UN)
            finally:
                os.close(fd)

    def save(self, key, data):
        return _locked(self, fcntl.LOCK_EX, orig_save, key, data)

    def load(self, key):
        return _locked(self, fcntl.LOCK_SH, orig_load, key)

    cls.save = save
    cls.load = load
    cls._verif_locked = True


def quiet_tidalpy():
    """Import TidalPy with its console logger turned down."""
    import logging
    import TidalPy  # noqa
    logging.getLogger('TidalPy').setLevel(logging.ERROR)
    for h in logging.getLogger('TidalPy').handlers:
        h.setLevel(logging.ERROR)
    return TidalPy
