"""Process environment for every harness process (parent, shards, workers).

Must be imported (and `setup()` called) before TidalPy or numba are imported.
See DESIGN.md section 0 for the reasons behind every line.
"""
import hashlib
import os
import shutil
import sys

VERIF = os.path.dirname(os.path.dirname(os.path.abspath(__file__)))
REPO = os.environ.get('VERIF_REPO', '/repo')
PY = '/venv/bin/python'
DEPS = os.path.join(VERIF, '.deps')
NBCACHE = os.path.join(VERIF, '.nbcache')

_cache_key = None


def source_hash():
    """sha1 over the contents of every .py file under REPO/TidalPy (sorted by path)."""
    global _cache_key
    if _cache_key is not None:
        return _cache_key
    h = hashlib.sha1()
    root = os.path.join(REPO, 'TidalPy')
    paths = []
    for d, dn, fn in os.walk(root):
        dn[:] = [x for x in dn if x != '__pycache__']
        for f in fn:
            if f.endswith('.py'):
                paths.append(os.path.join(d, f))
    for p in sorted(paths):
        h.update(os.path.relpath(p, root).encode())
        with open(p, 'rb') as fh:
            h.update(fh.read())
    _cache_key = h.hexdigest()[:16]
    return _cache_key


def setup(prune=False):
    """Prepare os.environ / sys.path / sys.modules. Idempotent."""
    os.environ.setdefault('OMP_NUM_THREADS', '1')
    os.environ.setdefault('NUMBA_NUM_THREADS', '1')
    os.environ.setdefault('OPENBLAS_NUM_THREADS', '1')
    os.environ.setdefault('MKL_NUM_THREADS', '1')
    os.environ['TIDALPY_VERIF'] = '1'
    os.environ['PYTHONHASHSEED'] = os.environ.get('PYTHONHASHSEED', '0')
    key = source_hash()
    # One numba cache directory per (source hash, process role): every directory has a single writer.  A cache shared by the
    # 16 shard processes of a cold run ended up - rarely, but reproducibly kept once it happened - with an entry whose machine
    # code segfaults or raises bogus assertions when loaded (index consistent, data file bad; never seen single-process;
    # flock on the index and per-function compile locks did not prevent it).  Roles: '<ID>-parent', '<ID>-shardNN', '<ID>-worker'.
    role = os.environ.get('VERIF_CACHE_ROLE', 'main')
    cache_dir = os.path.join(NBCACHE, key, role)
    os.environ['NUMBA_CACHE_DIR'] = cache_dir
    if prune and os.path.isdir(NBCACHE):
        for d in os.listdir(NBCACHE):
            if d != key:
                shutil.rmtree(os.path.join(NBCACHE, d), ignore_errors=True)
    os.makedirs(cache_dir, exist_ok=True)
    # Julia prompt trap (DESIGN 0): make `from diffeqpy import de` raise ImportError at once.
    sys.modules.setdefault('diffeqpy', None)
    for p in (DEPS, VERIF):
        if p not in sys.path:
            sys.path.insert(0, p)
    if REPO not in sys.path:
        sys.path.insert(1, REPO)
    make_numba_cache_process_safe()
    try:
        devnull = os.open(os.devnull, os.O_RDONLY)
        os.dup2(devnull, 0)
        os.close(devnull)
    except OSError:
        pass
    return key


def make_numba_cache_process_safe():
    """numba's on-disk cache (numba/core/caching.py IndexDataCacheFile.save: load index -> pick the first unused data
    file number -> write index -> write data, no lock) is not safe when several shard processes compile *different*
    signatures of the same function into a cold cache at the same time: two of them pick the same data file name, one
    index wins, and later loads return machine code compiled for another signature (observed by the C10 work: sporadic
    bogus AssertionErrors in cold 16-shard runs, never single-process, and the corruption persists in the directory).
    Serialise save (exclusive) and load (shared) per index file with flock."""
    try:
        import fcntl
        from numba.core import caching
    except Exception:
        return
    cls = caching.IndexDataCacheFile
    if getattr(cls, '_verif_locked', False):
        return
    orig_save, orig_load = cls.save, cls.load

    def _locked(self, mode, fn, *args):
        try:
            fd = os.open(self._index_path + '.lock', os.O_CREAT | os.O_RDWR, 0o644)
        except OSError:
            return fn(self, *args)
        try:
            fcntl.flock(fd, mode)
            return fn(self, *args)
        finally:
            try:
                fcntl.flock(fd, fcntl.LOCK_UN)
            finally:
                os.close(fd)

    def save(self, key, data):
        return _locked(self, fcntl.LOCK_EX, orig_save, key, data)

    def load(self, key):
        return _locked(self, fcntl.LOCK_SH, orig_load, key)

    cls.save = save
    cls.load = load
    cls._verif_locked = True
    # Second layer: serialise whole compilations across processes.  Even with the index lock a few percent of shard
    # processes in cold 16-shard runs ended up with a corrupt `calculate_terms` (bogus AssertionError / IndexError for the rest
    # of that process; never single-process, never warm; root cause unknown).  With one process compiling a given function at a time the
    # others find the finished entry in the cache when their turn comes (Dispatcher.compile looks in the cache first).
    try:
        import hashlib as _hl
        from numba.core import dispatcher
        held = {}
        orig_compile = dispatcher.Dispatcher.compile

        def compile_locked(self, sig):
            # one lock per jitted function: different functions still compile in parallel, one function is compiled by one
            # process at a time (callers take their lock before their callees' => no cycles for the DAG-shaped call graph)
            try:
                name = '%s.%s' % (self.py_func.__module__, self.py_func.__qualname__)
            except Exception:
                name = repr(self)
            if name in held:
                return orig_compile(self, sig)
            fd = None
            try:
                lock_dir = os.path.join(os.environ.get('NUMBA_CACHE_DIR') or '/tmp', 'verif-locks')
                os.makedirs(lock_dir, exist_ok=True)
                fd = os.open(os.path.join(lock_dir, _hl.sha1(name.encode()).hexdigest()[:20]), os.O_CREAT | os.O_RDWR, 0o644)
                fcntl.flock(fd, fcntl.LOCK_EX)
            except OSError:
                fd = None
            held[name] = fd
            try:
                return orig_compile(self, sig)
            finally:
                held.pop(name, None)
                if fd is not None:
                    try:
                        fcntl.flock(fd, fcntl.LOCK_UN)
                    finally:
                        os.close(fd)

        dispatcher.Dispatcher.compile = compile_locked
    except Exception:
        pass


def quiet_tidalpy():
    """Import TidalPy with its console logger turned down."""
    import logging
    import TidalPy  # noqa
    logging.getLogger('TidalPy').setLevel(logging.ERROR)
    for h in logging.getLogger('TidalPy').handlers:
        h.setLevel(logging.ERROR)
    return TidalPy
