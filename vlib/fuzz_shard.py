"""A coverage-guided shard of a check: `python -m vlib.fuzz_shard <module> <tier> <seed> <shard> <nshards> <ncases> <out>`.

Same contract and output as vlib/shard.py, but the bytes that drive the property module's Hypothesis strategy come
from libFuzzer (atheris) instead of Hypothesis' own PRNG: `given(strategy)(f).hypothesis.fuzz_one_input` turns a byte
string into one generated case, and the pure-Python parts of the repository named in the module's
`FUZZ['instrument']` (module-name prefixes; they must not contain numba-jitted functions, whose byte code numba
reads itself) are imported under `atheris.instrument_imports`, so that libFuzzer keeps and mutates the inputs that
reach new branches / comparisons of the code under test.  The oracle is the module's ordinary `evaluate`; failures are
collected (never raised), so the campaign goes on behind the first failure, exactly like the random shards.

Determinism: `-seed=<VERIF_SEED*1000+500+shard>`, fresh empty corpus, fixed number of evaluations; libFuzzer pins a
campaign only approximately - the reproducible unit is the JSON case written to the replay file, which bypasses both
libFuzzer and Hypothesis.
"""
import importlib
import os
import re
import sys
import tempfile
import time

from . import env

env.setup()

import atheris  # noqa: E402

MODNAME = sys.argv[1]
_spec = importlib.util.find_spec('props.' + MODNAME)
# the property module must be imported AFTER the instrumented imports; read FUZZ['instrument'] without importing it
_src = open(_spec.origin).read()
_m = re.search(r"^FUZZ\s*=\s*(\{.*?\})\s*$", _src, re.M | re.S)
FUZZ = eval(_m.group(1)) if _m else {}      # a literal dict in our own module
def _instrument(modnames):
    """atheris.instrument_imports works per top-level package only (it would also rewrite the byte code of numba-jitted
    functions); instead import normally and instrument, in place, the plain Python functions and methods defined in the
    listed modules."""
    import types
    n = 0
    for name in modnames:
        mod = importlib.import_module(name)

        def funcs_of(ns, owner):
            for attr, obj in list(vars(ns).items()):
                cands = []
                if isinstance(obj, types.FunctionType):
                    cands = [obj]
                elif isinstance(obj, (staticmethod, classmethod)):
                    cands = [obj.__func__]
                elif isinstance(obj, property):
                    cands = [f for f in (obj.fget, obj.fset, obj.fdel) if f is not None]
                elif isinstance(obj, type) and owner is mod and obj.__module__ == name:
                    yield from funcs_of(obj, obj)
                for f in cands:
                    if isinstance(f, types.FunctionType) and f.__module__ == name:
                        yield f
        seen = set()
        for f in funcs_of(mod, mod):
            if id(f.__code__) in seen:
                continue
            try:
                atheris.instrument_func(f)
                seen.add(id(f.__code__))
                n += 1
            except Exception as e:  # noqa
                print('not instrumented: %s.%s (%s)' % (name, f.__qualname__, e))
    return n


N_INSTRUMENTED = _instrument(FUZZ.get('instrument', []))
print('instrumented %d functions in %d modules' % (N_INSTRUMENTED, len(FUZZ.get('instrument', []))))

from hypothesis import HealthCheck, given, settings  # noqa: E402
from hypothesis.internal.conjecture.providers import BytestringProvider  # noqa: E402


def _draw_integer(self, min_value=None, max_value=None, *, weights=None, shrink_towards=0):
    """Hypothesis 6.168's BytestringProvider.draw_integer compares the raw drawn bits with [min_value, max_value] without
    adding min_value, so a range such as integers(2, 3) (drawn by every fixed_dictionaries with >= 4 keys, which shuffles
    its keys) can never be satisfied and every buffer ends in an overrun.  Same scheme with the offset applied."""
    if min_value is None and max_value is None:
        min_value, max_value = -(2 ** 127), 2 ** 127 - 1
    elif min_value is None:
        min_value = max_value - 2 ** 64
    elif max_value is None:
        max_value = min_value + 2 ** 64
    if min_value == max_value:
        return min_value
    bits = (max_value - min_value).bit_length()
    value = min_value + self._draw_bits(bits)
    while not (min_value <= value <= max_value):
        value = min_value + self._draw_bits(bits)
    return value


BytestringProvider.draw_integer = _draw_integer

from .result import HarnessError, safe_evaluate  # noqa: E402
from .shard import Aggregator  # noqa: E402


def main(argv):
    modname, tier, seed_s, shard_s, nshards_s, ncases_s, out = argv
    seed_v, shard, ncases = int(seed_s), int(shard_s), int(ncases_s)
    t0 = time.time()
    prop = importlib.import_module('props.' + modname)
    agg = Aggregator()
    extra = {'shard': shard, 'harness_error': None, 'fuzz': True, 'fixed_cases': 0, 'fuzz_inputs': 0,
             'instrumented_functions': N_INSTRUMENTED}
    state = {'last_dump': time.time()}

    def finish(code=0):
        extra['wall_s'] = round(time.time() - t0, 3)
        agg.dump(out, extra)
        sys.stdout.flush()
        sys.stderr.flush()
        os._exit(code)

    try:
        if hasattr(prop, 'shard_setup'):
            prop.shard_setup(tier)
        strat = prop.strategy(tier)

        @settings(database=None, deadline=None, suppress_health_check=list(HealthCheck))
        @given(strat)
        def run_one(case):
            agg.add(case, safe_evaluate(prop, case), 'fuzzed')

        fuzz_one = run_one.hypothesis.fuzz_one_input

        def target(data):
            extra['fuzz_inputs'] += 1
            try:
                fuzz_one(data)
            except HarnessError as e:
                extra['harness_error'] = str(e)[-3000:]
                finish()
            except BaseException as e:  # noqa
                import traceback
                extra['harness_error'] = ''.join(traceback.format_exception(type(e), e, e.__traceback__))[-3000:]
                finish()
            if agg.evaluations >= ncases or extra['fuzz_inputs'] >= 50 * ncases:
                finish()
            if time.time() - state['last_dump'] > 60:
                state['last_dump'] = time.time()
                extra['wall_s'] = round(time.time() - t0, 3)
                agg.dump(out, extra)

        corpus = tempfile.mkdtemp(prefix='corpus-', dir=os.path.dirname(out))
        args = [sys.argv[0], '-seed=%d' % (seed_v * 1000 + 500 + shard), '-max_len=%d' % FUZZ.get('max_len', 4096),
                '-timeout=%d' % FUZZ.get('timeout', 600), '-rss_limit_mb=0', '-print_final_stats=1',
                '-len_control=0', '-verbosity=1', corpus]
        atheris.Setup(args, target, enable_python_coverage=True)
        atheris.Fuzz()
    except SystemExit:
        raise
    except HarnessError as e:
        extra['harness_error'] = str(e)[-3000:]
    except BaseException as e:  # noqa
        import traceback
        extra['harness_error'] = ''.join(traceback.format_exception(type(e), e, e.__traceback__))[-3000:]
    finish()


if __name__ == '__main__':
    main(sys.argv[1:])
