"""Driver for one run of a TidalPy multiprocessing study (property C18).

    python -m vlib.mp_driver <spec.json>

Runs `TidalPy.utilities.multiprocessing.multiprocessing_run` once, in its own session / process group
(the caller starts it with `start_new_session=True`, stdin=/dev/null), optionally with fault injection,
and writes what the call returned to `spec['out']` (JSON, atomically).  The caller (props/c18_mp_restart.py)
owns the scenario; this file owns

  * `study_function` - the function executed for every case of the study.  It lives in this importable
    module so that dill/pathos pickle it by reference.  It appends one line to a per-case counter
    file OUTSIDE the study directory (O_APPEND, one write) and returns {'v': f(x, y, ...), 'args': inputs}.
  * the fault injection: proxies for the names `print`, `open`, `os`, `np` *inside the module under test*
    (`TidalPy.utilities.multiprocessing.multiprocessing`), installed before the pool forks.  pathos /
    multiprocess use the `fork` start method here and dill pickles the nested `func_to_use` with its
    `__globals__` by reference to the module dictionary, so the workers see the proxies (the driver
    checks both facts and reports `inject_check` in its output; the property's selftest asserts them).
    When the worker that handles case k reaches step s the proxy waits `delay_ms` (the other workers
    go on: that is the sampled schedule dimension) and sends SIGKILL to the whole process group -
    study parent, every pool worker, resource tracker - never to a single worker (a pool that lost one
    worker would make `pool.map` wait forever, which is an artefact and not the scenario of C18).

Header kills (HEADER_STEPS) strike in the study parent while it writes the header of tpy_mp.log, before the pool
exists; `kill.case` then only selects how many input lines a header_mid_inputs cut leaves (header_lines()).

Spec keys: dir, study_name, inputs [[name, nice, start, end, scale, must_include, n, as_tuple]], pool,
counter_dir, raise_cases [int], kill {case, step, delay_ms} | null, work_ms, out, force_restart.
"""
import json
import os
import signal
import sys
import time

CASE_STEPS = ('pre_log', 'post_log', 'post_mkdir', 'post_func', 'mid_savez', 'post_savez', 'post_marker',
              'post_success_line')
# kills in the study parent while it writes the header of tpy_mp.log (before any case exists):
#   header_empty       log file created by open(..., 'w'), nothing written yet
#   header_mid_inputs  log flushed after `lines` (>= 1) input lines (cut between input lines; with one axis: after its line)
#   header_no_close    log flushed after all input lines, before the closing '------------' line
HEADER_STEPS = ('header_empty', 'header_mid_inputs', 'header_no_close')
STEPS = CASE_STEPS + HEADER_STEPS

CONFIG = {'counter_dir': None, 'raise_cases': (), 'work_ms': 0}
KILL = {'case': None, 'step': None, 'delay_ms': 0, 'marker': None, 'lines': 1}


def f_value(args):
    """The harness' study: an exactly reproducible function of the case inputs."""
    v = 0.0
    for i, a in enumerate(args):
        v += (i + 1.5) * float(a) + 0.25 * float(a) * float(a)
    return v


def _case_of_dir(run_dir):
    base = os.path.basename(os.path.normpath(run_dir))
    return int(base.split('_run_')[-1])


def study_function(this_run_dir, *args):
    import numpy as np
    half = len(args) // 2
    values = [float(a) for a in args[:half]]
    k = _case_of_dir(this_run_dir)
    line = ('%d\t%s\n' % (k, json.dumps(values))).encode()
    fd = os.open(os.path.join(CONFIG['counter_dir'], 'case_%d.cnt' % k), os.O_WRONLY | os.O_CREAT | os.O_APPEND, 0o644)
    try:
        os.write(fd, line)
    finally:
        os.close(fd)
    if CONFIG['work_ms']:
        time.sleep(CONFIG['work_ms'] * ((k * 7 + 3) % 4) / 3000.0)
    if k in CONFIG['raise_cases']:
        raise RuntimeError('injected study failure for case %d' % k)
    return {'v': f_value(values), 'args': np.asarray(values, dtype=float)}


# ---- fault injection ---------------------------------------------------------------------------------

def _kill_now(step, case):
    """Reached the kill point: leave a note (outside the study directory), let the others run on for
    delay_ms, then SIGKILL the whole process group (including this process)."""
    try:
        fd = os.open(KILL['marker'], os.O_WRONLY | os.O_CREAT | os.O_APPEND, 0o644)
        os.write(fd, ('%s %d pid=%d\n' % (step, case, os.getpid())).encode())
        os.close(fd)
    except OSError:
        pass
    if KILL['delay_ms']:
        time.sleep(KILL['delay_ms'] / 1000.0)
    os.killpg(os.getpgrp(), signal.SIGKILL)
    time.sleep(60)          # never reached in practice
    os._exit(99)


def _hit(step, case):
    if KILL['step'] == step and KILL['case'] == case:
        _kill_now(step, case)


class _FileProxy:
    """Wraps the file object returned by the module's `open`; acts when the `with` block is left."""

    def __init__(self, fh, path, mode):
        self._fh = fh
        self._path = path
        self._mode = mode
        self._case_text = None
        self._success = None
        self._header = mode == 'w' and os.path.basename(path) == 'tpy_mp.log'
        self._input_lines = 0

    def _header_cut(self, step):
        if KILL['step'] == step:
            self._fh.flush()        # the partial header reaches the file (models an unbuffered / large header)
            _kill_now(step, KILL['case'])

    def write(self, text):
        if self._header and isinstance(text, str):
            if text == '------------\n':
                self._header_cut('header_no_close')
            r = self._fh.write(text)
            if ':-:' in text:
                self._input_lines += 1
                if self._input_lines == KILL['lines']:
                    self._header_cut('header_mid_inputs')
            return r
        if isinstance(text, str):
            if text.startswith('MP Study:: Working on Case'):
                self._case_text = int(text.split('Working on Case')[1].split('of')[0])
            elif text.lstrip().startswith('Run: ') and 'completed successfully' in text:
                self._success = int(text.lstrip().split()[1])
        return self._fh.write(text)

    def __enter__(self):
        self._fh.__enter__()
        return self

    def __exit__(self, *exc):
        r = self._fh.__exit__(*exc)
        if exc[0] is None:
            base = os.path.basename(self._path)
            if base == 'tpy_mp.log':
                if self._case_text is not None:
                    _hit('post_log', self._case_text)
                if self._success is not None:
                    _hit('post_success_line', self._success)
            elif base == 'mp_success.log':
                _hit('post_marker', _case_of_dir(os.path.dirname(self._path)))
        return r

    def __getattr__(self, name):
        return getattr(self._fh, name)

    def __iter__(self):
        return iter(self._fh)


def _open_proxy(path, mode='r', *a, **kw):
    fh = open(path, mode, *a, **kw)
    base = os.path.basename(str(path))
    if base in ('tpy_mp.log', 'mp_success.log') and mode in ('a', 'w'):
        if base == 'tpy_mp.log' and mode == 'w' and KILL['step'] == 'header_empty':
            _kill_now('header_empty', KILL['case'])     # file exists and is empty
        return _FileProxy(fh, str(path), mode)
    return fh


def _print_proxy(*a, **kw):
    text = a[0] if a and isinstance(a[0], str) else ''
    if text.startswith('MP Study:: Working on Case'):
        _hit('pre_log', int(text.split('Working on Case')[1].split('of')[0]))
        return
    print(*a, **kw)


class _OsProxy:
    def __getattr__(self, name):
        return getattr(os, name)

    @staticmethod
    def makedirs(path, *a, **kw):
        r = os.makedirs(path, *a, **kw)
        base = os.path.basename(os.path.normpath(str(path)))
        if base.startswith('index_') and '_run_' in base:
            _hit('post_mkdir', _case_of_dir(path))
        return r


class _NpProxy:
    def __init__(self, np):
        self._np = np

    def __getattr__(self, name):
        return getattr(self._np, name)

    def savez(self, file, *a, **kw):
        path = str(file)
        is_result = os.path.basename(path) == 'mp_results.npz'
        case = _case_of_dir(os.path.dirname(path)) if is_result else None
        if is_result:
            _hit('post_func', case)
        r = self._np.savez(file, *a, **kw)
        if is_result:
            if KILL['step'] == 'mid_savez' and KILL['case'] == case:
                size = os.path.getsize(path)
                with open(path, 'r+b') as fh:
                    fh.truncate(max(1, size // 2))
                _kill_now('mid_savez', case)
            _hit('post_savez', case)
        return r


def header_lines(case, n_inputs):
    """Number of input lines in the log when a header_mid_inputs kill strikes (1 .. max(1, n_inputs - 1))."""
    return 1 + int(case) % max(1, int(n_inputs) - 1)


def install_faults(mod, kill, marker, n_inputs=1):
    KILL.update(case=int(kill['case']), step=str(kill['step']), delay_ms=int(kill.get('delay_ms', 0)),
                marker=marker, lines=header_lines(kill['case'], n_inputs))
    assert KILL['step'] in STEPS, KILL['step']
    mod.print = _print_proxy
    mod.open = _open_proxy
    mod.os = _OsProxy()
    mod.np = _NpProxy(mod.np)


def _inject_check(mod):
    """Facts the injection relies on (reported, asserted by the property's selftest)."""
    import dill
    import multiprocess
    info = {'start_method': multiprocess.get_start_method(), 'pathos': bool(mod.pathos_installed)}

    fn = mod.multiprocessing_run
    payload = dill.dumps(fn.__globals__)
    info['globals_by_ref'] = len(payload) < 400 and b'__dict__' in payload
    return info


def _jsonable(results):
    import numpy as np
    if results is None:
        return None
    out = []
    for el in results:
        rec = {'type': type(el).__name__, 'len': None, 'case_number': None, 'index': None, 'v': None, 'args': None,
               'result_type': None}
        try:
            rec['len'] = len(el)
            cn, idx, res = el[0], el[1], el[2]
            rec['case_number'] = int(cn) if float(cn) == int(cn) else repr(cn)
            rec['index'] = [int(i) for i in idx]
            rec['result_type'] = type(res).__name__
            if res is not None:
                rec['v'] = float(np.asarray(res['v']))
                rec['args'] = [float(a) for a in np.asarray(res['args']).ravel()]
        except Exception as e:  # malformed element: reported as such, judged by the oracle
            rec['error'] = '%s: %s' % (type(e).__name__, e)
        out.append(rec)
    return out


def _write_out(path, payload):
    with open(path + '.tmp', 'w') as fh:
        json.dump(payload, fh)
    os.replace(path + '.tmp', path)


def main(argv):
    with open(argv[1]) as fh:
        spec = json.load(fh)
    from vlib import env
    env.setup()
    import logging
    logging.disable(logging.CRITICAL)
    import TidalPy.utilities.multiprocessing.multiprocessing as mod
    from vlib import mp_driver as me      # the importable twin of this module: what the workers resolve

    me.CONFIG.update(counter_dir=spec['counter_dir'], raise_cases=frozenset(spec.get('raise_cases') or ()),
                     work_ms=int(spec.get('work_ms') or 0))
    payload = {'status': None, 'inject_check': me._inject_check(mod), 'pgid': os.getpgrp(), 'pid': os.getpid()}
    if spec.get('kill'):
        me.install_faults(mod, spec['kill'], spec['kill_marker'], n_inputs=len(spec['inputs']))
    inputs = []
    for name, nice, start, end, scale, must, n, as_tuple in spec['inputs']:
        must = tuple(must) if as_tuple else list(must)
        inputs.append(mod.MultiprocessingInput(name, nice, start, end, scale, must, n))
    t0 = time.time()
    try:
        results = mod.multiprocessing_run(
            spec['dir'], spec.get('study_name', 'c18'), me.study_function, tuple(inputs),
            force_restart=bool(spec.get('force_restart', False)), verbose=False, max_procs=int(spec['pool']),
            perform_memory_check=False, avoid_crashes=True)
    except BaseException as e:  # noqa - reported to the caller, which judges it
        import traceback
        payload.update(status='raised', exc_type=type(e).__name__, exc=str(e)[:500],
                       traceback=''.join(traceback.format_exception(type(e), e, e.__traceback__))[-1800:])
        _write_out(spec['out'], payload)
        return 0
    payload.update(status='none' if results is None else 'returned', results=me._jsonable(results),
                   wall_s=round(time.time() - t0, 3))
    _write_out(spec['out'], payload)
    return 0


if __name__ == '__main__':
    sys.exit(main(sys.argv))
