"""Driver for one run of a TidalPy multiprocessing study (property C18).

    python -m vlib.mp_driver <spec.json>

Runs `TidalPy.utilities.multiprocessing.multiprocessing_run` once, in its own session / process group
(the caller starts it with `start_new_session=True`, stdin=/dev/null), optionally with fault injection,
and writes what the call returned to `spec['out']` (JSON, atomically).  The caller (props/c18_mp_restart.py)
owns the scenario; this file owns

  * `study_function` - the function executed for every case of the study.  It lives in this importable
    module so that dill/pathos pickle it by reference.  It appends one line to a per-case counter
    file OUTSIDE the study directory (O_APPEND, one write) and returns {'v': f(x, y, ...), 'args': inputs}.
  * the fault injection: proxies for the names `open`, `os`, `np` *inside the module under test*
    (`TidalPy.utilities.multiprocessing.multiprocessing`), installed before the pool forks.  pathos /
    multiprocess use the `fork` start method here and dill pickles the nested `func_to_use` with its
    `__globals__` by reference to the module dictionary, so the workers see the proxies (the driver
    checks both facts and reports `inject_check` in its output; the property's selftest asserts them).
    Kill points are recognised by file operations only, never by message text (see "fault injection" below).
    When the worker that handles case k reaches step s the proxy waits `delay_ms` (the other workers
    go on: that is the sampled schedule dimension) and sends SIGKILL to the whole process group -
    study parent, every pool worker, resource tracker - never to a single worker (a pool that lost one
    worker would make `pool.map` wait forever, which is an artefact and not the scenario of C18).

Header kills (HEADER_STEPS) strike in the study parent while it writes the header of tpy_mp.log, before the pool
exists; `kill.case` then only selects how many input lines a header_mid_inputs cut leaves (header_lines()).

Spec keys: dir, study_name, inputs [[name, nice, start, end, scale, must_include, n, as_tuple]], pool,
counter_dir, raise_cases [int], raise_flag (path: the listed cases raise only while this file exists), raise_on,
avoid_crashes, kill {case, step, delay_ms} | null, work_ms, out, force_restart,
then [ {overrides: pool, raise_on, out, ...} ]  further runs of the study executed by THE SAME driver process
     (rerun in the same interpreter: pathos' pool cache, module state); after every run but the last the driver
     waits until the disk is quiet and stores snapshot() of the study directory in that run's output,
prelude_dir  if given: an unrelated successful 2 x 2 study is run first in the same process with the same pool size.
"""
import json
import os
import re
import signal
import sys
import time

CASE_STEPS = ('pre_log', 'post_log', 'post_mkdir', 'post_func', 'mid_savez', 'post_savez', 'post_marker',
              'post_success_line')
# kills in the study parent while it writes the header of tpy_mp.log (before any case exists):
#   header_empty       log file created by open(..., 'w'), nothing written yet
#   header_mid_inputs  log holds the preamble and `lines` (>= 1) input lines (cut between input lines; one axis: after its line)
#   header_no_close    log holds everything but its last line (the terminator of the input block)
HEADER_STEPS = ('header_empty', 'header_mid_inputs', 'header_no_close')
STEPS = CASE_STEPS + HEADER_STEPS

CONFIG = {'counter_dir': None, 'raise_cases': (), 'work_ms': 0, 'raise_flag': None}
KILL = {'case': None, 'step': None, 'delay_ms': 0, 'marker': None, 'lines': 1, 'n_inputs': 1, 'names': [], 'parent': None}


def f_value(args):
    """The harness' study: an exactly reproducible function of the case inputs."""
    v = 0.0
    for i, a in enumerate(args):
        v += (i + 1.5) * float(a) + 0.25 * float(a) * float(a)
    return v


def _case_of_dir(run_dir):
    base = os.path.basename(os.path.normpath(run_dir))
    return int(base.split('_run_')[-1])


def study_function(this_run_dir, *args):
    import numpy as np
    half = len(args) // 2
    values = [float(a) for a in args[:half]]
    k = _case_of_dir(this_run_dir)
    W.update(phase='studied', case=k)
    if os.path.basename(os.path.dirname(os.path.normpath(this_run_dir))).startswith('prelude'):
        return {'v': f_value(values), 'args': np.asarray(values, dtype=float)}      # unrelated study: not counted
    study_dir = os.path.dirname(os.path.normpath(this_run_dir))      # outer study or a nested restarted_study_N
    line = ('%d\t%s\t%s\n' % (k, json.dumps(values), study_dir)).encode()
    fd = os.open(os.path.join(CONFIG['counter_dir'], 'case_%d.cnt' % k), os.O_WRONLY | os.O_CREAT | os.O_APPEND, 0o644)
    try:
        os.write(fd, line)
    finally:
        os.close(fd)
    if CONFIG['work_ms']:
        time.sleep(CONFIG['work_ms'] * ((k * 7 + 3) % 4) / 3000.0)
    if k in CONFIG['raise_cases'] and (CONFIG.get('raise_flag') is None or os.path.exists(CONFIG['raise_flag'])):
        W.update(phase='idle')          # this case ends here (error branch): the next log append starts a new case
        raise RuntimeError('injected study failure for case %d' % k)
    result = {'v': f_value(values), 'args': np.asarray(values, dtype=float)}
    _hit('post_func', k)                # the study function has done its work and is about to return
    return result


# ---- fault injection ---------------------------------------------------------------------------------
#
# Kill points are recognised by FILE OPERATIONS of the module under test, never by the text it prints or logs
# (a reworded message must not silently disable the injection):
#   header_*            open(<study>/tpy_mp.log, 'w') in the study parent; the cut is made by line position
#                       counted from the END of what was written (last line = terminator, the n_inputs lines
#                       before it = input lines), cross-checked against the harness' own axis names
#   pre_log / post_log  open(<study>/tpy_mp.log, 'a') in a pool worker that is between cases (= the append that
#                       starts a case), before the open / after the close.  The case number is not knowable from
#                       file operations at that moment, so for these two steps `kill.case` = k selects the k-th
#                       case START of the study (ticket taken under flock from a counter file outside the study)
#   post_mkdir          os.makedirs of a directory `..._run_<k>` in a pool worker
#   post_func           the harness' study function, just before it returns for case k
#   mid/post_savez      np.savez in a pool worker (case = the case the worker's study function last ran)
#   post_marker         close of open(<case dir>/mp_success.log, 'w')
#   post_success_line   close of the open(<study>/tpy_mp.log, 'a') that follows the study function of case k
# File/directory names used here (tpy_mp.log, mp_success.log, _run_<k>) are the on-disk format the restart logic
# itself parses, not messages.
#
# Per-process state machine of a pool worker: idle --append-open--> started --study_function--> studied(case)
#   studied --study function raises--> idle ;  studied --append-open ... close--> idle

W = {'phase': 'idle', 'case': None, 'ordinal': None}


def _kill_now(step, case, note=''):
    """Reached the kill point: leave a note (outside the study directory), let the others run on for
    delay_ms, then SIGKILL the whole process group (including this process)."""
    try:
        fd = os.open(KILL['marker'], os.O_WRONLY | os.O_CREAT | os.O_APPEND, 0o644)
        os.write(fd, ('%s %d pid=%d %s\n' % (step, case, os.getpid(), note)).encode())
        os.close(fd)
    except OSError:
        pass
    if KILL['delay_ms']:
        time.sleep(KILL['delay_ms'] / 1000.0)
    os.killpg(os.getpgrp(), signal.SIGKILL)
    time.sleep(60)          # never reached in practice
    os._exit(99)


def _hit(step, case):
    if KILL['step'] == step and KILL['case'] == case:
        _kill_now(step, case)


def _in_worker():
    return KILL['parent'] is not None and os.getpid() != KILL['parent']


def _take_ticket():
    """0, 1, 2, ...: position of this case start among all case starts of the study (all workers)."""
    import fcntl
    fd = os.open(KILL['marker'] + '.tickets', os.O_RDWR | os.O_CREAT, 0o644)
    try:
        fcntl.flock(fd, fcntl.LOCK_EX)
        n = int(os.read(fd, 32) or b'0')
        os.lseek(fd, 0, os.SEEK_SET)
        os.write(fd, b'%d' % (n + 1))
        return n
    finally:
        os.close(fd)


class _FileProxy:
    """Wraps the file object returned by the module's `open`; `on_close(proxy)` runs after the `with` block closed it."""

    def __init__(self, fh, path, on_close=None, before_close=None):
        self._fh = fh
        self._path = path
        self._on_close = on_close
        self._before_close = before_close
        self._chunks = []

    def write(self, text):
        self._chunks.append(text)
        return self._fh.write(text)

    def __enter__(self):
        self._fh.__enter__()
        return self

    def __exit__(self, *exc):
        if exc[0] is None and self._before_close is not None:
            self._before_close(self)
        r = self._fh.__exit__(*exc)
        if exc[0] is None and self._on_close is not None:
            self._on_close(self)
        return r

    def close(self):
        if self._before_close is not None:
            self._before_close(self)
        r = self._fh.close()
        if self._on_close is not None:
            self._on_close(self)
        return r

    def __getattr__(self, name):
        return getattr(self._fh, name)

    def __iter__(self):
        return iter(self._fh)


def _header_cut(proxy):
    """The whole header has been written (still inside the `with`): leave only its first part on disk and kill."""
    step = KILL['step']
    if step not in ('header_mid_inputs', 'header_no_close'):
        return
    proxy._fh.flush()
    lines = ''.join(str(c) for c in proxy._chunks).splitlines(keepends=True)
    n_in = KILL['n_inputs']
    # by position from the end: [... preamble ...] [n_in input lines] [terminator]
    drop = 1 if step == 'header_no_close' else 1 + (n_in - KILL['lines'])
    keep = lines[:max(0, len(lines) - drop)]
    # cross-check against data the harness owns (axis names), never against the repository's separators
    block = lines[-(n_in + 1):-1] if len(lines) > n_in else []
    ok = len(block) == n_in and all(nm in ln for nm, ln in zip(KILL['names'], block))
    os.truncate(proxy._path, len(''.join(keep).encode()))
    _kill_now(step, KILL['case'], 'xcheck=%s kept_lines=%d of %d' % ('ok' if ok else 'MISMATCH', len(keep), len(lines)))


def _open_proxy(path, mode='r', *a, **kw):
    spath = str(path)
    base = os.path.basename(spath)
    if base == 'tpy_mp.log' and mode == 'w' and not _in_worker():
        fh = open(path, mode, *a, **kw)
        if KILL['step'] == 'header_empty':
            _kill_now('header_empty', KILL['case'])     # file exists and is empty
        return _FileProxy(fh, spath, before_close=_header_cut)
    if not _in_worker():
        return open(path, mode, *a, **kw)
    if base == 'tpy_mp.log' and mode == 'a':
        if W['phase'] == 'idle':
            # the append that starts a case
            ticket = _take_ticket()
            W.update(phase='started', case=None, ordinal=ticket)
            _hit('pre_log', ticket)
            fh = open(path, mode, *a, **kw)
            return _FileProxy(fh, spath, on_close=lambda p, t=ticket: _hit('post_log', t))
        if W['phase'] == 'studied':
            # the append that follows the study function of W['case'] (success line)
            def done(p, k=W['case']):
                W.update(phase='idle')
                _hit('post_success_line', k)
            return _FileProxy(open(path, mode, *a, **kw), spath, on_close=done)
        return open(path, mode, *a, **kw)
    if base == 'mp_success.log' and mode == 'w':
        k = _case_of_dir(os.path.dirname(spath))
        return _FileProxy(open(path, mode, *a, **kw), spath, on_close=lambda p, k=k: _hit('post_marker', k))
    return open(path, mode, *a, **kw)


class _OsProxy:
    def __getattr__(self, name):
        return getattr(os, name)

    @staticmethod
    def makedirs(path, *a, **kw):
        r = os.makedirs(path, *a, **kw)
        if _in_worker():
            m = re.search(r'_run_(\d+)$', os.path.basename(os.path.normpath(str(path))))
            if m is not None:
                _hit('post_mkdir', int(m.group(1)))
        return r


class _NpProxy:
    def __init__(self, np):
        self._np = np

    def __getattr__(self, name):
        return getattr(self._np, name)

    def savez(self, file, *a, **kw):
        if not _in_worker() or W['case'] is None:
            return self._np.savez(file, *a, **kw)
        case = W['case']
        r = self._np.savez(file, *a, **kw)
        if KILL['step'] == 'mid_savez' and KILL['case'] == case:
            path = str(file) if str(file).endswith('.npz') else str(file) + '.npz'
            size = os.path.getsize(path)
            with open(path, 'r+b') as fh:
                fh.truncate(max(1, size // 2))
            _kill_now('mid_savez', case)
        _hit('post_savez', case)
        return r


def header_lines(case, n_inputs):
    """Number of input lines in the log when a header_mid_inputs kill strikes (1 .. max(1, n_inputs - 1))."""
    return 1 + int(case) % max(1, int(n_inputs) - 1)


def install_faults(mod, kill, marker, names=('?',)):
    KILL.update(case=int(kill['case']), step=str(kill['step']), delay_ms=int(kill.get('delay_ms', 0)),
                marker=marker, lines=header_lines(kill['case'], len(names)), n_inputs=len(names), names=list(names),
                parent=os.getpid())
    assert KILL['step'] in STEPS, KILL['step']
    mod.open = _open_proxy
    mod.os = _OsProxy()
    mod.np = _NpProxy(mod.np)


def _inject_check(mod):
    """Facts the injection relies on (reported, asserted by the property's selftest)."""
    import dill
    import multiprocess
    info = {'start_method': multiprocess.get_start_method(), 'pathos': bool(mod.pathos_installed)}

    fn = mod.multiprocessing_run
    payload = dill.dumps(fn.__globals__)
    info['globals_by_ref'] = len(payload) < 400 and b'__dict__' in payload
    return info


def _jsonable(results):
    import numpy as np
    if results is None:
        return None
    out = []
    for el in results:
        rec = {'type': type(el).__name__, 'len': None, 'case_number': None, 'index': None, 'v': None, 'args': None,
               'result_type': None}
        try:
            rec['len'] = len(el)
            if all(hasattr(el, a) for a in ('case_number', 'input_index', 'result')):
                cn, idx, res = el.case_number, el.input_index, el.result
                rec['access'] = 'by_name'
            else:
                cn, idx, res = el[0], el[1], el[2]       # plain tuple (or longer record): first three fields
                rec['access'] = 'positional'
            rec['case_number'] = int(cn) if float(cn) == int(cn) else repr(cn)
            rec['index'] = [int(i) for i in idx]
            rec['result_type'] = type(res).__name__
            if res is not None:
                rec['v'] = float(np.asarray(res['v']))
                rec['args'] = [float(a) for a in np.asarray(res['args']).ravel()]
        except Exception as e:  # malformed element: reported as such, judged by the oracle
            rec['error'] = '%s: %s' % (type(e).__name__, e)
        out.append(rec)
    return out


def _write_out(path, payload):
    with open(path + '.tmp', 'w') as fh:
        json.dump(payload, fh)
    os.replace(path + '.tmp', path)


def snapshot(study_dir):
    """Per case number (from the directory name): what a restart will find on disk."""
    import numpy as np
    snap = {}
    if not os.path.isdir(study_dir):
        return snap
    for name in os.listdir(study_dir):
        m = re.fullmatch(r'index_\(.*\)_run_(\d+)', name)
        path = os.path.join(study_dir, name)
        if m is None or not os.path.isdir(path):
            continue
        marker = os.path.isfile(os.path.join(path, 'mp_success.log'))
        npz = os.path.join(path, 'mp_results.npz')
        state = 'absent'
        if os.path.isfile(npz):
            state = 'broken'
            try:
                with np.load(npz) as z:
                    float(z['v'])
                    np.asarray(z['args'])
                state = 'complete'
            except Exception:  # noqa - any failure to load = not a complete result file
                pass
        snap[int(m.group(1))] = {'marker': marker, 'npz': state, 'error': os.path.isfile(os.path.join(path, 'error.log'))}
    return snap


def read_counters(counter_dir):
    """All executions recorded so far: [dir case number, inputs, study directory the case was executed for]."""
    lines = []
    for name in sorted(os.listdir(counter_dir)):
        with open(os.path.join(counter_dir, name)) as fh:
            for ln in fh.read().splitlines():
                k, args, study_dir = ln.split('\t')
                lines.append([int(k), json.loads(args), study_dir])
    return lines


def _disk_state(study_dir, counter_dir):
    out = []
    for d in (study_dir, counter_dir):
        for root, dirs, files in os.walk(d):
            for f in files:
                try:
                    out.append((os.path.join(root, f), os.path.getsize(os.path.join(root, f))))
                except OSError:
                    pass
    return sorted(out)


def _settle(study_dir, counter_dir, quiet_s=0.15, max_s=5.0):
    """Same-process rerun: wait until no pool worker of the previous run writes any more (pool.map only
    raises once every chunk is done, so this normally returns after the first quiet interval)."""
    t_end = time.time() + max_s
    prev = _disk_state(study_dir, counter_dir)
    while time.time() < t_end:
        time.sleep(quiet_s)
        cur = _disk_state(study_dir, counter_dir)
        if cur == prev:
            return True
        prev = cur
    return False


def _set_flag(path, on):
    if path is None:
        return
    if on:
        with open(path, 'w') as fh:
            fh.write('raise\n')
    elif os.path.exists(path):
        os.remove(path)


def _run_once(mod, me, run, inputs):
    t0 = time.time()
    try:
        results = mod.multiprocessing_run(
            run['dir'], run.get('study_name', 'c18'), me.study_function, tuple(inputs),
            force_restart=bool(run.get('force_restart', False)), verbose=False, max_procs=int(run['pool']),
            perform_memory_check=False, avoid_crashes=bool(run.get('avoid_crashes', True)))
    except BaseException as e:  # noqa - reported to the caller, which judges it
        import traceback
        return dict(status='raised', exc_type=type(e).__name__, exc=str(e)[:500],
                    traceback=''.join(traceback.format_exception(type(e), e, e.__traceback__))[-1800:])
    return dict(status='none' if results is None else 'returned', results=me._jsonable(results),
                wall_s=round(time.time() - t0, 3))


def main(argv):
    with open(argv[1]) as fh:
        spec = json.load(fh)
    from vlib import env
    env.setup()
    import logging
    logging.disable(logging.CRITICAL)
    import TidalPy.utilities.multiprocessing.multiprocessing as mod
    from vlib import mp_driver as me      # the importable twin of this module: what the workers resolve

    # CONFIG is inherited by the pool workers when they fork; pathos keeps pools (and their workers) alive and
    # reuses them for later studies with the same node count, so everything that changes between the runs of one
    # driver process (do the listed cases raise?) is read from the disk (raise_flag), not from CONFIG.
    me.CONFIG.update(counter_dir=spec['counter_dir'], raise_cases=frozenset(spec.get('raise_cases') or ()),
                     work_ms=int(spec.get('work_ms') or 0), raise_flag=spec.get('raise_flag'))
    base_payload = {'status': None, 'inject_check': me._inject_check(mod), 'pgid': os.getpgrp(), 'pid': os.getpid()}
    if spec.get('kill'):
        me.install_faults(mod, spec['kill'], spec['kill_marker'], names=[i[0] for i in spec['inputs']])
    inputs = []
    for name, nice, start, end, scale, must, n, as_tuple in spec['inputs']:
        must = tuple(must) if as_tuple else list(must)
        inputs.append(mod.MultiprocessingInput(name, nice, start, end, scale, must, n))
    _set_flag(spec.get('raise_flag'), False)
    if spec.get('prelude_dir'):
        # an unrelated, successful study earlier in the same process (same pool size): 2 x 2 cases, not counted
        pre_inputs = [mod.MultiprocessingInput('p', 'P', 0., 1., 'linear', [], 2),
                      mod.MultiprocessingInput('q', 'Q', 1., 2., 'linear', (), 2)]
        pre = _run_once(mod, me, dict(spec, dir=spec['prelude_dir'], avoid_crashes=True), pre_inputs)
        base_payload['prelude'] = {'status': pre['status'], 'n': len(pre.get('results') or []), 'exc': pre.get('exc')}
    sequence = [spec] + [dict(spec, **o) for o in (spec.get('then') or [])]
    for i, run in enumerate(sequence):
        _set_flag(spec.get('raise_flag'), bool(run.get('raise_on', True)))
        payload = dict(base_payload)
        payload.update(_run_once(mod, me, run, inputs))
        if i + 1 < len(sequence):
            payload['settled'] = _settle(run['dir'], spec['counter_dir'])
            payload['snapshot_after'] = {str(k): v for k, v in snapshot(run['dir']).items()}
            payload['counters_after'] = read_counters(spec['counter_dir'])
        _write_out(run['out'], payload)
    return 0


if __name__ == '__main__':
    sys.exit(main(sys.argv))
