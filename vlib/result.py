"""Result records returned by a property module's evaluate(case).

A result is a plain dict:
    labels      list[str]   classification labels of the case (histogram goes to evidence)
    nontrivial  bool        case is non-trivial by the property's stated rule
    discard     str|None    reason the case was not judged (precondition of the property not met)
    fails       list[{signature: dict, detail: str}]   oracle failures (empty = held)
"""
import json
import os
import traceback

from . import env


def ok(labels=(), nontrivial=True):
    return {'labels': list(labels), 'nontrivial': bool(nontrivial), 'discard': None, 'fails': []}


def discard(reason, labels=()):
    return {'labels': list(labels), 'nontrivial': False, 'discard': str(reason), 'fails': []}


def fail(signature, detail, labels=(), nontrivial=True):
    return {'labels': list(labels), 'nontrivial': bool(nontrivial), 'discard': None,
            'fails': [{'signature': signature, 'detail': str(detail)[:2000]}]}


class Collector:
    """Helper to accumulate several oracle clauses for one case."""

    def __init__(self, labels=(), nontrivial=True):
        self.labels = list(labels)
        self.nontrivial = bool(nontrivial)
        self.fails = []

    def label(self, *names):
        for n in names:
            if n not in self.labels:
                self.labels.append(n)

    def check(self, cond, signature, detail=''):
        if not cond:
            self.fails.append({'signature': signature, 'detail': str(detail)[:2000]})
        return bool(cond)

    def fail(self, signature, detail=''):
        self.fails.append({'signature': signature, 'detail': str(detail)[:2000]})

    def result(self):
        return {'labels': self.labels, 'nontrivial': self.nontrivial, 'discard': None,
                'fails': self.fails}


class HarnessError(Exception):
    pass


class RepoRaised(Exception):
    """An exception that escaped from a repository call made inside `repo_call(name)`."""

    def __init__(self, name, exc):
        super().__init__('%s raised %s: %s' % (name, type(exc).__name__, exc))
        self.name = name
        self.exc = exc


class repo_call:
    """`with repo_call('quick_tidal_dissipation'): ...` marks the enclosed call as repository code, so
    that exceptions without python frames inside /repo (numba nopython, cython) are still attributed
    to the code under test and not to the harness."""

    def __init__(self, name):
        self.name = name

    def __enter__(self):
        return self

    def __exit__(self, et, ev, tb):
        if et is None or issubclass(et, (KeyboardInterrupt, SystemExit, MemoryError, HarnessError,
                                         RepoRaised)):
            return False
        raise RepoRaised(self.name, ev) from ev


def _repo_frame(tb):
    """Innermost traceback frame that lies inside the repository (or None)."""
    found = None
    repo = os.path.realpath(env.REPO) + os.sep
    for fs in traceback.extract_tb(tb):
        fn = os.path.realpath(fs.filename)
        if fn.startswith(repo):
            found = '%s:%s' % (os.path.relpath(fn, repo), fs.name)
    return found


def safe_evaluate(prop, case):
    """Run prop.evaluate(case).  An exception that passes through repository code on an input the
    generator considers valid is an oracle failure (the property cannot hold if no value is
    returned); an exception raised purely inside the harness is a harness error."""
    try:
        res = prop.evaluate(case)
    except HarnessError:
        raise
    except (KeyboardInterrupt, SystemExit, MemoryError):
        raise
    except RepoRaised as e:
        tb = ''.join(traceback.format_exception(type(e.exc), e.exc, e.exc.__traceback__))[-1800:]
        return fail({'kind': 'exception', 'type': type(e.exc).__name__, 'where': e.name}, tb)
    except BaseException as e:  # noqa
        where = _repo_frame(e.__traceback__)
        tb = ''.join(traceback.format_exception(type(e), e, e.__traceback__))[-1800:]
        if where is None and not getattr(prop, 'ALL_EXCEPTIONS_ARE_FAILURES', False):
            # numba / cython raise without python frames inside the repo; let the module decide
            hook = getattr(prop, 'classify_exception', None)
            if hook is not None:
                r = hook(case, e)
                if r is not None:
                    return r
            raise HarnessError('exception outside repository code while evaluating %s:\n%s'
                               % (json.dumps(case, default=str)[:500], tb))
        return fail({'kind': 'exception', 'type': type(e).__name__, 'where': where}, tb)
    if not isinstance(res, dict) or 'fails' not in res:
        raise HarnessError('evaluate() returned %r' % (res,))
    return res
