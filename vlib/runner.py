"""Parent process of a check: build, oracle self-test, regression replays, sharded generation,
known-finding matching, collect-then-shrink, evidence (DESIGN section 1)."""
import argparse
import hashlib
import importlib
import importlib.util
import json
import os
import shutil
import subprocess
import sys
import tempfile
import time

from . import env

EXIT_OK, EXIT_VIOLATION, EXIT_HARNESS = 0, 1, 2


def _load_known(prop_id):
    path = os.path.join(env.VERIF, 'known_findings.json')
    if not os.path.exists(path):
        return []
    with open(path) as fh:
        data = json.load(fh)
    return [f for f in data.get('findings', []) if f.get('property') == prop_id]


def sig_matches(entry_sig, sig):
    """entry_sig (from known_findings.json) matches a failure signature if every key it names is
    present with an equal value (a list value in the entry means 'any of these')."""
    if not isinstance(sig, dict):
        return False
    for k, v in entry_sig.items():
        if k not in sig:
            return False
        sv = sig[k]
        if isinstance(v, list) and not isinstance(sv, list):
            if sv not in v:
                return False
        elif sv != v:
            return False
    return True


def match_known(known, sig):
    for f in known:
        if f.get('status') == 'known' and sig_matches(f['signature'], sig):
            return f
    return None


def _sig_key(sig):
    return json.dumps(sig, sort_keys=True, default=repr)


def _sig_hash(sig):
    return hashlib.sha1(_sig_key(sig).encode()).hexdigest()[:10]


def find_module(prop_id):
    pdir = os.path.join(env.VERIF, 'props')
    for f in sorted(os.listdir(pdir)):
        if f.lower().startswith(prop_id.lower()) and f.endswith('.py'):
            return f[:-3]
    raise SystemExit('no property module for %s' % prop_id)


def write_evidence(prop, tier, seed, coverage, assumptions, wall, violations, extra=None):
    ev = {'property_id': prop.ID, 'tier': tier, 'seed': int(seed),
          'level': getattr(prop, 'LEVEL', 'exploration'), 'coverage': coverage,
          'assumptions': list(assumptions), 'wall_s': round(wall, 2), 'violations': int(violations)}
    if extra:
        ev.update(extra)
    edir = os.environ.get('VERIF_EVIDENCE_DIR') or os.path.join(env.VERIF, 'evidence')
    os.makedirs(edir, exist_ok=True)
    path = os.path.join(edir, prop.ID + '.json')
    with open(path + '.tmp', 'w') as fh:
        json.dump(ev, fh, indent=1, default=repr)
    os.replace(path + '.tmp', path)
    return path


def run_replay_file(prop, path, known):
    from .result import safe_evaluate
    with open(path) as fh:
        rp = json.load(fh)
    cases = rp['cases'] if 'cases' in rp else [rp['case']]
    out = []
    for case in cases:
        res = safe_evaluate(prop, case)
        out.append((case, res))
    return rp, out


def _prepare_golden(prop, modname, key):
    """Warm the numba cache for this property single-process into <key>/<ID>-golden (once per source hash)."""
    import fcntl
    gdir = os.path.join(env.NBCACHE, key, '%s-golden' % prop.ID)
    done = os.path.join(gdir, '.done')
    if os.path.exists(done):
        return gdir
    os.makedirs(gdir, exist_ok=True)
    lock = os.open(os.path.join(gdir, '.lock'), os.O_CREAT | os.O_RDWR, 0o644)
    try:
        fcntl.flock(lock, fcntl.LOCK_EX)
        if os.path.exists(done):
            return gdir
        t0 = time.time()
        e = dict(os.environ, VERIF_CACHE_ROLE='%s-golden' % prop.ID,
                 PYTHONPATH=env.VERIF + os.pathsep + os.environ.get('PYTHONPATH', ''))
        code = ('from vlib import env; env.setup(); import importlib; m = importlib.import_module("props.%s"); m.warm()' % modname)
        r = subprocess.run([env.PY, '-c', code], cwd=env.VERIF, env=e, stdin=subprocess.DEVNULL,
                           stdout=subprocess.DEVNULL, stderr=subprocess.PIPE, text=True)
        if r.returncode != 0:
            print('note: warm() failed (rc=%d), shards will compile on their own: %s' % (r.returncode, r.stderr[-300:]), flush=True)
            return None
        with open(done, 'w') as fh:
            fh.write('warmed in %.1fs\n' % (time.time() - t0))
        print('numba cache warmed single-process in %.0fs' % (time.time() - t0), flush=True)
        return gdir
    finally:
        fcntl.flock(lock, fcntl.LOCK_UN)
        os.close(lock)


def _seed_role_dir(golden, role_dir):
    if os.path.isdir(role_dir) and os.listdir(role_dir):
        return
    try:
        shutil.copytree(golden, role_dir, dirs_exist_ok=True, ignore=shutil.ignore_patterns('.done', '.lock', 'verif-locks'))
    except Exception as e:  # noqa
        print('note: could not seed %s from the golden cache: %s' % (role_dir, e), flush=True)


def main(argv=None):
    ap = argparse.ArgumentParser(prog='check')
    ap.add_argument('prop')
    ap.add_argument('--tier', default=os.environ.get('VERIF_TIER') or 'quick', choices=['quick', 'thorough'])
    ap.add_argument('--replay', default=None)
    ap.add_argument('--cases', type=int, default=None, help='override generated case count')
    ap.add_argument('--shards', type=int, default=None)
    ap.add_argument('--no-shrink', action='store_true')
    args = ap.parse_args(argv)
    t0 = time.time()
    seed = int(os.environ.get('VERIF_SEED', '1') or 1)
    os.environ['VERIF_CACHE_ROLE'] = '%s-parent' % args.prop.upper()
    key = env.setup(prune=False)
    try:
        from . import build
        binfo = build.build()
    except Exception as e:  # noqa
        print('HARNESS-ERROR build failed: %s' % e, flush=True)
        return EXIT_HARNESS
    modname = find_module(args.prop)
    try:
        prop = importlib.import_module('props.' + modname)
    except Exception:
        import traceback
        traceback.print_exc()
        print('HARNESS-ERROR cannot import property module', flush=True)
        return EXIT_HARNESS
    known = _load_known(prop.ID)
    from .result import HarnessError, safe_evaluate

    # ---- numba cache preparation: single-writer 'golden' directory (module's warm()), copied to every process role --------
    golden = None
    if hasattr(prop, 'warm') and not args.replay:
        golden = _prepare_golden(prop, modname, key)
        if golden is not None:
            _seed_role_dir(golden, os.environ['NUMBA_CACHE_DIR'])

    # ---- single replay ------------------------------------------------------------------------
    if args.replay:
        try:
            if hasattr(prop, 'shard_setup'):
                prop.shard_setup(args.tier)
            rp, outs = run_replay_file(prop, args.replay, known)
        except HarnessError as e:
            print('HARNESS-ERROR %s' % e, flush=True)
            return EXIT_HARNESS
        rc = EXIT_OK
        for case, res in outs:
            if res['discard'] is not None:
                print('replay: case discarded (%s)' % res['discard'])
            for f in res['fails']:
                kf = match_known(known, f['signature'])
                if kf is not None:
                    print('KNOWN-FINDING: property=%s %s [%s]' % (prop.ID, kf['what'], kf['id']), flush=True)
                else:
                    print('replay: FAIL signature=%s\n%s' % (_sig_key(f['signature']), f['detail']))
                    print('VIOLATION property=%s replay=%s' % (prop.ID, args.replay), flush=True)
                    rc = EXIT_VIOLATION
            if not res['fails'] and res['discard'] is None:
                print('replay: held')
        return rc

    # ---- oracle self-test ---------------------------------------------------------------------
    try:
        if hasattr(prop, 'selftest'):
            prop.selftest()
    except Exception:
        import traceback
        traceback.print_exc()
        print('HARNESS-ERROR oracle self-test failed', flush=True)
        return EXIT_HARNESS

    violations = []      # list of dict(case, signature, detail, replay)
    known_hits = {}      # finding id -> count
    harness_errors = []

    # ---- regression replays (committed) ---------------------------------------------------------
    rdir = os.path.join(env.VERIF, 'replays')
    n_replays = 0
    replay_files = sorted(f for f in os.listdir(rdir)) if os.path.isdir(rdir) else []
    replay_files = [f for f in replay_files if f.startswith(prop.ID + '-') and f.endswith('.json')]
    if replay_files and hasattr(prop, 'shard_setup'):
        prop.shard_setup(args.tier)
    for f in replay_files:
        path = os.path.join('replays', f)
        try:
            rp, outs = run_replay_file(prop, os.path.join(env.VERIF, path), known)
        except HarnessError as e:
            harness_errors.append('replay %s: %s' % (f, e))
            continue
        for case, res in outs:
            n_replays += 1
            for fl in res['fails']:
                kf = match_known(known, fl['signature'])
                if kf is not None:
                    known_hits[kf['id']] = known_hits.get(kf['id'], 0) + 1
                else:
                    violations.append({'case': case, 'signature': fl['signature'], 'detail': fl['detail'],
                                       'replay': path, 'origin': 'replay'})

    # ---- sharded generation ---------------------------------------------------------------------
    ncases = args.cases if args.cases is not None else prop.CASES[args.tier]
    nshards = args.shards or getattr(prop, 'SHARDS', {}).get(args.tier, 16)
    nshards = max(1, min(nshards, 16))
    timeout = getattr(prop, 'TIMEOUT', {}).get(args.tier, 3600 if args.tier == 'quick' else 6 * 3600)
    out_base = os.environ.get('VERIF_OUT_DIR') or os.path.join(env.VERIF, 'out')
    os.makedirs(out_base, exist_ok=True)
    work = tempfile.mkdtemp(prefix='verif-%s-' % prop.ID, dir=out_base)
    procs = []
    per = [ncases // nshards + (1 if i < ncases % nshards else 0) for i in range(nshards)]
    child_env = dict(os.environ)
    child_env['PYTHONPATH'] = env.VERIF + os.pathsep + child_env.get('PYTHONPATH', '')
    for i in range(nshards):
        out = os.path.join(work, 'shard%02d' % i)
        log = open(out + '.log', 'w')
        child_env['VERIF_CACHE_ROLE'] = '%s-shard%02d' % (prop.ID, i)
        if golden is not None:
            _seed_role_dir(golden, os.path.join(env.NBCACHE, key, child_env['VERIF_CACHE_ROLE']))
        p = subprocess.Popen([env.PY, '-u', '-m', 'vlib.shard', modname, args.tier, str(seed), str(i),
                              str(nshards), str(per[i]), out], cwd=env.VERIF, env=dict(child_env),
                             stdin=subprocess.DEVNULL, stdout=log, stderr=subprocess.STDOUT)
        procs.append((i, p, out, log))
    # coverage-guided shards (vlib/fuzz_shard.py): libFuzzer (atheris) drives the same strategy, guided by coverage of the
    # pure-Python repository modules named in the module's FUZZ['instrument']
    fz = getattr(prop, 'FUZZ', None)
    nfuzz = 0
    fuzz_stats = {'shards': 0, 'evaluations': 0, 'fuzzer_inputs': 0, 'instrumented_functions': 0, 'final_cov': []}
    if fz and os.environ.get('VERIF_NO_FUZZ') != '1':
        nfuzz = int(fz.get('shards', {}).get(args.tier, 0))
        if importlib.util.find_spec('atheris') is None:
            # normally installed by setup.sh; try once (offline wheelhouse), otherwise run without the coverage-guided shards
            subprocess.run(['/venv/bin/pip', 'install', '--quiet', '--no-index', '--find-links', '/opt/veriftools/wheels',
                            '--target', os.path.join(env.VERIF, '.deps'), 'atheris'], stdin=subprocess.DEVNULL,
                           stdout=subprocess.DEVNULL, stderr=subprocess.DEVNULL)
            importlib.invalidate_caches()
            if importlib.util.find_spec('atheris') is None:
                print('note: atheris is not installed; coverage-guided shards skipped', flush=True)
                nfuzz = 0
        per_f = int(fz.get('cases', {}).get(args.tier, 0)) // max(1, nfuzz)
        if args.cases is not None:
            per_f = min(per_f, max(50, args.cases // nshards))
        for j in range(nfuzz if per_f > 0 else 0):
            i = nshards + j
            out = os.path.join(work, 'fuzz%02d' % j)
            log = open(out + '.log', 'w')
            child_env['VERIF_CACHE_ROLE'] = '%s-fuzz%02d' % (prop.ID, j)
            if golden is not None:
                _seed_role_dir(golden, os.path.join(env.NBCACHE, key, child_env['VERIF_CACHE_ROLE']))
            p = subprocess.Popen([env.PY, '-u', '-m', 'vlib.fuzz_shard', modname, args.tier, str(seed), str(j),
                                  str(nfuzz), str(per_f), out], cwd=env.VERIF, env=dict(child_env),
                                 stdin=subprocess.DEVNULL, stdout=log, stderr=subprocess.STDOUT)
            procs.append((i, p, out, log))
    merged = {'evaluations': 0, 'ok': 0, 'failed_cases': 0, 'discards': {}, 'labels': {}, 'samples': [],
              'discard_sample': None, 'fail_records': [], 'fail_sig_counts': {}, 'fixed_cases': 0}
    import numpy as np
    hashes = []
    deadline = time.time() + timeout
    inconclusive = False
    for i, p, out, log in procs:
        try:
            p.wait(timeout=max(1.0, deadline - time.time()))
        except subprocess.TimeoutExpired:
            p.kill()
            p.wait()
            inconclusive = True
        log.close()
        if not os.path.exists(out + '.json'):
            with open(out + '.log') as fh:
                tail = fh.read()[-2500:]
            harness_errors.append('shard %d produced no result (rc=%s):\n%s' % (i, p.returncode, tail))
            continue
        with open(out + '.json') as fh:
            d = json.load(fh)
        if d.get('harness_error'):
            harness_errors.append('shard %d: %s' % (i, d['harness_error']))
        if d.get('fuzz'):
            fuzz_stats['shards'] += 1
            fuzz_stats['evaluations'] += d.get('evaluations', 0)
            fuzz_stats['fuzzer_inputs'] += d.get('fuzz_inputs', 0)
            fuzz_stats['instrumented_functions'] = max(fuzz_stats['instrumented_functions'], d.get('instrumented_functions', 0))
            try:
                import re
                with open(out + '.log') as fh:
                    covs = re.findall(r'cov: (\d+) ft: (\d+) corp: (\d+)', fh.read())
                if covs:
                    fuzz_stats['final_cov'].append({'edges': int(covs[-1][0]), 'features': int(covs[-1][1]), 'corpus': int(covs[-1][2])})
            except Exception:  # noqa
                pass
        for k in ('evaluations', 'ok', 'failed_cases', 'fixed_cases'):
            merged[k] += d.get(k, 0)
        for k in ('discards', 'labels', 'fail_sig_counts'):
            for a, b in d[k].items():
                merged[k][a] = merged[k].get(a, 0) + b
        if len(merged['samples']) < 5:
            merged['samples'].extend(d['samples'][:max(1, 5 - len(merged['samples']))])
        if merged['discard_sample'] is None:
            merged['discard_sample'] = d['discard_sample']
        merged['fail_records'].extend(d['fail_records'])
        hashes.append(np.load(out + '.npy'))
    distinct = int(len(np.unique(np.concatenate(hashes)))) if hashes else 0
    shutil.rmtree(work, ignore_errors=True)

    # ---- classify failures ----------------------------------------------------------------------
    buckets = {}
    for sk, n in merged['fail_sig_counts'].items():
        sig = json.loads(sk)
        kf = match_known(known, sig)
        if kf is not None:
            known_hits[kf['id']] = known_hits.get(kf['id'], 0) + n
        else:
            buckets[sk] = n
    out_dir = os.path.join(out_base, 'replays')
    for sk, n in sorted(buckets.items()):
        recs = [r for r in merged['fail_records'] if _sig_key(r['signature']) == sk]
        if not recs:
            continue
        rec = recs[0]
        case = rec['case']
        shrunk_evals = 0
        if not args.no_shrink and not getattr(prop, 'NO_SHRINK', False):
            try:
                if hasattr(prop, 'shard_setup'):
                    prop.shard_setup(args.tier)
                from .shrink import shrink

                def still(c, _sk=sk):
                    if hasattr(prop, 'in_domain') and not prop.in_domain(c):
                        return False
                    r = safe_evaluate(prop, c)
                    return any(_sig_key(f['signature']) == _sk for f in r['fails'])
                budget = getattr(prop, 'SHRINK_BUDGET', (150, 90.0))
                case, shrunk_evals = shrink(case, still, budget[0], budget[1], getattr(prop, 'shrink_hints', None))
                r2 = safe_evaluate(prop, case)
                det = [f['detail'] for f in r2['fails'] if _sig_key(f['signature']) == sk]
                if det:
                    rec = dict(rec, detail=det[0])
            except Exception as e:  # shrinking is best effort
                print('note: shrink failed (%s); keeping the original case' % e)
                case = rec['case']
        os.makedirs(out_dir, exist_ok=True)
        rpath = os.path.relpath(os.path.join(out_dir, '%s-%s.json' % (prop.ID, _sig_hash(rec['signature']))), env.VERIF)
        with open(os.path.join(env.VERIF, rpath), 'w') as fh:
            json.dump({'property': prop.ID, 'case': case, 'original_case': rec['case'],
                       'signature': rec['signature'], 'detail': rec['detail'], 'occurrences': n,
                       'seed': seed, 'tier': args.tier, 'shrink_evals': shrunk_evals}, fh, indent=1, default=repr)
        violations.append({'case': case, 'signature': rec['signature'], 'detail': rec['detail'],
                           'replay': rpath, 'origin': rec.get('origin', 'generated'), 'occurrences': n})

    # ---- report -----------------------------------------------------------------------------------
    for kf in known:
        if kf.get('status') == 'known':
            if known_hits.get(kf['id']):
                print('KNOWN-FINDING: property=%s %s [%s, %d occurrence(s) this run]'
                      % (prop.ID, kf['what'], kf['id'], known_hits[kf['id']]), flush=True)
            else:
                print('note: known finding %s was not reproduced in this run' % kf['id'], flush=True)
    required = prop.required_labels(args.tier) if hasattr(prop, 'required_labels') else []
    missing = [lb for lb in required if not merged['labels'].get(lb)]
    if missing:
        print('WARNING generator did not populate label(s): %s' % ', '.join(missing), flush=True)
    samples = list(merged['samples'])
    if merged['discard_sample'] is not None:
        samples.append(merged['discard_sample'])
    coverage = {
        'evaluations': merged['evaluations'] + n_replays,
        'distinct_nontrivial': distinct,
        'rule': prop.RULE,
        'samples': samples,
        'generated': merged['evaluations'] - merged['fixed_cases'],
        'fixed_or_enumerated': merged['fixed_cases'],
        'regression_replays': n_replays,
        'held': merged['ok'],
        'failed_cases': merged['failed_cases'],
        'discarded': merged['discards'],
        'labels': dict(sorted(merged['labels'].items())),
        'missing_required_labels': missing,
        'known_findings_hit': known_hits,
        'stale_extensions': binfo['stale_extensions'],
        'rebuilt_extensions': binfo['rebuilt'],
        'numba_cache_key': key,
        'shards': nshards,
        'coverage_guided': fuzz_stats if nfuzz else None,
        'inconclusive_timeout': inconclusive,
        'violation_signatures': [v['signature'] for v in violations][:20],
    }
    if hasattr(prop, 'extra_coverage'):
        try:
            coverage.update(prop.extra_coverage(args.tier, merged))
        except Exception as e:  # noqa
            harness_errors.append('extra_coverage: %s' % e)
    write_evidence(prop, args.tier, seed, coverage, getattr(prop, 'ASSUMPTIONS', []), time.time() - t0,
                   len(violations))
    print('%s tier=%s seed=%d evaluations=%d distinct_nontrivial=%d discarded=%d known=%d violations=%d wall=%.1fs'
          % (prop.ID, args.tier, seed, coverage['evaluations'], distinct, sum(merged['discards'].values()),
             sum(known_hits.values()), len(violations), time.time() - t0), flush=True)
    for v in violations:
        print('  failing signature: %s\n  detail: %s' % (_sig_key(v['signature']), v['detail'][:600]))
        print('VIOLATION property=%s replay=%s' % (prop.ID, v['replay']), flush=True)
    if violations:
        return EXIT_VIOLATION
    if harness_errors:
        for h in harness_errors:
            print('HARNESS-ERROR %s' % h, flush=True)
        return EXIT_HARNESS
    if inconclusive:
        print('HARNESS-ERROR inconclusive: safety timeout reached', flush=True)
        return EXIT_HARNESS
    return EXIT_OK
