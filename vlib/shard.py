"""One shard of a check: `python -m vlib.shard <module> <tier> <seed> <shard> <nshards> <ncases> <out>`.

Generates cases with Hypothesis (seeded, no database, generate phase only: failures are collected,
bucketed and shrunk by the parent - DESIGN 1.3 collect-then-shrink), evaluates each through the
property module's oracle and writes an aggregate to <out>.json plus the hashes of the non-trivial
cases to <out>.npy.
"""
import hashlib
import importlib
import json
import os
import sys
import time

from . import env

env.setup()

import numpy as np  # noqa: E402
from hypothesis import HealthCheck, Phase, given, seed, settings  # noqa: E402

from .result import HarnessError, safe_evaluate  # noqa: E402

MAX_FAIL_RECORDS = 60
MAX_SAMPLES = 5


def case_hash(case):
    s = json.dumps(case, sort_keys=True, default=repr).encode()
    return int.from_bytes(hashlib.blake2b(s, digest_size=8).digest(), 'little')


class Aggregator:
    def __init__(self):
        self.evaluations = 0
        self.ok = 0
        self.failed_cases = 0
        self.discards = {}
        self.labels = {}
        self.hashes = set()
        self.samples = []
        self.discard_sample = None
        self.fail_records = []
        self.fail_sig_counts = {}

    def add(self, case, res, origin):
        self.evaluations += 1
        for lb in res['labels']:
            self.labels[lb] = self.labels.get(lb, 0) + 1
        if res['discard'] is not None:
            self.discards[res['discard']] = self.discards.get(res['discard'], 0) + 1
            if self.discard_sample is None:
                self.discard_sample = {'case': case, 'discarded': res['discard']}
            return
        if res['nontrivial']:
            h = case_hash(case)
            if h not in self.hashes:
                self.hashes.add(h)
                if len(self.samples) < MAX_SAMPLES:
                    self.samples.append({'case': case, 'labels': res['labels'],
                                         'verdict': 'fail' if res['fails'] else 'ok'})
        if res['fails']:
            self.failed_cases += 1
            for f in res['fails']:
                key = json.dumps(f['signature'], sort_keys=True, default=repr)
                n = self.fail_sig_counts.get(key, 0)
                self.fail_sig_counts[key] = n + 1
                if n < 3 and len(self.fail_records) < MAX_FAIL_RECORDS:
                    self.fail_records.append({'case': case, 'signature': f['signature'],
                                              'detail': f['detail'], 'origin': origin})
        else:
            self.ok += 1

    def dump(self, out, extra):
        np.save(out + '.npy', np.fromiter(self.hashes, dtype=np.uint64, count=len(self.hashes)))
        d = {'evaluations': self.evaluations, 'ok': self.ok, 'failed_cases': self.failed_cases,
             'discards': self.discards, 'labels': self.labels, 'samples': self.samples,
             'discard_sample': self.discard_sample, 'fail_records': self.fail_records,
             'fail_sig_counts': self.fail_sig_counts}
        d.update(extra)
        with open(out + '.json.tmp', 'w') as fh:
            json.dump(d, fh, default=repr)
        os.replace(out + '.json.tmp', out + '.json')


def main(argv):
    modname, tier, seed_s, shard_s, nshards_s, ncases_s, out = argv
    seed_v, shard, nshards, ncases = int(seed_s), int(shard_s), int(nshards_s), int(ncases_s)
    t0 = time.time()
    prop = importlib.import_module('props.' + modname)
    agg = Aggregator()
    extra = {'shard': shard, 'harness_error': None}
    try:
        if hasattr(prop, 'shard_setup'):
            prop.shard_setup(tier)
        fixed = prop.fixed_cases(tier) if hasattr(prop, 'fixed_cases') else []
        for case in fixed[shard::nshards]:
            agg.add(case, safe_evaluate(prop, case), 'fixed')
        extra['fixed_cases'] = len(fixed[shard::nshards])
        if ncases > 0:
            strat = prop.strategy(tier)

            @seed(seed_v * 1000 + shard)
            @settings(max_examples=ncases, database=None, deadline=None, derandomize=False,
                      report_multiple_bugs=False, phases=[Phase.generate],
                      suppress_health_check=list(HealthCheck))
            @given(strat)
            def run_one(case):
                agg.add(case, safe_evaluate(prop, case), 'generated')

            run_one()
        if hasattr(prop, 'shard_teardown'):
            prop.shard_teardown()
    except HarnessError as e:
        extra['harness_error'] = str(e)[-3000:]
    except BaseException as e:  # noqa
        import traceback
        extra['harness_error'] = ''.join(traceback.format_exception(type(e), e, e.__traceback__))[-3000:]
    extra['wall_s'] = round(time.time() - t0, 3)
    agg.dump(out, extra)
    return 0


if __name__ == '__main__':
    sys.exit(main(sys.argv[1:]))
