"""Small delta-debugger over JSON-able case dicts (DESIGN 1.3).

A candidate replaces the current case if the oracle still fails with the same signature.
"""
import copy
import json
import math
import time


def _round_sig(x, n):
    if x == 0 or not math.isfinite(x):
        return x
    return float('%.*g' % (n, x))


def _candidates(v):
    """Yield simpler values for v (most aggressive first)."""
    if isinstance(v, bool):
        if v:
            yield False
    elif isinstance(v, int):
        for c in (0, 1, 2, v // 2, v - 1):
            if c != v and abs(c) <= abs(v):
                yield c
    elif isinstance(v, float):
        seen = set()
        for c in (0.0, 1.0, _round_sig(v, 1), _round_sig(v, 2), _round_sig(v, 3), _round_sig(v, 6)):
            if c != v and c not in seen and not (isinstance(c, float) and math.isnan(c)):
                seen.add(c)
                yield c
    elif isinstance(v, list):
        n = len(v)
        if n > 1:
            yield v[:n // 2]
            yield v[n // 2:]
        if 1 < n <= 12:
            for i in range(n):
                yield v[:i] + v[i + 1:]
    elif v is None or isinstance(v, str):
        return


def _paths(obj, prefix=()):
    if isinstance(obj, dict):
        for k in sorted(obj):
            yield from _paths(obj[k], prefix + (k,))
    elif isinstance(obj, list):
        yield prefix
        for i, x in enumerate(obj):
            yield from _paths(x, prefix + (i,))
    else:
        yield prefix


def _get(obj, path):
    for p in path:
        obj = obj[p]
    return obj


def _set(obj, path, val):
    obj = copy.deepcopy(obj)
    if not path:
        return val
    cur = obj
    for p in path[:-1]:
        cur = cur[p]
    cur[path[-1]] = val
    return obj


def shrink(case, still_fails, max_evals=150, max_seconds=90.0, hints=None):
    """Greedy fixed-point shrink.  still_fails(candidate) -> bool."""
    t0 = time.time()
    evals = 0
    cur = case
    improved = True
    while improved and evals < max_evals and time.time() - t0 < max_seconds:
        improved = False
        if hints is not None:
            for cand in hints(cur):
                if evals >= max_evals or time.time() - t0 > max_seconds:
                    break
                evals += 1
                if json.dumps(cand, sort_keys=True, default=repr) != json.dumps(cur, sort_keys=True, default=repr) \
                        and still_fails(cand):
                    cur = cand
                    improved = True
        for path in list(_paths(cur)):
            try:
                v = _get(cur, path)
            except (KeyError, IndexError, TypeError):
                continue
            for c in _candidates(v):
                if evals >= max_evals or time.time() - t0 > max_seconds:
                    break
                cand = _set(cur, path, c)
                evals += 1
                try:
                    good = still_fails(cand)
                except Exception:
                    good = False
                if good:
                    cur = cand
                    improved = True
                    break
    return cur, evals
